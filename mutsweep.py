#!/venv/bin/python
"""./mutsweep.py [--n N] [--seed S] [--workers W] [--files f1,f2]

Automatic mutation sweep: random single-token mutants of the dassh source
(arithmetic / comparison / boolean operator swaps, numeric constants nudged,
constant indices shifted) are applied one at a time to scratch copies of /repo
(outside /repo and /verif) and the quick tiers of the checks that own the
mutated file are run against the copy until one fires. Mutants no check
catches are then run through the repository's own test-suite; the ones that
also pass the tests are the survivors to triage (equivalent mutant, or a gap in
the monitors). Results: mutants/sweep_<seed>.json. Nothing is written to
/repo; evidence of these runs goes to a scratch directory."""
import ast, json, os, random, shutil, subprocess, sys, tempfile, time
import concurrent.futures as cf
HERE = os.path.dirname(os.path.abspath(__file__))
opts = {a.split('=')[0]: (a.split('=') + [''])[1] for a in sys.argv[1:]}
N = int(opts.get('--n', 60)); SEED = int(opts.get('--seed', 0))
W = int(opts.get('--workers', 4))

OWNERS = {
    'dassh/region_rodded.py': ['C01', 'C04', 'C11', 'C08', 'C03', 'C14', 'C07', 'C15', 'C06', 'C12', 'C13'],
    'dassh/region_unrodded.py': ['C01', 'C04', 'C11', 'C14', 'C02', 'C15'],
    'dassh/region.py': ['C01', 'C06', 'C15', 'C02'],
    'dassh/core.py': ['C09', 'C02', 'C04', 'C07', 'C10'],
    'dassh/reactor.py': ['C05', 'C02', 'C03', 'C04', 'C06', 'C16', 'C10', 'C15', 'C01'],
    'dassh/assembly.py': ['C01', 'C15', 'C03', 'C06', 'C14', 'C04'],
    'dassh/power.py': ['C03', 'C06', 'C18', 'C16'],
    'dassh/mesh_functions.py': ['C10', 'C02', 'C07'],
    'dassh/pin_model.py': ['C13', 'C15'],
    'dassh/hotspot.py': ['C19'],
    'dassh/orificing.py': ['C20'],
    'dassh/subchannel.py': ['C08', 'C01', 'C07'],
    'dassh/pin.py': ['C08', 'C13', 'C07'],
    'dassh/read_input.py': ['C18', 'C17', 'C05'],
    'dassh/material.py': ['C17', 'C04', 'C01'],
    'dassh/correlations/flowsplit_ctd.py': ['C12'],
    'dassh/correlations/friction_ctd.py': ['C12', 'C14'],
    'dassh/correlations/mixing_ctd.py': ['C12', 'C01'],
    'dassh/correlations/flowsplit_mit.py': ['C12'],
    'dassh/correlations/friction_nov.py': ['C12'],
    'dassh/table.py': ['C15', 'C02', 'C19'],
    'dassh/utils.py': ['C04', 'C16', 'C17'],
}
for _k in OWNERS:
    if 'C18' not in OWNERS[_k]:
        OWNERS[_k] = OWNERS[_k] + ['C18']     # crashes on valid input
if opts.get('--files'):
    OWNERS = {k: v for k, v in OWNERS.items() if k in opts['--files'].split(',')}

BIN = {ast.Add: '+', ast.Sub: '-', ast.Mult: '*', ast.Div: '/'}
SWAP = {'+': '-', '-': '+', '*': '/', '/': '*'}
CMP = {ast.Lt: '<', ast.LtE: '<=', ast.Gt: '>', ast.GtE: '>='}
CSWAP = {'<': '<=', '<=': '<', '>': '>=', '>=': '>'}


def candidates(path, src):
    lines = src.split('\n')
    tree = ast.parse(src)
    # skip docstrings / module constants tables
    out = []

    def seg(l0, c0, l1, c1):
        return l0 == l1 and lines[l0 - 1][c0:c1]

    for fn in ast.walk(tree):
        if not isinstance(fn, (ast.FunctionDef,)):
            continue
        for node in ast.walk(fn):
            if isinstance(node, ast.BinOp) and type(node.op) in BIN:
                l, r = node.left, node.right
                if l.end_lineno == r.lineno:
                    s = lines[l.end_lineno - 1][l.end_col_offset:r.col_offset]
                    op = BIN[type(node.op)]
                    if s.count(op) == 1 and s.strip(' ()') == op:
                        c = l.end_col_offset + s.index(op)
                        out.append((l.end_lineno, c, op, SWAP[op], fn.name, 'binop'))
            elif isinstance(node, ast.Compare) and len(node.ops) == 1 and type(node.ops[0]) in CMP:
                l, r = node.left, node.comparators[0]
                if l.end_lineno == r.lineno:
                    s = lines[l.end_lineno - 1][l.end_col_offset:r.col_offset]
                    op = CMP[type(node.ops[0])]
                    if s.strip() == op:
                        c = l.end_col_offset + s.index(op)
                        out.append((l.end_lineno, c, op, CSWAP[op], fn.name, 'cmp'))
            elif isinstance(node, ast.Subscript) and isinstance(node.slice, ast.Constant) \
                    and isinstance(node.slice.value, int) and not isinstance(node.slice.value, bool) \
                    and isinstance(node.ctx, ast.Load):
                k = node.slice
                if k.lineno == k.end_lineno:
                    s = lines[k.lineno - 1][k.col_offset:k.end_col_offset]
                    if s == str(k.value):
                        new = str(k.value + 1) if k.value >= 0 else str(k.value - 1)
                        if k.value == 1:
                            new = '0'
                        out.append((k.lineno, k.col_offset, s, new, fn.name, 'index'))
            elif isinstance(node, ast.Constant) and isinstance(node.value, float) \
                    and node.lineno == node.end_lineno and node.value not in (0.0, 1.0):
                s = lines[node.lineno - 1][node.col_offset:node.end_col_offset]
                try:
                    if float(s) == node.value:
                        out.append((node.lineno, node.col_offset, s, repr(node.value * 1.05), fn.name, 'const'))
                except ValueError:
                    pass
            elif isinstance(node, ast.BoolOp) and len(node.values) == 2:
                l, r = node.values
                if l.end_lineno == r.lineno:
                    s = lines[l.end_lineno - 1][l.end_col_offset:r.col_offset]
                    op = 'and' if isinstance(node.op, ast.And) else 'or'
                    if s.strip() == op:
                        c = l.end_col_offset + s.index(op)
                        out.append((l.end_lineno, c, op, 'or' if op == 'and' else 'and', fn.name, 'bool'))
    return out


def apply(src, m):
    ln, col, old, new = m[:4]
    lines = src.split('\n')
    L = lines[ln - 1]
    assert L[col:col + len(old)] == old, (L, col, old)
    lines[ln - 1] = L[:col] + new + L[col + len(old):]
    return '\n'.join(lines)


def worker(job):
    idx, rel, m, copy = job
    p = os.path.join(copy, rel)
    orig = open(p).read()
    out = {'id': idx, 'file': rel, 'line': m[0], 'col': m[1], 'old': m[2], 'new': m[3],
           'function': m[4], 'kind': m[5], 'source_line': orig.split('\n')[m[0] - 1].strip()[:160]}
    try:
        open(p, 'w').write(apply(orig, m))
        e = dict(os.environ, VERIF_DASSH_SRC=copy, VERIF_OUT_DIR=os.path.join(copy, '_vout'))
        e.pop('DASSH_VERIF', None)
        r = subprocess.run(['/venv/bin/python', '-c', 'import dassh'], cwd=copy, env=dict(e, PYTHONPATH=copy),
                           stdout=subprocess.DEVNULL, stderr=subprocess.DEVNULL)
        if r.returncode != 0:
            out['outcome'] = 'does_not_import'
            return out
        t0 = time.time()
        for chk in OWNERS[rel]:
            r = subprocess.run([os.path.join(HERE, 'check'), chk, '--tier', 'quick', '--jobs', '4'], env=e,
                               stdout=subprocess.PIPE, stderr=subprocess.STDOUT)
            txt = r.stdout.decode(errors='replace')
            if r.returncode == 1:
                out['outcome'] = 'caught'
                out['by'] = chk
                out['monitors'] = sorted(set(l.split('monitor=')[1].split()[0] for l in txt.splitlines() if 'monitor=' in l))[:6]
                break
            if r.returncode == 2:
                out.setdefault('inconclusive', []).append(chk)
        else:
            out['outcome'] = 'not_caught_by_checks'
        out['wall_checks'] = round(time.time() - t0, 1)
        if out['outcome'] == 'not_caught_by_checks':
            x = os.path.join(copy, '_j.xml')
            subprocess.run(['/venv/bin/python', '-m', 'pytest', '-q', '-p', 'no:cacheprovider', '--timeout=900',
                            '--continue-on-collection-errors', '--junitxml=' + x], cwd=copy,
                           env=dict(e, PYTHONPATH=copy), stdout=subprocess.DEVNULL, stderr=subprocess.DEVNULL)
            import xml.etree.ElementTree as ET
            ok = set()
            try:
                for tc in ET.parse(x).iter('testcase'):
                    if not any(c.tag in ('failure', 'error', 'skipped') for c in tc):
                        ok.add(tc.get('classname') + '::' + tc.get('name'))
            except Exception:
                out['outcome'] = 'tests_inconclusive'
                return out
            base = set(json.load(open('/root/.vp/BASELINE.json'))['stable_pass'])
            lost = sorted(base - ok)
            out['tests_lost'] = lost[:5]
            out['outcome'] = 'killed_by_tests_only' if lost else 'SURVIVED'
    except Exception as ex:
        out['outcome'] = 'harness_error: %r' % (ex,)
    finally:
        open(p, 'w').write(orig)
    return out


def main():
    rnd = random.Random(SEED)
    pool = []
    if opts.get('--rerun'):
        # survivors (or any outcome class) of an earlier sweep, again
        prev = json.load(open(opts['--rerun']))
        want = opts.get('--only', 'SURVIVED').split(',')
        chosen = [(m['file'], (m['line'], m['col'], m['old'], m['new'],
                               m['function'], m['kind']))
                  for m in prev['mutants'] if m['outcome'] in want
                  and m['file'] in OWNERS]
        pool = chosen
    else:
        for rel in OWNERS:
            src = open(os.path.join('/repo', rel)).read()
            for m in candidates(rel, src):
                pool.append((rel, m))
        rnd.shuffle(pool)
        # spread over files: at most N/len(OWNERS)*3 per file
        cap = max(3, 3 * N // max(1, len(OWNERS)))
        cnt, chosen = {}, []
        for rel, m in pool:
            if cnt.get(rel, 0) < cap and len(chosen) < N:
                cnt[rel] = cnt.get(rel, 0) + 1
                chosen.append((rel, m))
    base = tempfile.mkdtemp(prefix='vmon_mutsweep_')
    copies = []
    try:
        for w in range(W):
            c = os.path.join(base, 'repo%d' % w)
            shutil.copytree('/repo', c, symlinks=True, ignore=shutil.ignore_patterns('.git', '__pycache__', '*.egg-info'))
            copies.append(c)
        results = []
        # each worker owns one copy: static partition
        parts = [[] for _ in range(W)]
        for i, (rel, m) in enumerate(chosen):
            parts[i % W].append((i, rel, m, copies[i % W]))

        def run_part(part):
            return [worker(j) for j in part]
        with cf.ThreadPoolExecutor(W) as ex:
            for rs in ex.map(run_part, parts):
                results += rs
        results.sort(key=lambda r: r['id'])
        summ = {}
        for r in results:
            summ[r['outcome']] = summ.get(r['outcome'], 0) + 1
        out = {'seed': SEED, 'n': len(results), 'pool': len(pool), 'summary': summ, 'mutants': results,
               'repo_head': subprocess.check_output(['git', '-C', '/repo', 'rev-parse', '--short', 'HEAD'], text=True).strip()}
        os.makedirs(os.path.join(HERE, 'mutants'), exist_ok=True)
        json.dump(out, open(os.path.join(HERE, 'mutants', 'sweep_%s.json' % opts.get('--tag', SEED)), 'w'), indent=1)
        print(json.dumps(summ))
        for r in results:
            if r['outcome'] in ('SURVIVED',) or r['outcome'].startswith('harness'):
                print(r['outcome'], r['file'], r['line'], r['function'], r['kind'], r['old'], '->', r['new'], '|', r['source_line'])
    finally:
        shutil.rmtree(base, ignore_errors=True)


if __name__ == '__main__':
    main()
