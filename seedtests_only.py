#!/venv/bin/python
"""./seedtests_only.py [--workers N] [home ...]
For every stored seed whose meta.json has no test-suite result: run the
repository's suite in the seed's own scratch worktree (/tmp/seed/<home>) on
the clean tree and with the patch applied, and record the comparison in
meta.json ('tests': baseline_passing, patched_passing, lost)."""
import json, os, subprocess, sys, tempfile, glob
import xml.etree.ElementTree as ET
import concurrent.futures as cf
HERE = os.path.dirname(os.path.abspath(__file__))
PY = '/venv/bin/python'
opts = {a.split('=')[0]: (a.split('=') + [''])[1] for a in sys.argv[1:] if a.startswith('--')}
only = [a for a in sys.argv[1:] if not a.startswith('--')]


def passing(tree):
    with tempfile.TemporaryDirectory() as d:
        x = os.path.join(d, 'j.xml')
        e = dict(os.environ, PYTHONPATH=tree); e.pop('DASSH_VERIF', None)
        subprocess.run([PY, '-m', 'pytest', '-q', '-p', 'no:cacheprovider', '--timeout=900',
                        '--continue-on-collection-errors', '--junitxml=' + x], cwd=tree, env=e,
                       stdout=subprocess.DEVNULL, stderr=subprocess.DEVNULL)
        ok = set()
        if not os.path.exists(x):      # run was killed from outside: once more
            subprocess.run([PY, '-m', 'pytest', '-q', '-p', 'no:cacheprovider', '--timeout=900',
                            '--continue-on-collection-errors', '--junitxml=' + x], cwd=tree, env=e,
                           stdout=subprocess.DEVNULL, stderr=subprocess.DEVNULL)
        for tc in ET.parse(x).iter('testcase'):
            if not any(c.tag in ('failure', 'error', 'skipped') for c in tc):
                ok.add(tc.get('classname') + '::' + tc.get('name'))
        return ok


todo = {}
for mp in sorted(glob.glob(os.path.join(HERE, 'seeded', 'C*', 'meta.json'))):
    m = json.load(open(mp))
    if m.get('tests') and m['tests'].get('baseline_passing'):
        continue
    home = m['seed_id'].rsplit('-', 1)[0]
    if only and home not in only:
        continue
    if not os.path.isdir('/tmp/seed/' + home):
        print('no worktree for', m['seed_id']); continue
    todo.setdefault(home, []).append(mp)


def do_home(home):
    tree = '/tmp/seed/' + home
    subprocess.run(['git', '-C', tree, 'checkout', '-q', '--', 'dassh'])
    base = passing(tree)
    out = []
    for mp in todo[home]:
        m = json.load(open(mp))
        diff = os.path.join(os.path.dirname(mp), 'patch.diff')
        ap = subprocess.run(['git', '-C', tree, 'apply', diff])
        try:
            pp = passing(tree) if ap.returncode == 0 else set()
        finally:
            subprocess.run(['git', '-C', tree, 'checkout', '-q', '--', 'dassh'])
        m['tests'] = {'baseline_passing': len(base), 'patched_passing': len(pp),
                      'lost': sorted(base - pp)[:10], 'run_in': tree}
        m['confirmed'] = bool(m.get('demo', {}).get('clean_exit') == 0 and
                              m.get('demo', {}).get('patched_exit') not in (0, None) and not (base - pp))
        json.dump(m, open(mp, 'w'), indent=1)
        out.append((m['seed_id'], len(base), len(pp), sorted(base - pp)[:3]))
    return out


with cf.ThreadPoolExecutor(int(opts.get('--workers', 5))) as ex:
    for rs in ex.map(do_home, sorted(todo)):
        for r in rs:
            print(*r, flush=True)
