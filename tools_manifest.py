#!/venv/bin/python
"""Regenerate MANIFEST.json from the check modules present in vmon/checks
(single source of truth: each module's PROPERTY/LEVEL/LEVEL_TEXT/... fields)."""
import os, sys, json, importlib
HERE = os.path.dirname(os.path.abspath(__file__))
sys.path.insert(0, HERE)
os.environ.setdefault('VERIF_DASSH_SRC', '/repo')

props = [json.loads(l) for l in open(os.path.join(HERE, 'properties.jsonl'))]
READY = json.load(open(os.path.join(HERE, 'ready.json')))
checks, na = [], []
for p in props:
    pid = p['id']
    path = os.path.join(HERE, 'vmon', 'checks', pid.lower() + '.py')
    if not os.path.exists(path) or pid not in READY:
        na.append({'property_id': pid,
                   'reason': 'check not built yet (runtime monitoring applies; see DESIGN.md section 3)'})
        continue
    src = open(path).read()
    g = {}
    # read declarative header without importing dassh
    import ast
    tree = ast.parse(src)
    for node in tree.body:
        if isinstance(node, ast.Assign) and len(node.targets) == 1 and isinstance(node.targets[0], ast.Name):
            n = node.targets[0].id
            if n in ('PROPERTY', 'LEVEL', 'LEVEL_TEXT', 'LEVEL_NOTE', 'TECHNIQUE', 'DESIGN_REF', 'CLAIMED'):
                g[n] = ast.literal_eval(node.value)
    if g.get('CLAIMED') is False:
        na.append({'property_id': pid, 'reason': g.get('LEVEL_NOTE', 'not claimed')})
        continue
    checks.append({
        'property_id': pid,
        'quick_cmd': './check %s --tier quick' % pid,
        'thorough_cmd': './check %s --tier thorough' % pid,
        'evidence_file': '/verif/evidence/%s.json' % pid,
        'replay_cmd_template': './check %s --replay {path}' % pid,
        'engine': 'vmon',
        'level_claimed': {'category': g.get('LEVEL', 'exploration'),
                          'text': g['LEVEL_TEXT'],
                          'design_ref': g.get('DESIGN_REF', 'DESIGN.md section 3, ' + pid)},
        'level_note': g['LEVEL_NOTE'],
        'technique': g['TECHNIQUE'],
    })
m = {
    'version': 1,
    'setup_cmd': 'cd /verif && /venv/bin/python -c "import numpy, configobj, pandas; print(\'deps ok\')" && mkdir -p evidence replays',
    'hooks': {
        'guard': 'DASSH_VERIF',
        'enable': 'No source hooks: monitors are attached from the harness by wrapping attributes of the imported dassh classes/modules (vmon/probe.py) when ./check sets DASSH_VERIF=1; dassh is imported from $VERIF_DASSH_SRC (default /repo), i.e. the current working tree.',
        'baseline_off_cmd': 'cd /repo && env -u DASSH_VERIF /venv/bin/python -m pytest -q -p no:cacheprovider --timeout=900 --continue-on-collection-errors',
        'source_commits': [],
        'add_only': True,
    },
    'engines': [{'name': 'vmon', 'path': '/verif/vmon',
                 'serves_properties': [c['property_id'] for c in checks],
                 'kind_free_text': 'runtime monitoring harness: generated input files driven through the real DASSH_Input/Reactor/axial_step path under wrapper hooks; per-step conservation identities, linear operator probing, metamorphic pairs, structural contracts; three-valued verdicts'}],
    'checks': checks,
    'not_applicable': na,
    'notes': 'Exit codes of every check: 0 held on what was observed, 1 violation (VIOLATION line + replay file), 2 inconclusive (deciding monitor never reached / harness error). known_findings.json lists recorded defects (suppressed by mechanism) and fixed: entries (suppress nothing).',
}
json.dump(m, open(os.path.join(HERE, 'MANIFEST.json'), 'w'), indent=1)
print('checks:', [c['property_id'] for c in checks]); print('n/a:', [x['property_id'] for x in na])
