#!/venv/bin/python
"""./seedtest_all.py [--workers N]: re-run the checks against every stored seed
(seeded/*/patch.diff applied to a scratch worktree of /repo HEAD) and refresh
'checks'/'caught_by' in meta.json. Demonstrations and test-suite results in the
meta files are left as they are (see seedtest.py / seedtests_only.py)."""
import json, os, subprocess, sys, glob, time
import concurrent.futures as cf
HERE = os.path.dirname(os.path.abspath(__file__))
opts = {a.split('=')[0]: (a.split('=') + [''])[1] for a in sys.argv[1:] if a.startswith('--')}
W = int(opts.get('--workers', 4))
head = subprocess.check_output(['git', '-C', '/repo', 'rev-parse', '--short', 'HEAD']).decode().strip()


def one(mp):
    m = json.load(open(mp))
    sid = m['seed_id']
    wt = '/tmp/seedrun/all_%s' % sid
    subprocess.run(['git', '-C', '/repo', 'worktree', 'remove', '--force', wt], stdout=subprocess.DEVNULL, stderr=subprocess.DEVNULL)
    os.makedirs('/tmp/seedrun', exist_ok=True)
    subprocess.run(['git', '-C', '/repo', 'worktree', 'add', '-q', '--detach', wt, 'HEAD'], check=True)
    try:
        ap = subprocess.run(['git', '-C', wt, 'apply', os.path.join(os.path.dirname(mp), 'patch.diff')],
                            stdout=subprocess.PIPE, stderr=subprocess.STDOUT)
        if ap.returncode != 0:
            m['applies_to_head'] = False
            json.dump(m, open(mp, 'w'), indent=1)
            return sid, 'PATCH DOES NOT APPLY', []
        m['applies_to_head'] = True
        checks = list(m.get('checks', {}).keys()) or [m['property']]
        res = {}
        for c in checks:
            t0 = time.time()
            e = dict(os.environ, VERIF_DASSH_SRC=wt, VERIF_OUT_DIR=os.path.join(wt, '_vout'))
            r = subprocess.run([os.path.join(HERE, 'check'), c, '--tier', 'quick', '--jobs', '4'], env=e,
                               stdout=subprocess.PIPE, stderr=subprocess.STDOUT)
            txt = r.stdout.decode(errors='replace')
            mons = sorted(set(l.split('monitor=')[1].split()[0] for l in txt.splitlines() if 'monitor=' in l))
            res[c] = {'exit': r.returncode, 'monitors': mons, 'wall_s': round(time.time() - t0, 1), 'tier': 'quick',
                      'cmd': 'VERIF_DASSH_SRC=<scratch worktree of HEAD with patch> ./check %s --tier quick' % c}
        m['checks'] = res
        m['caught_by'] = [c for c, x in res.items() if x['exit'] == 1]
        m['repo_head'] = head
        json.dump(m, open(mp, 'w'), indent=1)
        return sid, m['caught_by'], {c: x['exit'] for c, x in res.items()}
    finally:
        subprocess.run(['git', '-C', '/repo', 'worktree', 'remove', '--force', wt], stdout=subprocess.DEVNULL, stderr=subprocess.DEVNULL)


mps = sorted(glob.glob(os.path.join(HERE, 'seeded', 'C*', 'meta.json')))
only = [a for a in sys.argv[1:] if not a.startswith('--')]
if only:
    mps = [p for p in mps if any(o in p for o in only)]
with cf.ThreadPoolExecutor(W) as ex:
    for sid, caught, ex_ in ex.map(one, mps):
        print(sid, caught if caught else '**NOT CAUGHT**', ex_, flush=True)
