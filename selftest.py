#!/venv/bin/python
"""./selftest.py [mutant-id ...]  - validate monitors against mutants/mutants.json.
Copies /repo (no .git) to a scratch directory outside /repo and /verif, applies one
mutant at a time (exact text replacement), runs the quick tier of the named check with
VERIF_DASSH_SRC pointing at the copy and compares the exit status with the expectation
(1 unless the mutant says "expect": 0 = equivalent mutant that must NOT raise an alarm).
The scratch copy is removed at the end."""
import json, os, shutil, subprocess, sys, tempfile, time
HERE = os.path.dirname(os.path.abspath(__file__))
muts = json.load(open(os.path.join(HERE, 'mutants', 'mutants.json')))
if len(sys.argv) > 1:
    muts = [m for m in muts if m['id'] in sys.argv[1:] or m['check'] in sys.argv[1:]]
base = tempfile.mkdtemp(prefix='vmon_selftest_')
copy = os.path.join(base, 'repo')
shutil.copytree('/repo', copy, symlinks=True, ignore=shutil.ignore_patterns('.git', '__pycache__', '*.egg-info'))
ok = True
rows = []
try:
    for m in muts:
        p = os.path.join(copy, m['file'])
        orig = open(p).read()
        if orig.count(m['old']) != 1:
            rows.append((m['id'], m['check'], 'PATCH-DOES-NOT-APPLY', 0)); ok = False; continue
        open(p, 'w').write(orig.replace(m['old'], m['new']))
        t0 = time.time()
        e = dict(os.environ, VERIF_DASSH_SRC=copy, VERIF_OUT_DIR=os.path.join(base, '_vout'))
        r = subprocess.run([os.path.join(HERE, 'check'), m['check'], '--tier', 'quick'], env=e,
                           stdout=subprocess.PIPE, stderr=subprocess.STDOUT)
        open(p, 'w').write(orig)
        want = m.get('expect', 1)
        good = (r.returncode == want)
        ok = ok and good
        mon = sorted(set(l.split('monitor=')[1].split()[0] for l in r.stdout.decode().splitlines() if 'monitor=' in l))
        rows.append((m['id'], m['check'], 'ok' if good else 'MISSED' if want == 1 else 'FALSE-ALARM',
                     r.returncode, ','.join(mon)[:80], '%.0fs' % (time.time() - t0)))
        print(rows[-1], flush=True)
finally:
    shutil.rmtree(base, ignore_errors=True)
    # evidence files written during mutant runs describe the mutant, not /repo
print('SELFTEST', 'PASSED' if ok else 'FAILED')
sys.exit(0 if ok else 1)
