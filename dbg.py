#!/venv/bin/python
"""./dbg.py C01 <case-name> [tier] : run one case in-process and dump."""
import sys, json, importlib
sys.path.insert(0, '/verif')
from vmon import env; env.import_dassh()
mod = importlib.import_module('vmon.checks.' + sys.argv[1].lower())
tier = sys.argv[3] if len(sys.argv) > 3 else 'quick'
cs = {c['name']: c for c in mod.cases(tier, int(__import__('os').environ.get('VERIF_SEED', 0)))}
for nm in sys.argv[2].split(','):
    c = cs[nm]
    r = mod.run_case(c)
    d = r.out() if hasattr(r, 'out') else r
    print(nm, d['status'], d['err'])
    print(' counts', d['counts'])
    print(' stats', {k: ['%.3e' % x for x in v] for k, v in d['stats'].items()})
    seen = set()
    for v in d['viol']:
        k = (v['monitor'], json.dumps(v['key'], sort_keys=True, default=str))
        if k in seen: continue
        seen.add(k)
        print(' VIOL', v['monitor'], v['msg'], v['key'], {k2: v2 for k2, v2 in v['data'].items()})
    if d.get('sample'): print(' sample', json.dumps(d['sample'], default=str)[:1500])
