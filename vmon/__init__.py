"""vmon - runtime monitors for dassh-dev/dassh (properties C01..C20)."""
