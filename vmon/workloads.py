"""Random problem builders shared by the physics checks.

Every builder takes a numpy Generator and returns a Problem dict (see gen.py)
plus a small 'features' dict used for coverage tags and non-triviality keys.
All randomness comes from the rng, so (seed, index) reproduces a case.
"""
import copy
import math
import numpy as np
from vmon import gen

MIX = ['MIT', 'CTD', 'UCTD', 'KC-BARE']
FF = ['NOV', 'REH', 'ENG', 'CTD', 'CTS', 'UCTD']
FS = ['NOV', 'SE2', 'MIT', 'CTD', 'UCTD']
CT = ('CTD', 'UCTD')


def corr_is_same_family(mix, ff, fs):
    """Triples that do not mix the Cheng-Todreas detailed family with other
    families (the cross-family ones crash in the transition regime: F10)."""
    if fs in CT or mix in CT:
        return ff in CT and fs in CT
    return True


SAFE_TRIPLES = [(m, f, s) for m in MIX for f in FF for s in FS
                if corr_is_same_family(m, f, s)]

BARE_TRIPLES = [(m, f, s) for m in ('KC-BARE', 'CTD', 'UCTD')
                for f in CT for s in CT]

TDEP_NA = 'sodium_se2anl'     # built-in polynomial, T-dependent
TDEP_STEEL = 'ht9'
# built-in temperature-dependent coolants: name -> (density, heat capacity)
# used only to size flow rates and powers
COOLANTS = {'sodium_se2anl': (850.0, 1274.0), 'sodium': (850.0, 1274.0),
            'lead': (10400.0, 146.0), 'lbe': (10100.0, 145.0),
            'potassium': (740.0, 770.0), 'nak': (780.0, 900.0)}


def pick_coolant(rng, P, tdep, heavy=0.25):
    """Choose the coolant material; heavy liquid metals and other alkalis
    with probability `heavy` among the temperature-dependent cases."""
    if not tdep:
        P['coolant'] = 'na_const'
        return 'na_const'
    name = TDEP_NA
    if rng.random() < heavy:
        name = choose(rng, ['lead', 'lbe', 'potassium', 'nak', 'sodium'])
    P['coolant'] = name
    P['coolant_rho_cp'] = COOLANTS[name]
    return name


def loguniform(rng, lo, hi):
    return float(math.exp(rng.uniform(math.log(lo), math.log(hi))))


def choose(rng, seq):
    return seq[int(rng.integers(len(seq)))]


def random_type(rng, ftf_outer, nr=None, n_duct=None, tdep=False,
                max_rings=8, allow_bare=True, corr=None, byp=None,
                type_kw=None):
    nr = nr if nr is not None else int(rng.integers(2, max_rings + 1))
    n_duct = n_duct if n_duct is not None else choose(rng, [1, 1, 1, 2, 2, 3])
    if corr is None:
        corr = choose(rng, SAFE_TRIPLES)
        if allow_bare and rng.random() < 0.12:
            corr = choose(rng, BARE_TRIPLES)
    # bare rods are accepted only by the CTD/UCTD friction and flow split
    wire = not (corr in BARE_TRIPLES and allow_bare and rng.random() < 0.7)
    kw = dict(type_kw or {})
    if n_duct > 1:
        if byp is None:
            byp = 0.0 if rng.random() < 0.3 else loguniform(rng, 0.01, 0.25)
        kw['byp_ff'] = byp
    t = gen.make_type(rng, nr, ftf_outer, n_duct=n_duct, wire=wire,
                      corr=corr,
                      duct_material=(TDEP_STEEL if tdep and rng.random() < 0.7
                                     else 'steel_const'), **kw)
    if rng.random() < 0.5:
        t['wire_direction'] = 'clockwise'
    if rng.random() < 0.15:
        t['shape_factor'] = float(rng.uniform(1.0, 2.0))
    if rng.random() < 0.1:
        t['corr_shapefactor'] = 'CT'
    return t


def add_axial_regions(rng, P, tname, n_lower=None, n_upper=None,
                      models=('simple', '6node')):
    """Split the core height into [lower unrodded][rods][upper unrodded]."""
    L = P['length']
    t = P['types'][tname]
    n_lower = n_lower if n_lower is not None else int(rng.integers(0, 3))
    n_upper = n_upper if n_upper is not None else int(rng.integers(0, 3))
    if n_lower + n_upper == 0:
        return []
    cuts = np.sort(np.round(rng.uniform(0.08, 0.92, n_lower + n_upper) * L,
                            3))
    # make sure cuts are distinct and leave a rodded zone
    cuts = np.unique(cuts)
    if len(cuts) < n_lower + n_upper:
        return []
    lo = [0.0] + list(cuts[:n_lower])
    hi = list(cuts[n_lower:]) + [L]
    regs = {}
    names = []
    for i in range(n_lower):
        nm = 'lo%d' % i
        regs[nm] = _ur(rng, lo[i], lo[i + 1], models)
        names.append(nm)
    for i in range(n_upper):
        nm = 'up%d' % i
        regs[nm] = _ur(rng, hi[i], hi[i + 1], models)
        names.append(nm)
    t['AxialRegion'] = regs
    return names


def _ur(rng, zlo, zhi, models):
    d = {'z_lo': float(zlo), 'z_hi': float(zhi),
         'vf_coolant': float(rng.uniform(0.15, 0.7)),
         'model': choose(rng, list(models))}
    if rng.random() < 0.5:
        d['convection_factor'] = float(choose(rng, [1.0, 0.7, 0.3, 0.1]))
    if rng.random() < 0.3:
        d['hydraulic_diameter'] = float(rng.uniform(0.002, 0.02))
    if rng.random() < 0.3:
        d['epsilon'] = float(rng.uniform(0.0, 1e-5))
    return d


def random_power(rng, P, max_cells=4, max_order=3, aligned=True):
    L = P['length']
    nc = int(rng.integers(1, max_cells + 1))
    if nc == 1:
        zb = [0.0, L]
    else:
        inner = np.unique(np.round(rng.uniform(0.1, 0.9, nc - 1) * L, 3))
        zb = [0.0] + [float(x) for x in inner] + [L]
    P['power']['zb'] = zb
    P['power']['order'] = int(rng.integers(0, max_order + 1))
    P['power']['seed'] = int(rng.integers(1 << 30))
    return zb


def single_assembly(rng, tdep=None, gap=None, lf=None, regions=None,
                    max_rings=7, length=None, vel=None, n_duct=None,
                    nr=None, corr=None, conv_approx=None, byp=None,
                    coolant_pool=False, bc=None, type_kw=None):
    """One assembly at the core centre."""
    tdep = (rng.random() < 0.3) if tdep is None else tdep
    L = length if length is not None else float(choose(rng, [0.5, 1.0, 2.0]))
    gap = gap if gap is not None else choose(
        rng, ['none', 'none', 'flow', 'no_flow', 'duct_average'])
    P = gen.base_problem(length=L, asm_pitch=0.12, gap_model=gap,
                         coolant=(TDEP_NA if tdep else 'na_const'),
                         bypass_fraction=(0.0 if gap == 'none' else
                                          loguniform(rng, 0.003, 0.1)))
    if coolant_pool:
        pick_coolant(rng, P, tdep)
    ftf_o = 0.1175 - (0.0 if rng.random() < 0.7 else rng.uniform(0, 0.003))
    t = random_type(rng, ftf_o, nr=nr, n_duct=n_duct, tdep=tdep,
                    max_rings=max_rings, corr=corr, byp=byp,
                    type_kw=type_kw)
    lf = (rng.random() < 0.08) if lf is None else lf
    feats = {'lf': bool(lf), 'tdep': bool(tdep), 'gap': gap,
             'nr': t['num_rings'], 'n_duct': len(t['duct_ftf']) // 2,
             'corr': '/'.join([t.get('corr_mixing', 'CTD'),
                               t.get('corr_friction', 'CTD'),
                               t.get('corr_flowsplit', 'CTD')]),
             'byp': t.get('bypass_gap_flow_fraction')}
    if lf:
        t['use_low_fidelity_model'] = True
        t['convection_factor'] = choose(rng, ['calculate', 1.0, 0.5, 0.2])
        feats['lf_cf'] = t['convection_factor']
    P['types']['a'] = t
    regs = []
    if lf:
        # a low-fidelity assembly may have further axial regions below and
        # above its (homogenised) bundle section
        if regions is not False and rng.random() < 0.4:
            regs = add_axial_regions(rng, P, 'a')
    elif (regions if regions is not None else rng.random() < 0.35):
        regs = add_axial_regions(rng, P, 'a')
    feats['regions'] = [t['AxialRegion'][n]['model'] for n in regs] \
        if regs else []
    random_power(rng, P)
    v = vel if vel is not None else loguniform(rng, 0.01, 8.0)
    feats['vel'] = v
    dT = float(rng.uniform(5, 140))
    shape = choose(rng, ['rand', 'rand', 'flat', 'hotpin', 'zero'])
    comps = choose(rng, [[1, 2, 3], [1, 2, 3], [1], [1, 3], [2, 3], [1, 2]])
    if bc in ('outlet_temp', 'delta_temp') and shape == 'zero':
        shape = 'flat'      # these need power to derive the flow rate
    nc = len(P['power']['zb']) - 1
    spec = {'comps': comps,
            'axial': [float(x) for x in rng.uniform(0.2, 1.5, nc)]}
    if nc > 1 and rng.random() < 0.3:
        spec['zero_cells'] = [int(rng.integers(nc))]
    if nc > 1 and 1 in comps and len(comps) > 1 and rng.random() < 0.3:
        spec['zero_pin_cells'] = [int(rng.integers(nc))]
        if len(set(spec['zero_pin_cells'] + spec.get('zero_cells', []))) \
                >= nc:
            spec['zero_pin_cells'] = []    # keep one powered pin cell
    gen.add_position(P, 'a', 1, 1, velocity=v, dT=dT, shape=shape,
                     bc=(bc or 'flowrate'), **spec)
    feats['coolant'] = P['coolant']
    feats['shape'] = shape
    feats['comps'] = comps
    # options
    ca = (rng.random() < 0.3) if conv_approx is None else conv_approx
    if ca:
        P['setup']['conv_approx'] = True
        if rng.random() < 0.5:
            P['setup']['conv_approx_dz_cutoff'] = float(
                choose(rng, [0.001, 0.01, 0.1]))
    feats['conv_approx'] = bool(ca)
    if rng.random() < 0.3:
        P['setup']['param_update_tol'] = float(choose(rng, [1e-3, 0.01, 0.1]))
    feats['ptol'] = P['setup'].get('param_update_tol', 0.0)
    P['setup']['calc_energy_balance'] = True
    return P, feats


def cap_steps(P, r_or_none=None, max_steps=4000):
    return P


def core_problem(rng, n_ring=2, n_types=None, tdep=False, gap='flow',
                 empty_frac=0.0, max_rings=5, length=None, lf_frac=0.15,
                 regions_frac=0.2, dd_frac=0.3, vel_range=(0.05, 6.0),
                 coolant_pool=False, bc_kinds=('flowrate',),
                 own_power_mesh=0.0, shared_flow=0.0, conv_approx=0.0):
    """Multi-assembly core on n_ring hex rings with 1..3 assembly types."""
    L = length if length is not None else float(choose(rng, [0.5, 1.0]))
    P = gen.base_problem(length=L, asm_pitch=0.12, gap_model=gap,
                         coolant=(TDEP_NA if tdep else 'na_const'),
                         bypass_fraction=(0.0 if gap == 'none' else
                                          loguniform(rng, 0.003, 0.15)))
    if coolant_pool:
        pick_coolant(rng, P, tdep)
    n_types = n_types or int(rng.integers(1, 4))
    names = []
    feats = {'types': [], 'gap': gap, 'tdep': tdep, 'coolant': P['coolant']}
    for i in range(n_types):
        nm = 't%d' % i
        nd = 2 if rng.random() < dd_frac else 1
        t = random_type(rng, 0.1175, n_duct=nd, tdep=tdep,
                        max_rings=max_rings, allow_bare=False,
                        byp=(None if nd > 1 else None))
        if rng.random() < lf_frac:
            t['use_low_fidelity_model'] = True
            t['convection_factor'] = choose(rng, ['calculate', 1.0, 0.5])
        P['types'][nm] = t
        if rng.random() < regions_frac * (
                0.5 if t.get('use_low_fidelity_model') else 1.0):
            add_axial_regions(rng, P, nm)
        names.append(nm)
        feats['types'].append((t['num_rings'], nd,
                               bool(t.get('use_low_fidelity_model')),
                               sorted(t.get('AxialRegion', {}))))
    zb = random_power(rng, P, max_cells=3, max_order=2)
    npos = 3 * (n_ring - 1) * n_ring + 1
    filled = 0
    v_shared = loguniform(rng, *vel_range)
    for k0 in range(npos):
        if k0 > 0 and rng.random() < empty_frac:
            continue
        ring, pos = gen.ring_pos(k0)
        tn = choose(rng, names)
        v = loguniform(rng, *vel_range)
        if rng.random() < shared_flow:
            v = v_shared          # same type + same flow, different power
        extra = {}
        if own_power_mesh and len(zb) > 2 and rng.random() < own_power_mesh:
            # same number of axial power cells and height, other interior
            # boundaries (per-assembly power mesh)
            inner = np.unique(np.round(rng.uniform(0.1, 0.9, len(zb) - 2)
                                       * L, 3))
            if len(inner) == len(zb) - 2:
                extra['zb'] = [0.0] + [float(x) for x in inner] + [L]
        gen.add_position(P, tn, ring, pos, velocity=v,
                         dT=float(rng.uniform(10, 120)),
                         shape=choose(rng, ['rand', 'flat', 'hotpin']),
                         bc=choose(rng, list(bc_kinds)), **extra)
        filled += 1
    feats['n_asm'] = filled
    feats['n_pos'] = npos
    feats['conv_approx'] = False
    if conv_approx and rng.random() < conv_approx:
        P['setup']['conv_approx'] = True
        P['setup']['conv_approx_dz_cutoff'] = float(
            choose(rng, [0.001, 0.01, 0.1]))
        feats['conv_approx'] = True
    P['setup']['calc_energy_balance'] = True
    return P, feats


def own_power_meshes(rng, P, frac=0.5):
    """Give some assemblies their own axial power mesh: same number of
    cells and same height as the core-wide one, other interior bounds."""
    zb = P['power']['zb']
    L = P['length']
    n = 0
    if len(zb) <= 2:
        return 0
    for k, sp in P['power']['asm'].items():
        if rng.random() < frac:
            inner = np.unique(np.round(rng.uniform(0.1, 0.9, len(zb) - 2)
                                       * L, 3))
            if len(inner) == len(zb) - 2:
                sp['zb'] = [0.0] + [float(x) for x in inner] + [L]
                n += 1
        else:
            sp.pop('zb', None)
    return n


def add_pin_model(rng, P, tname, kind=None, gap=None, cap_flow=False):
    """Attach a FuelModel (metal fuel) or PinModel (user pin materials) to an
    assembly type so that pin temperatures are computed."""
    t = P['types'][tname]
    kind = kind or choose(rng, ['fuel', 'pin'])
    nz = int(rng.integers(1, 4))
    annular = rng.random() < 0.3
    r0 = float(rng.uniform(0.1, 0.3)) if annular else 0.0
    rf = [r0] + [float(x) for x in np.sort(rng.uniform(r0 + 0.1, 0.95,
                                                       nz - 1))]
    P['materials'].setdefault('clad_const', {'thermal_conductivity': [22.0]})
    if kind == 'fuel':
        t['FuelModel'] = {
            'gap_thickness': 0.0,
            'clad_material': 'clad_const',
            'r_frac': rf,
            'pu_frac': [float(rng.uniform(0.0, 0.3))] * nz,
            'zr_frac': [float(rng.uniform(0.05, 0.15))] * nz,
            'porosity': [float(rng.uniform(0.0, 0.3))] * nz}
    else:
        names = []
        for i in range(nz):
            nm = 'pinmat%d' % i
            P['materials'][nm] = {'thermal_conductivity':
                                  [float(rng.uniform(3.0, 30.0))]}
            names.append(nm)
        t['PinModel'] = {'clad_material': 'clad_const', 'r_frac': rf,
                         'pin_material': names}
    # fuel-clad gap (either model): clad inner surface and fuel surface
    # then differ
    if rng.random() < (0.4 if gap is None else gap):
        P['materials']['gap_he'] = {'thermal_conductivity': [0.3]}
        m = t['FuelModel' if kind == 'fuel' else 'PinModel']
        m['gap_material'] = 'gap_he'
        m['gap_thickness'] = float(rng.uniform(1e-5, 6e-5))
    # keep the mean linear pin power in a physical range (<= 30 kW/m): the
    # pin conduction iterations are capped at 10 sweeps
    cap = 3.0e4 * gen.n_pin(t['num_rings']) * P['length']
    for q in P['positions']:
        if q['type'] == tname:
            sp = P['power']['asm'][str(gen.pos_index0(q['ring'], q['pos']))]
            if sp['total'] > cap:
                f = cap / sp['total']
                sp['total'] = cap
                if 'flowrate' in q and cap_flow:
                    q['flowrate'] *= f
                    q['nominal_flowrate'] *= f
    return kind


def add_spacer_grid(rng, P, tname, dyadic=False, modes=('loss', 'REH', 'CDD')):
    """Spacer grids inside the pin bundle of a type: 1-4 positions (listed in
    any order), loss coefficient given or from a correlation."""
    t = P['types'][tname]
    regs = t.get('AxialRegion', {})
    lo = max([0.0] + [v['z_hi'] for k, v in regs.items()
                      if k.startswith('lo')])
    hi = min([P['length']] + [v['z_lo'] for k, v in regs.items()
                              if k.startswith('up')])
    n = int(rng.integers(1, 5))
    zs = set()
    tries = 0
    while len(zs) < n and tries < 50:
        tries += 1
        if dyadic:
            z = float(rng.integers(1, 128)) / 128.0 * P['length']
        else:
            z = float(np.round(rng.uniform(lo, hi), 4))
        if lo + 1e-6 < z < hi - 1e-6:
            zs.add(z)
    if not zs:
        return []
    order = sorted(zs)
    if len(order) > 1 and rng.random() < 0.5:
        order = [order[i] for i in rng.permutation(len(order))]
    sg = {'axial_positions': order}
    mode = choose(rng, list(modes))
    if mode == 'loss':
        sg['loss_coeff'] = float(rng.uniform(0.3, 3.0))
    else:
        sg['corr'] = mode
        sg['solidity'] = float(rng.uniform(0.1, 0.5))
    t['SpacerGrid'] = sg
    return sorted(zs)


def in_inches(P, snap=0.5, hostile=True):
    """The same problem written with lengths in inches, the way a user would
    write it: core height and axial-region bounds are multiples of `snap`
    inch (their SI values are whatever DASSH's own x*2.54/100 makes of
    them, which is not always the correctly rounded product). Returns None
    when snapping would merge two bounds."""
    from vmon.oracle import c17_units as U

    def si(x_in):
        return x_in * 2.54 / 100.0

    def g(x, inner=True):
        c0 = round(x / 0.0254 / snap) * snap
        if hostile and inner:
            # among the values close by, prefer one whose SI value is not
            # the 12-digit decimal the axial planes are rounded to
            # (below it first: a bound just under the plane that ends on it)
            near = [c0 + d * snap for d in (0, 1, -1, 2, -2, 3, -3, 4, -4)]
            for below in (True, False):
                for c in near:
                    r12 = float(np.around(si(c), 12))
                    if c > 0 and si(c) != r12 and (si(c) < r12) == below:
                        return c
        return c0

    P = copy.deepcopy(P)
    L_in = g(P['length'], inner=False)
    P['length'] = si(L_in)
    zbs = [P['power']['zb']] + [sp['zb'] for sp in P['power']['asm'].values()
                                if 'zb' in sp]
    for zb in zbs:
        zb[-1] = P['length']
        if len(zb) > 2 and not zb[-2] < zb[-1] - 1e-3:
            return None
    inch = {}
    for tn, t in P['types'].items():
        seen = set()
        for rn, r in t.get('AxialRegion', {}).items():
            lo = g(r['z_lo'], inner=r['z_lo'] > 0.0)
            hi = g(r['z_hi']) if r['z_hi'] < P['length'] - 0.02 else L_in
            if not lo < hi or lo in seen:
                return None
            seen.add(lo)
            inch[(tn, rn)] = (lo, hi)
            r['z_lo'], r['z_hi'] = si(lo), si(hi)
        names = sorted(t.get('AxialRegion', {}),
                       key=lambda n: inch[(tn, n)][0])
        for a, b in zip(names[:-1], names[1:]):
            if inch[(tn, a)][1] > inch[(tn, b)][0]:
                return None
        if names:
            # a pin bundle must remain between the lower and upper regions
            lo_top = max([inch[(tn, n)][1] for n in names
                          if n.startswith('lo')] + [0.0])
            up_bot = min([inch[(tn, n)][0] for n in names
                          if n.startswith('up')] + [L_in])
            if not lo_top < up_bot:
                return None
    Q = U.convert_problem(P, U.Units(length='in'))
    Q['length'] = L_in
    for (tn, rn), (lo, hi) in inch.items():
        Q['types'][tn]['AxialRegion'][rn]['z_lo'] = lo
        Q['types'][tn]['AxialRegion'][rn]['z_hi'] = hi
    return Q


def near_region_bounds(rng, P, models=('simple', '6node')):
    """Two axial boundaries closer together than an axial step, the lower
    one a region boundary: two pin-bundle types whose upper regions start a
    hair apart, or (one type only) a requested axial plane just above the
    start of its upper region. Returns the gap between the two (m)."""
    L = P['length']
    d = float(choose(rng, [1e-5, 1e-4, 1e-4, 5e-4]))
    z = float(np.round(rng.uniform(0.4, 0.8) * L, 3))
    names = [n for n, t in P['types'].items()
             if not t.get('use_low_fidelity_model')]
    used = {q['type'] for q in P['positions']}
    names = [n for n in names if n in used]
    if not names:
        return None
    for i, n in enumerate(names[:2]):
        t = P['types'][n]
        regs = {k: v for k, v in t.get('AxialRegion', {}).items()
                if k.startswith('lo') and v['z_hi'] < z - 0.02}
        regs['up0'] = _ur(rng, z + i * d, L, models)
        t['AxialRegion'] = regs
    if len(names) == 1:
        pl = list(P['setup'].get('axial_plane') or [])
        P['setup']['axial_plane'] = sorted(pl + [z + d])
    return d


def thin_top_region(rng, P, tname, models=('simple', '6node')):
    """A top axial region no thicker than an axial step (the last step of
    the sweep is its only one): the last upper region of the type (or its
    bundle) ends `d` below the core top and a further region fills the
    rest."""
    t = P['types'][tname]
    L = P['length']
    d = float(choose(rng, [0.001, 0.0025, 0.005, 0.01]))
    regs = t.setdefault('AxialRegion', {})
    ups = sorted((k for k in regs if k.startswith('up')),
                 key=lambda k: regs[k]['z_lo'])
    if ups:
        if regs[ups[-1]]['z_lo'] >= L - d - 0.01:
            return None
        regs[ups[-1]]['z_hi'] = L - d
    elif any(v['z_hi'] >= L - d - 0.01 for v in regs.values()):
        return None
    regs['up%d' % len(ups)] = _ur(rng, L - d, L, models)
    return d
