"""C19 oracle: hot-channel-factor tables and the semi-statistical horizontal
method, written from the method's definition (not from dassh/hotspot.py).

Method (semi-statistical, horizontal combination), for one pin location:

  nominal temperatures at the nominal peak:  T_in, T_0 (coolant at the pin),
  T_1 (clad OD), T_2 (clad MW), T_3 (clad ID), T_4 (fuel OD), T_5 (fuel CL)
  rises                 dT_j = T_j - T_(j-1)                 (T_(-1) = T_in)
  direct subfactors     applied as a product to every rise:
                        dT0_j = dT_j * prod_i fd_ij          ("0-sigma" rises)
  statistical subfactor i contributes to location l the uncertainty
                        u_il = sum_(j<=l) dT0_j (fs_ij - 1)  (horizontal sum)
  independent subfactors combine in quadrature (vertical root-sum-square) and
  are rescaled from the stated input level n_in to the output level n_out:
      T_l = T_in + sum_(j<=l) dT0_j + (n_out / n_in) sqrt(sum_i u_il^2)

Table columns are Coolant, Film, Cladding, Gap, Fuel; the cladding rise is
resolved in two halves (OD->MW, MW->ID) that both take the Cladding column.
A subfactor may be an expression in `dT`, the nominal rise of the component
its column applies to (for the two cladding halves: of each half).
"""
import io
import csv
import math

LOCS = ['coolant', 'clad_od', 'clad_mw', 'clad_id', 'fuel_od', 'fuel_cl']
# table column (0 Coolant, 1 Film, 2 Cladding, 3 Gap, 4 Fuel) of every rise
COLMAP = {'coolant': [0],
          'clad_od': [0, 1],
          'clad_mw': [0, 1, 2],
          'clad_id': [0, 1, 2, 2],
          'fuel_od': [0, 1, 2, 2, 3],
          'fuel_cl': [0, 1, 2, 2, 3, 4]}
HEADER = ['Subfactor', 'Type', 'Coolant', 'Film', 'Cladding', 'Gap', 'Fuel']
# index of a location's own temperature in the radial profile
# (coolant, clad_od, clad_mw, clad_id, fuel_od, fuel_cl)
PROFILE_IDX = {k: i for i, k in enumerate(LOCS)}


# ----------------------------------------------------------------------
# expression templates: text as written to the CSV and the same function
# written out in Python (so the oracle never evaluates the CSV text)

def _t_inv(a):
    return ('1 + %r / dT' % a,
            lambda dT: 1.0 + a / dT)


def _t_sqrt(a, b, c):
    return ('1 + (3 / dT) * np.sqrt(%r * dT**2 - %r * dT + %r)' % (a, b, c),
            lambda dT: 1.0 + (3.0 / dT) * math.sqrt(a * dT * dT - b * dT + c))


def _t_exp(a, b):
    return ('1 + %r * np.exp(-dT / %r)' % (a, b),
            lambda dT: 1.0 + a * math.exp(-dT / b))


def _t_sat(a, b):
    return ('1 + %r * dT / (dT + %r)' % (a, b),
            lambda dT: 1.0 + a * dT / (dT + b))


def _t_root(a):
    return ('np.sqrt(1 + %r * dT)' % a,
            lambda dT: math.sqrt(1.0 + a * dT))


def random_expr(rng, bounded=False):
    """Spec of an expression that is >= 1 for dT > 0; `bounded` excludes the
    forms that grow like 1/dT for small rises (as in the built-in tables these
    are only used for statistical subfactors, where dT (f - 1) stays finite;
    as direct factors their product over rows is unbounded)."""
    k = int(rng.integers(2, 5)) if bounded else int(rng.integers(5))
    r = lambda lo, hi: float(round(rng.uniform(lo, hi), 4))  # noqa: E731
    if k == 0:
        spec = ['inv', r(0.5, 8.0)]
    elif k == 1:
        a, c = r(0.001, 0.004), r(60.0, 150.0)
        b = r(0.0, 0.9) * 2.0 * math.sqrt(a * c)      # b^2 < 4ac
        spec = ['sqrt', a, float(round(b, 4)), c]
    elif k == 2:
        spec = ['exp', r(0.01, 0.3), r(20.0, 200.0)]
    elif k == 3:
        spec = ['sat', r(0.01, 0.3), r(5.0, 100.0)]
    else:
        spec = ['root', r(0.0001, 0.003)]
    return spec


def expr_from_spec(spec):
    f = {'inv': _t_inv, 'sqrt': _t_sqrt, 'exp': _t_exp, 'sat': _t_sat,
         'root': _t_root}[spec[0]]
    return f(*spec[1:])


# ----------------------------------------------------------------------
# table model: {'ncol': 1..5 value columns, 'rows': [[name, type, [entry]]]}
# entry: float | ['inv', a] ... (expression spec) | {'text': str} (raw text
# taken from a file, evaluated by eval_text)


def random_table(rng, ncol, n_direct=None, n_stat=None, p_expr=0.0,
                 expr_cols=None, unity=False, lo=1.0, lower_case=False):
    """Random table with `ncol` value columns; factors >= lo."""
    n_direct = int(rng.integers(1, 7)) if n_direct is None else n_direct
    n_stat = int(rng.integers(1, 13)) if n_stat is None else n_stat
    rows = []
    for typ, n in (('Direct', n_direct), ('Statistical', n_stat)):
        for i in range(n):
            ent = []
            for c in range(ncol):
                if unity:
                    ent.append(1.0)
                elif expr_cols and c in expr_cols and rng.random() < p_expr:
                    ent.append(random_expr(rng, bounded=(typ == 'Direct')))
                elif rng.random() < 0.45:
                    ent.append(1.0)
                else:
                    if typ == 'Direct':
                        v = lo + (0.15 if rng.random() < 0.8 else 1.5) \
                            * rng.random()
                    else:
                        v = lo + 0.3 * rng.random()
                    ent.append(float(round(v, 4)))
            t = typ.lower() if lower_case else typ
            rows.append(['%s factor %d' % ('bias' if typ == 'Direct'
                                           else 'spread', i), t, ent])
    # shuffle so the two types are interleaved in the file
    order = rng.permutation(len(rows))
    return {'ncol': ncol, 'rows': [rows[int(i)] for i in order]}


def unity_table(ncol=5, n_direct=2, n_stat=3):
    rows = [['bias factor %d' % i, 'Direct', [1.0] * ncol]
            for i in range(n_direct)]
    rows += [['spread factor %d' % i, 'Statistical', [1.0] * ncol]
             for i in range(n_stat)]
    return {'ncol': ncol, 'rows': rows}


def _entry_text(e):
    if isinstance(e, dict):
        return e['text']
    if isinstance(e, (list, tuple)):
        return expr_from_spec(e)[0]
    return repr(float(e))


def render_csv(tab, bom=False):
    lines = [','.join(HEADER[:2 + tab['ncol']])]
    for name, typ, ent in tab['rows']:
        lines.append(','.join([name, typ] + [_entry_text(e) for e in ent]))
    return ('\ufeff' if bom else '') + '\n'.join(lines) + '\n'


def parse_csv(text):
    """Independent reader of a subfactor CSV (for the built-in tables)."""
    if text.startswith('\ufeff'):
        text = text[1:]
    rd = list(csv.reader(io.StringIO(text)))
    hdr = rd[0]
    if hdr != HEADER[:len(hdr)] or len(hdr) < 3:
        raise ValueError('unexpected header %r' % (hdr,))
    ncol = len(hdr) - 2
    rows = []
    for ln in rd[1:]:
        if not ln:
            continue
        ent = []
        for x in ln[2:2 + ncol]:
            try:
                ent.append(float(x))
            except ValueError:
                ent.append({'text': x})
        rows.append([ln[0], ln[1], ent])
    return {'ncol': ncol, 'rows': rows}


def eval_text(text, dT):
    import numpy as np
    return float(eval(text, {'np': np, '__builtins__': {}},
                      {'dT': float(dT)}))


def has_expr(tab, cols=None):
    for _, _, ent in tab['rows']:
        for c, e in enumerate(ent):
            if not isinstance(e, float) and (cols is None or c in cols):
                return True
    return False


def factor(e, dT):
    """Value of one table entry for the nominal rise dT (may be non-finite
    when an expression divides by a zero rise)."""
    if isinstance(e, float):
        return e
    try:
        if isinstance(e, dict):
            return eval_text(e['text'], dT)
        return float(expr_from_spec(e)[1](dT))
    except (ZeroDivisionError, OverflowError, ValueError):
        return float('nan')


def factors_for(tab, loc, rises):
    """(direct rows, statistical rows) laid out on the rises of `loc`."""
    cm = COLMAP[loc]
    if max(cm) >= tab['ncol']:
        raise ValueError('table has too few columns for %s' % loc)
    d, s = [], []
    for _, typ, ent in tab['rows']:
        row = [factor(ent[c], rises[j]) for j, c in enumerate(cm)]
        (d if typ.lower() == 'direct' else s).append(row)
    return d, s


def horizontal(T_in, rises, direct, stat, n_in, n_out):
    """Hot-spot temperature at every location up to the requested one and
    the 0-sigma rises; plain floats, compensated sums."""
    m = len(rises)
    r0 = []
    for j in range(m):
        p = 1.0
        for row in direct:
            p *= row[j]
        r0.append(rises[j] * p)
    out, stat_part = [], []
    for l in range(m):
        base = T_in + math.fsum(r0[:l + 1])
        ss = math.fsum(math.fsum(r0[j] * (row[j] - 1.0)
                                 for j in range(l + 1)) ** 2 for row in stat)
        u = math.sqrt(ss)
        stat_part.append(u)
        out.append(base + (float(n_out) * u / float(n_in) if n_out else 0.0))
    return out, r0, stat_part


def rises_from_profile(T_in, prof, loc):
    """prof = (coolant, clad_od, clad_mw, clad_id, fuel_od, fuel_cl) at the
    nominal peak of `loc`; rises from the inlet up to `loc`."""
    n = PROFILE_IDX[loc] + 1
    t = [float(T_in)] + [float(x) for x in prof[:n]]
    return [t[i + 1] - t[i] for i in range(n)]
