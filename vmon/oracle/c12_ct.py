"""C12 oracle helpers: hexagonal wire-wrapped bundle geometry and the
Cheng-Todreas (1986) / Chen-Todreas-Nguyen (2018, "upgraded") subchannel
friction model, written from the papers' formulas.

Nothing here imports dassh. Index convention: 0 interior, 1 edge, 2 corner.

References
  [CT86] S.K. Cheng, N.E. Todreas, Nucl. Eng. Des. 92 (1986) 227-251:
         Table 1 (geometry), Table 4 (bare-rod constants), eqs. 9-11
         (transition/intermittency), eqs. 15-20 (wire drag / sweeping),
         eqs. 27, 30 (flow split: equal pressure drop + continuity).
  [CTN18] S.K. Chen, Y.M. Chen, N.E. Todreas, Nucl. Eng. Des. 335 (2018):
         upgraded wire constants, Re_bL = 320*10^(P/D-1), lambda = 7.
"""
import math
import numpy as np

SQ3 = math.sqrt(3.0)
M = {'laminar': 1.0, 'turbulent': 0.18}
GAMMA = 1.0 / 3.0
LAMBDA_UCTD = 7.0

# [CT86] Table 4: C'_f = a + b1 (X - 1) + b2 (X - 1)^2, X = P/D (interior)
# or W/D (edge, corner); first block 1.0 <= X <= 1.1, second 1.1 < X <= 1.5
_T4 = {
    'laminar': (((26.00, 888.2, -3334.0),
                 (26.18, 554.5, -1480.0),
                 (26.98, 1636.0, -10050.0)),
                ((62.97, 216.9, -190.2),
                 (44.40, 256.7, -267.6),
                 (87.26, 38.59, -55.12))),
    'turbulent': (((0.09378, 1.398, -8.664),
                   (0.09377, 0.8732, -3.341),
                   (0.1004, 1.625, -11.85)),
                  ((0.1458, 0.03632, -0.03333),
                   (0.1430, 0.04199, -0.04428),
                   (0.1499, 0.006706, -0.009567))),
}


def n_subchannels(nr):
    return np.array([6 * (nr - 1) ** 2, 6 * (nr - 1), 6], dtype=float)


def geometry(nr, P, D, H, Dw, ftf_in):
    """Subchannel and bundle flow geometry ([CT86] Table 1)."""
    W = 0.5 * (ftf_in - SQ3 * (nr - 1) * P) + 0.5 * D   # edge pitch
    g = W - 0.5 * D                                      # pin centre - wall
    if Dw > 0.0:
        cos_t = H / math.sqrt(H * H + (math.pi * (D + Dw)) ** 2)
    else:
        cos_t = 1.0
    a_bare = np.array([SQ3 / 4 * P * P - math.pi * D * D / 8,
                       P * g - math.pi * D * D / 8,
                       g * g / SQ3 - math.pi * D * D / 24])
    wp_bare = np.array([math.pi * D / 2,
                        P + math.pi * D / 2,
                        math.pi * D / 6 + 2 * g / SQ3])
    share = np.array([1 / 8.0, 1 / 8.0, 1 / 24.0])   # wire share per cell
    area = a_bare - share * math.pi * Dw * Dw / cos_t
    wp = wp_bare + 4 * share * math.pi * Dw / cos_t
    de = 4 * area / wp
    n = n_subchannels(nr)
    A_b = float(np.sum(n * area))
    Pw_b = float(np.sum(n * wp))
    a_proj = math.pi * (D + Dw) * Dw * np.array([1 / 6.0, 1 / 4.0, 1 / 6.0])
    return {'n': n, 'W': W, 'cos_t': cos_t,
            'tan_t': math.sqrt(max(1.0 - cos_t ** 2, 0.0)) / cos_t,
            'area': area, 'wp': wp, 'de': de, 'a_bare': a_bare,
            'wp_bare': wp_bare, 'a_proj': a_proj,
            'A_b': A_b, 'Pw_b': Pw_b, 'De_b': 4 * A_b / Pw_b,
            's': n * area / A_b,
            'P': P, 'D': D, 'H': H, 'Dw': Dw, 'nr': nr}


def re_bounds(family, pd):
    """(laminar->transition, transition->turbulent) bundle Reynolds numbers."""
    re_t = 1e4 * 10 ** (0.7 * (pd - 1.0))
    if family == 'CTD':
        re_l = 300.0 * 10 ** (1.7 * (pd - 1.0))
    elif family == 'UCTD':
        re_l = 320.0 * 10 ** (pd - 1.0)
    else:
        raise ValueError(family)
    return re_l, re_t


def regime(re, bounds):
    if re <= bounds[0]:
        return 'laminar'
    if re >= bounds[1]:
        return 'turbulent'
    return 'transition'


def _bare_const(reg, X, row):
    blk = 0 if X <= 1.1 else 1
    a, b1, b2 = _T4[reg][blk][row]
    return a + b1 * (X - 1.0) + b2 * (X - 1.0) ** 2


def wire_constants(family, dw_d, h_d):
    """Wire drag (Wd) and wire sweeping (Ws) constants."""
    if dw_d == 0.0:
        return {'laminar': 0.0, 'turbulent': 0.0}, \
            {'laminar': 0.0, 'turbulent': 0.0}
    if family == 'CTD':
        wd_t = (29.5 - 140.0 * dw_d + 401.0 * dw_d ** 2) / h_d ** 0.85
        ws_t = 20.0 * math.log10(h_d) - 7.0
        ws_l = 0.3 * ws_t
    else:
        wd_t = (19.56 - 98.71 * dw_d + 303.47 * dw_d ** 2) / h_d ** 0.541
        ws_t = -11.0 * math.log10(h_d) + 19.0
        ws_l = ws_t
    return ({'laminar': 1.4 * wd_t, 'turbulent': wd_t},
            {'laminar': ws_l, 'turbulent': ws_t})


def subchannel_constants(family, G):
    """C_fi for the three subchannel types, laminar and turbulent."""
    P, D, H, Dw = G['P'], G['D'], G['H'], G['Dw']
    out = {}
    wd, ws = wire_constants(family, Dw / D, (H / D) if Dw > 0 else 0.0)
    for r in ('laminar', 'turbulent'):
        m = M[r]
        cb = np.array([_bare_const(r, P / D, 0),
                       _bare_const(r, G['W'] / D, 1),
                       _bare_const(r, G['W'] / D, 2)])
        if Dw == 0.0:
            out[r] = cb
            continue
        c = np.zeros(3)
        c[0] = (cb[0] * G['wp_bare'][0] / G['wp'][0]
                + wd[r] * (3 * G['a_proj'][0] / G['a_bare'][0])
                * (G['de'][0] / H) * (G['de'][0] / Dw) ** m)
        for i in (1, 2):
            c[i] = cb[i] * (1.0 + ws[r] * (G['a_proj'][i] / G['a_bare'][i])
                            * G['tan_t'] ** 2) ** ((3.0 - m) / 2.0)
        out[r] = c
    return out


def constant_split(G, cf, r):
    """Flow split of a pure regime: f_i = C_fi / Re_i^m, equal gradient
    C_fi x_i^(2-m) / De_i^(1+m) for all i, sum_i s_i x_i = 1."""
    m = M[r]
    w = (G['de'] ** (1.0 + m) / cf[r]) ** (1.0 / (2.0 - m))
    return w / float(np.sum(G['s'] * w))


def subchannel_ff(family, G, cf, bounds, re_b, x, xl=None, xt=None):
    """Darcy friction factor of each subchannel type at bundle Reynolds
    number re_b and split x ([CT86] eqs. 9-11 per subchannel; [CTN18] eq. 4
    for the upgraded transition blend). Returns f_i, Re_i, psi_i.
    xl, xt: laminar/turbulent splits that define the subchannel regime
    boundaries (default: the ones that follow from cf)."""
    x = np.asarray(x, dtype=float)
    re_i = re_b * x * G['de'] / G['De_b']
    if xl is None:
        xl = constant_split(G, cf, 'laminar')
    if xt is None:
        xt = constant_split(G, cf, 'turbulent')
    re_il = bounds[0] * xl * G['de'] / G['De_b']
    re_it = bounds[1] * xt * G['de'] / G['De_b']
    psi = np.log10(re_i / re_il) / np.log10(re_it / re_il)
    psi = np.clip(psi, 0.0, 1.0)
    fl = cf['laminar'] / re_i
    ft = cf['turbulent'] / re_i ** M['turbulent']
    f = fl * (1.0 - psi) ** GAMMA
    if family == 'UCTD':
        f = f * (1.0 - psi ** LAMBDA_UCTD)
    f = f + ft * psi ** GAMMA
    return f, re_i, psi


def gradients(family, G, cf, bounds, re_b, x, grid_k_total=0.0, length=1.0,
              xl=None, xt=None):
    """Pressure gradient of each subchannel type divided by rho*v_b^2/2:
    (f_i / De_i + K_total / L) x_i^2."""
    f, re_i, psi = subchannel_ff(family, G, cf, bounds, re_b, x, xl, xt)
    x = np.asarray(x, dtype=float)
    return (f / G['de'] + grid_k_total / length) * x * x, f, psi


def bundle_gradient(f_b, G, grid_k_total=0.0, length=1.0):
    return f_b / G['De_b'] + grid_k_total / length


def solve_split(family, G, cf, bounds, re_b, x0, grid_k_total=0.0, length=1.0,
                xl=None, xt=None, tol=1e-12, itmax=600):
    """Equal-gradient split (sum s_i x_i = 1) by damped successive
    approximation started from x0; damping is halved whenever the step grows.
    Returns (x, converged)."""
    x = np.array(x0, dtype=float)
    w = 0.5
    last = float('inf')
    for _ in range(itmax):
        f, _, _ = subchannel_ff(family, G, cf, bounds, re_b, x, xl, xt)
        t = f * length / G['de'] + grid_k_total
        r = np.sqrt(t[1] / t)
        xn = r / float(np.sum(G['s'] * r))
        step = float(np.max(np.abs(xn - x)))
        if not np.isfinite(step):
            return x, False
        if step < tol:
            return xn, True
        if step > last and w > 0.02:
            w *= 0.5
        last = step
        x = (1.0 - w) * x + w * xn
    return x, False


def successive_approx(family, G, cf, bounds, re_b, grid_k_total=0.0,
                      length=1.0, xl=None, xt=None, stop=1e-5, itmax=100,
                      test='edge'):
    """Undamped successive approximation from x = (1, 1, 1) that stops when
    the edge split (test='edge') or every split (test='all') moves by less
    than `stop`. Only used to *name* a mechanism in a violation key (a split
    that this scheme reproduces exactly was stopped by the edge-only test).
    Returns x or None when the iteration limit is reached."""
    x = np.ones(3)
    for _ in range(itmax):
        f, _, _ = subchannel_ff(family, G, cf, bounds, re_b, x, xl, xt)
        t = f * length / G['de'] + grid_k_total
        r = np.sqrt(t[1] / t)
        xn = r / float(np.sum(G['s'] * r))
        d = np.abs(xn - x)
        if (d[1] if test == 'edge' else float(np.max(d))) < stop:
            return xn
        x = xn
    return None


def approx_split(G, cf, bounds, re_b, beta=5.0):
    """Closed-form transition approximation of Cheng's 1984 thesis (eq. 4.51)
    with the weighting beta; only used to *name* a mechanism (whether a split
    that came out of this approximation was built from given constants)."""
    mt = M['turbulent']
    a = cf['laminar'] * G['De_b'] / G['de'] ** 2
    b = cf['turbulent'] * G['De_b'] ** mt / G['de'] ** (mt + 1.0)
    psi = float((np.log10(re_b) - np.log10(bounds[0]))
                / (np.log10(bounds[1]) - np.log10(bounds[0])))
    if not -1e-9 <= psi <= 1.0 + 1e-9:
        return None
    psi = min(max(psi, 0.0), 1.0)
    xr = a * (1.0 - psi) ** GAMMA / re_b \
        + beta * (b * psi ** GAMMA / re_b ** mt) ** (1.0 / (2.0 - mt))
    r = xr[1] / xr
    return r / float(np.sum(G['s'] * r))
