"""C17 oracle: the unit algebra and the table of dimensional input keys.

Written from the input schema (dassh/input_template.txt) and the meaning of
each key, NOT from read_input.convert_units: every leaf key of the schema is
classified here as

    'L'   length                       (m)
    'T'   absolute temperature         (K)
    'dT'  temperature difference       (K)
    'F'   mass flow rate               (kg/s)
    '-'   dimensionless / text / not governed by [Setup][Units]

Unit definitions are the exact international ones (1 in = 0.0254 m,
1 ft = 0.3048 m, 1 lb = 0.45359237 kg, t_F = 9/5 t_C + 32, t_C = T - 273.15).
"""
import copy
import re

LENGTH = {'m': 1.0, 'cm': 0.01, 'mm': 0.001, 'in': 0.0254, 'ft': 0.3048}
MASS = {'kg': 1.0, 'lb': 0.45359237}
TIME = {'s': 1.0, 'min': 60.0, 'hr': 3600.0}
TEMPS = ('K', 'C', 'F')

# spellings a user may write for each unit (DASSH documents these lists;
# the parser lower-cases the entry, so mixed case must be accepted too)
LENGTH_SPELL = {'m': ['m', 'meter', 'meters'],
                'cm': ['cm', 'centimeter', 'centimeters'],
                'mm': ['mm', 'millimeter', 'millimeters'],
                'in': ['in', 'inch', 'inches'],
                'ft': ['ft', 'foot', 'feet']}
TEMP_SPELL = {'K': ['k', 'degk', 'kelvin'],
              'C': ['c', 'degc', 'celsius'],
              'F': ['f', 'degf', 'fahrenheit']}
MASS_SPELL = {'kg': ['kg', 'kgs', 'kilogram', 'kilograms'],
              'lb': ['lb', 'lbs', 'pound', 'pounds']}
TIME_SPELL = {'s': ['s', 'sec', 'secs', 'second', 'seconds'],
              'min': ['m', 'min', 'mins', 'minute', 'minutes'],
              'hr': ['h', 'hr', 'hrs', 'hour', 'hours']}
# normalised names DASSH keeps in data['Setup']['Units'] after parsing
TEMP_NORMAL = {'K': 'kelvin', 'C': 'celsius', 'F': 'fahrenheit'}


def temp_from_K(u, k):
    if u == 'K':
        return k
    if u == 'C':
        return k - 273.15
    return (k - 273.15) * 9.0 / 5.0 + 32.0


def temp_to_K(u, t):
    if u == 'K':
        return t
    if u == 'C':
        return t + 273.15
    return (t - 32.0) * 5.0 / 9.0 + 273.15


def dtemp_from_K(u, d):
    return d * 9.0 / 5.0 if u == 'F' else d


def dtemp_to_K(u, d):
    return d * 5.0 / 9.0 if u == 'F' else d


class Units(object):
    """One unit system: length, temperature, mass, time (canonical names)."""

    def __init__(self, length='m', temp='K', mass='kg', time='s',
                 lb=None, spell=None):
        self.length, self.temp, self.mass, self.time = length, temp, mass, time
        # the pound in force (the check measures DASSH's own 6-digit pound
        # and bounds it against the exact one separately)
        self.lb = MASS['lb'] if lb is None else lb
        self.spell = spell or {}

    # SI -> user. Centimetres and millimetres are written the way a user
    # would (0.35 m -> 35.0 cm, not 35.00000000000001): multiply by the
    # exact integer factor; inches and feet have no exact decimal form.
    def L(self, x):
        if self.length == 'cm':
            return x * 100.0
        if self.length == 'mm':
            return x * 1000.0
        return x / LENGTH[self.length]

    def T(self, k):
        return temp_from_K(self.temp, k)

    def dT(self, d):
        return dtemp_from_K(self.temp, d)

    def F(self, f):
        m = 1.0 if self.mass == 'kg' else self.lb
        return f / m * TIME[self.time]

    # user -> SI (used to diagnose "converted twice")
    def L_si(self, x):
        return x * LENGTH[self.length]

    def T_si(self, t):
        return temp_to_K(self.temp, t)

    def F_si(self, f):
        m = 1.0 if self.mass == 'kg' else self.lb
        return f * m / TIME[self.time]

    def conv(self, kind, x):
        return {'L': self.L, 'T': self.T, 'dT': self.dT, 'F': self.F}[kind](x)

    def is_si(self, kind):
        if kind == 'L':
            return self.length == 'm'
        if kind in ('T', 'dT'):
            return self.temp == 'K'
        return self.mass == 'kg' and self.time == 's'

    @property
    def flow_name(self):
        return '%s/%s' % (self.mass, self.time)

    @property
    def name(self):
        return '%s,%s,%s' % (self.length, self.temp, self.flow_name)

    def block(self):
        """The [[Units]] sub-block as the user writes it."""
        s = self.spell
        sep = s.get('sep', '/')
        return {'temperature': s.get('temp', TEMP_NORMAL[self.temp]),
                'length': s.get('length', self.length),
                'mass_flow_rate': '%s%s%s' % (s.get('mass', self.mass), sep,
                                              s.get('time', self.time))}

    def as_json(self):
        return {'length': self.length, 'temp': self.temp, 'mass': self.mass,
                'time': self.time, 'spell': self.spell}


def all_combos():
    out = []
    for l in LENGTH:
        for t in TEMPS:
            for m in MASS:
                for s in TIME:
                    out.append((l, t, m, s))
    return out


# ----------------------------------------------------------------------
# classification of the schema: (path pattern, kind). '*' = any name.
# Paths are those of the input template, 'Assignment.<kw>' is the free-form
# boundary-condition keyword of [Assignment].

SCHEMA = {
    'Setup.axial_mesh_size': 'L',
    'Setup.axial_plane': 'L',
    'Setup.log_progress': '-',
    'Setup.conv_approx_dz_cutoff': 'L',
    'Setup.conv_approx': '-',
    'Setup.calc_energy_balance': '-',
    'Setup.se2geo': '-',
    'Setup.debug': '-',
    'Setup.param_update_tol': '-',
    'Setup.parallel': '-',
    'Setup.n_cpu': '-',
    'Setup.include_gravity_head_loss': '-',
    'Setup.Dump.all': '-', 'Setup.Dump.coolant': '-', 'Setup.Dump.duct': '-',
    'Setup.Dump.pins': '-', 'Setup.Dump.gap': '-', 'Setup.Dump.gap_fine': '-',
    'Setup.Dump.average': '-', 'Setup.Dump.maximum': '-',
    'Setup.Dump.pressure_drop': '-',
    'Setup.Dump.interval': 'L',
    'Setup.Units.temperature': '-', 'Setup.Units.length': '-',
    'Setup.Units.mass_flow_rate': '-',
    'Setup.AssemblyTables.*.type': '-',
    'Setup.AssemblyTables.*.assemblies': '-',
    'Setup.AssemblyTables.*.axial_positions': 'L',
    # material correlations are polynomials in kelvin giving SI properties;
    # [Setup][Units] does not govern them
    'Materials.*.thermal_conductivity': '-', 'Materials.*.heat_capacity': '-',
    'Materials.*.density': '-', 'Materials.*.viscosity': '-',
    'Materials.*.beta': '-', 'Materials.*.from_file': '-',
    'Power.user_power': '-', 'Power.total_power': '-',
    'Power.power_scaling_factor': '-',
    'Power.ARC.coolant_heating': '-', 'Power.ARC.fuel_material': '-',
    'Power.ARC.fuel_alloy': '-', 'Power.ARC.power_model': '-',
    'Power.ARC.pmatrx': '-', 'Power.ARC.geodst': '-', 'Power.ARC.ndxsrf': '-',
    'Power.ARC.znatdn': '-', 'Power.ARC.labels': '-', 'Power.ARC.nhflux': '-',
    'Power.ARC.ghflux': '-',
    'Core.coolant_inlet_temp': 'T',
    'Core.coolant_material': '-',
    'Core.length': 'L',
    'Core.bypass_fraction': '-',
    'Core.assembly_pitch': 'L',
    'Core.gap_model': '-',
    'Core.htc_params_duct': '-',
    'Assembly.*.num_rings': '-',
    'Assembly.*.pin_pitch': 'L',
    'Assembly.*.pin_diameter': 'L',
    'Assembly.*.wire_pitch': 'L',
    'Assembly.*.wire_diameter': 'L',
    'Assembly.*.wire_direction': '-',
    'Assembly.*.duct_ftf': 'L',
    'Assembly.*.duct_material': '-',
    'Assembly.*.clad_thickness': 'L',
    'Assembly.*.corr_mixing': '-', 'Assembly.*.corr_friction': '-',
    'Assembly.*.corr_flowsplit': '-', 'Assembly.*.corr_shapefactor': '-',
    'Assembly.*.corr_nusselt': '-', 'Assembly.*.dummy_pin': '-',
    'Assembly.*.htc_params_duct': '-',
    'Assembly.*.bypass_gap_flow_fraction': '-',
    'Assembly.*.bypass_gap_loss_coeff': '-',
    'Assembly.*.shape_factor': '-',
    'Assembly.*.use_low_fidelity_model': '-',
    'Assembly.*.low_fidelity_model': '-',
    'Assembly.*.convection_factor': '-',
    'Assembly.*.AxialRegion.*.model': '-',
    'Assembly.*.AxialRegion.*.z_lo': 'L',
    'Assembly.*.AxialRegion.*.z_hi': 'L',
    'Assembly.*.AxialRegion.*.vf_coolant': '-',
    'Assembly.*.AxialRegion.*.structure_material': '-',
    'Assembly.*.AxialRegion.*.hydraulic_diameter': 'L',
    'Assembly.*.AxialRegion.*.epsilon': 'L',       # surface roughness
    'Assembly.*.AxialRegion.*.magic_knob': '-',
    'Assembly.*.AxialRegion.*.htc_params': '-',
    'Assembly.*.AxialRegion.*.convection_factor': '-',
    'Assembly.*.SpacerGrid.corr': '-',
    'Assembly.*.SpacerGrid.corr_coeff': '-',
    'Assembly.*.SpacerGrid.loss_coeff': '-',
    'Assembly.*.SpacerGrid.axial_positions': 'L',
    'Assembly.*.SpacerGrid.solidity': '-',
    'Assembly.*.FuelModel.fcgap_thickness': 'L',
    'Assembly.*.FuelModel.gap_thickness': 'L',
    'Assembly.*.FuelModel.clad_material': '-',
    'Assembly.*.FuelModel.gap_material': '-',
    'Assembly.*.FuelModel.htc_params_clad': '-',
    'Assembly.*.FuelModel.r_frac': '-', 'Assembly.*.FuelModel.pu_frac': '-',
    'Assembly.*.FuelModel.zr_frac': '-', 'Assembly.*.FuelModel.porosity': '-',
    'Assembly.*.PinModel.fcgap_thickness': 'L',
    'Assembly.*.PinModel.gap_material': '-',
    'Assembly.*.PinModel.gap_thickness': 'L',
    'Assembly.*.PinModel.clad_material': '-',
    'Assembly.*.PinModel.htc_params_clad': '-',
    'Assembly.*.PinModel.pin_material': '-',
    'Assembly.*.PinModel.r_frac': '-',
    'Assembly.*.Hotspot.*.temperature': '-',
    'Assembly.*.Hotspot.*.input_sigma': '-',
    'Assembly.*.Hotspot.*.output_sigma': '-',
    'Assembly.*.Hotspot.*.subfactors': '-',
    'Orificing.assemblies_to_group': '-', 'Orificing.n_groups': '-',
    'Orificing.group_cutoff': '-', 'Orificing.group_cutoff_delta': '-',
    'Orificing.value_to_optimize': '-',
    'Orificing.bulk_coolant_temp': 'T',
    'Orificing.iteration_limit': '-', 'Orificing.convergence_tol': '-',
    'Orificing.regroup': '-', 'Orificing.regroup_option_tol': '-',
    'Orificing.regroup_improvement_tol': '-',
    # a pressure: [Setup][Units] has no pressure unit
    'Orificing.pressure_drop_limit': '-',
    'Orificing.recycle_results': '-',
    'Assignment.flowrate': 'F',
    'Assignment.outlet_temp': 'T',
    'Assignment.delta_temp': 'dT',
    'Assignment.group': '-',
}


def template_leaf_paths(path):
    """Leaf key paths of a ConfigObj configspec file ('__many__' -> '*')."""
    out = []
    stack = []
    with open(path) as f:
        for raw in f:
            ln = raw.strip()
            if not ln or ln.startswith('#'):
                continue
            m = re.match(r'^(\[+)\s*([^\]]+?)\s*(\]+)$', ln)
            if m:
                depth = len(m.group(1))
                name = m.group(2)
                name = '*' if name == '__many__' else name
                stack = stack[:depth - 1] + [name]
                continue
            if '=' in ln:
                key = ln.split('=')[0].strip()
                out.append('.'.join(stack + [key]))
    return out


def unclassified(template_path):
    return [p for p in template_leaf_paths(template_path)
            if p not in SCHEMA and not p.startswith('Plot')]


# ----------------------------------------------------------------------
# Problem (vmon.gen layout, SI) -> same Problem written in another unit
# system, plus the list of dimensional items with their SI values.

ASM_L = ['pin_pitch', 'pin_diameter', 'wire_pitch', 'wire_diameter',
         'clad_thickness']
REG_L = ['z_lo', 'z_hi', 'hydraulic_diameter', 'epsilon']
SETUP_L = ['axial_mesh_size', 'conv_approx_dz_cutoff']


def dimensional_items(P):
    """[(canonical key, kind, getter path, SI value)] for every dimensional
    entry present in the SI problem P. The 'where' tuple addresses the value
    in the *parsed* DASSH data (see locate())."""
    it = []
    st = P.get('setup', {})
    for k in SETUP_L:
        if st.get(k) is not None:
            it.append(('Setup.' + k, 'L', ('Setup', k), st[k]))
    if st.get('axial_plane') is not None:
        it.append(('Setup.axial_plane', 'L*', ('Setup', 'axial_plane'),
                   list(st['axial_plane'])))
    sub = P.get('setup_sub', {})
    if sub.get('Dump', {}).get('interval') is not None:
        it.append(('Setup.Dump.interval', 'L', ('Setup', 'Dump', 'interval'),
                   sub['Dump']['interval']))
    for nm, t in sub.get('AssemblyTables', {}).items():
        if t.get('axial_positions') is not None:
            it.append(('Setup.AssemblyTables.axial_positions', 'L[]',
                       ('Setup', 'AssemblyTables', nm, 'axial_positions'),
                       list(t['axial_positions'])))
    it.append(('Core.coolant_inlet_temp', 'T',
               ('Core', 'coolant_inlet_temp'), P['inlet']))
    it.append(('Core.length', 'L', ('Core', 'length'), P['length']))
    it.append(('Core.assembly_pitch', 'L', ('Core', 'assembly_pitch'),
               P['asm_pitch']))
    for an, t in P['types'].items():
        for k in ASM_L:
            if t.get(k) is not None:
                it.append(('Assembly.' + k, 'L', ('Assembly', an, k), t[k]))
        it.append(('Assembly.duct_ftf', 'L[]', ('Assembly', an, 'duct_ftf'),
                   list(t['duct_ftf'])))
        for rn, r in t.get('AxialRegion', {}).items():
            for k in REG_L:
                if r.get(k) is not None:
                    it.append(('AxialRegion.' + k, 'L',
                               ('Assembly', an, 'AxialRegion', rn, k), r[k]))
        sg = t.get('SpacerGrid', {})
        if sg.get('axial_positions') is not None:
            it.append(('SpacerGrid.axial_positions', 'L[]',
                       ('Assembly', an, 'SpacerGrid', 'axial_positions'),
                       list(sg['axial_positions'])))
        for mdl in ('FuelModel', 'PinModel'):
            m = t.get(mdl, {})
            # the legacy spelling fcgap_thickness is stored as gap_thickness
            g = m.get('gap_thickness')
            if not g and m.get('fcgap_thickness'):
                it.append((mdl + '.fcgap_thickness', 'L',
                           ('Assembly', an, mdl, 'gap_thickness'),
                           m['fcgap_thickness']))
            elif g is not None:
                it.append((mdl + '.gap_thickness', 'L',
                           ('Assembly', an, mdl, 'gap_thickness'), g))
    if P.get('orificing') and \
            P['orificing'].get('bulk_coolant_temp') is not None:
        it.append(('Orificing.bulk_coolant_temp', 'T',
                   ('Orificing', 'bulk_coolant_temp'),
                   P['orificing']['bulk_coolant_temp']))
    for i, a in enumerate(P['positions']):
        k0 = _pos_index0(a['ring'], a['pos'])
        if a.get('flowrate') is not None:
            it.append(('Assignment.flowrate', 'F',
                       ('Assignment', 'ByPosition', k0, 2, 'flowrate'),
                       a['flowrate']))
        if a.get('outlet_temp') is not None:
            it.append(('Assignment.outlet_temp', 'T',
                       ('Assignment', 'ByPosition', k0, 2, 'outlet_temp'),
                       a['outlet_temp']))
        if a.get('delta_temp') is not None:
            # stored by DASSH as an outlet temperature: inlet + rise
            it.append(('Assignment.delta_temp', 'dT',
                       ('Assignment', 'ByPosition', k0, 2, 'outlet_temp'),
                       a['delta_temp']))
    return it


def _pos_index0(ring, pos):
    if ring == 1:
        return 0
    return 3 * (ring - 2) * (ring - 1) + pos


def locate(data, where):
    """Follow a 'where' path into parsed data; KeyError/IndexError if the
    entry is absent."""
    d = data
    for k in where:
        d = d[k]
    return d


def convert_problem(P, u):
    """The same physical problem, written in unit system u. The user-power
    CSV (P['power']) is left alone: its axial bounds are always metres."""
    Q = copy.deepcopy(P)
    Q['units'] = u.block()
    Q['length'] = u.L(P['length'])
    Q['asm_pitch'] = u.L(P['asm_pitch'])
    Q['inlet'] = u.T(P['inlet'])
    st = Q.get('setup', {})
    for k in SETUP_L:
        if st.get(k) is not None:
            st[k] = u.L(st[k])
    if st.get('axial_plane') is not None:
        st['axial_plane'] = [u.L(x) for x in st['axial_plane']]
    sub = Q.get('setup_sub', {})
    if sub.get('Dump', {}).get('interval') is not None:
        sub['Dump']['interval'] = u.L(sub['Dump']['interval'])
    for nm, t in sub.get('AssemblyTables', {}).items():
        if t.get('axial_positions') is not None:
            t['axial_positions'] = [u.L(x) for x in t['axial_positions']]
    for an, t in Q['types'].items():
        for k in ASM_L:
            if t.get(k) is not None:
                t[k] = u.L(t[k])
        t['duct_ftf'] = [u.L(x) for x in t['duct_ftf']]
        for rn, r in t.get('AxialRegion', {}).items():
            for k in REG_L:
                if r.get(k) is not None:
                    r[k] = u.L(r[k])
        sg = t.get('SpacerGrid', {})
        if sg.get('axial_positions') is not None:
            sg['axial_positions'] = [u.L(x) for x in sg['axial_positions']]
        for mdl in ('FuelModel', 'PinModel'):
            m = t.get(mdl, {})
            for k in ('gap_thickness', 'fcgap_thickness'):
                if m.get(k) is not None:
                    m[k] = u.L(m[k])
    if Q.get('orificing') and \
            Q['orificing'].get('bulk_coolant_temp') is not None:
        Q['orificing']['bulk_coolant_temp'] = \
            u.T(Q['orificing']['bulk_coolant_temp'])
    for a in Q['positions']:
        if a.get('flowrate') is not None:
            a['flowrate'] = u.F(a['flowrate'])
        if a.get('outlet_temp') is not None:
            a['outlet_temp'] = u.T(a['outlet_temp'])
        if a.get('delta_temp') is not None:
            a['delta_temp'] = u.dT(a['delta_temp'])
    return Q


def diagnose(kind, u, si, got, inlet_si=None):
    """Name the mechanism of a per-key mismatch from the numbers alone.

    si  : the SI value the key must end up with
    got : what the parser produced
    Returns 'unconverted' (the number written by the user came through),
    'converted_twice', 'delta_as_absolute', 'absolute_as_delta' or
    'mismatch'."""
    def near(a, b):
        return abs(a - b) <= 1e-9 * max(abs(a), abs(b), 1e-300)

    try:
        if kind in ('L', 'F'):
            f = (u.L, u.L_si) if kind == 'L' else (u.F, u.F_si)
            if near(got, f[0](si)):
                return 'unconverted'
            if near(got, f[1](si)):
                return 'converted_twice'
        elif kind == 'T':
            if near(got, u.T(si)):
                return 'unconverted'
            if near(got, u.T_si(si)):
                return 'converted_twice'
            # scaled like a difference (no offset)
            if near(got, dtemp_to_K(u.temp, u.T(si))):
                return 'absolute_as_delta'
        elif kind == 'dT' and inlet_si is not None:
            # si here is the rise; got is the stored outlet temperature
            d_user = u.dT(si)
            if near(got, inlet_si + d_user):
                return 'unconverted'
            if near(got, inlet_si + u.T_si(d_user)):
                return 'delta_as_absolute'
            if near(got, inlet_si + dtemp_to_K(u.temp, si)):
                return 'converted_twice'
    except Exception:
        pass
    return 'mismatch'
