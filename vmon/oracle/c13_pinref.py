"""C13 oracle: independent radial heat-conduction reference for one fuel pin.

Nothing here reads attributes of a dassh PinModel. The reference is built
from the *problem specification* (pin diameter, clad thickness, gap, radial
fractions, material laws) and from first principles:

  steady radial conduction, no heat generated outside the pellet, uniform
  volumetric source q''' = q' / (pi (r_f^2 - r_0^2)) inside the pellet and an
  adiabatic inner surface r_0 (r_0 = 0: solid pellet).  The heat crossing
  radius r per unit length is

      Q(r) = q'''  pi (r^2 - r_0^2)     r_0 <= r <= r_f
      Q(r) = q'                           r   >= r_f

  and  -k(T) dT/dr 2 pi r = Q(r).  Integrated over a layer [r_i, r_o]:

      int_{T_o}^{T_i} k dT = q' ln(r_o/r_i) / (2 pi)                (clad, gap)
      int_{T_o}^{T_i} k dT = q''' [ (r_o^2-r_i^2)/4
                                    - r_0^2/2 ln(r_o/r_i) ]         (fuel shell)
      q'/(pi D) = h (T_clad,o - T_coolant)                          (film)
      q'/(2 pi r_f) = k_gap/delta (T_f - T_c) + eps sigma (T_f^4 - T_c^4)
                                                  (gap model as DASSH states)

The conductivity integral is represented the way the property (and the model's
documentation) states it: the mean of the conductivities at the two
temperatures bounding the layer, int k dT ~= (k(T_o)+k(T_i))/2 (T_i - T_o).
The exact integral (Kirchhoff transform) is available as an alternative
admissible mean (`kmean_exact`).
"""
import math
import numpy as np

SIGMA_SB = 5.670374419e-8       # W/m2K4 (CODATA 2018, exact)


# ----------------------------------------------------------------------
# conductivity laws


class Poly(object):
    """k(T) = sum c_i T^i, coefficients lowest order first."""

    def __init__(self, c):
        self.c = [float(x) for x in c]
        self.const = (len(self.c) == 1)

    def __call__(self, T):
        T = np.asarray(T, dtype=float)
        y = np.zeros_like(T)
        for a in self.c[::-1]:
            y = y * T + a
        return y

    def describe(self):
        return 'poly%d' % (len(self.c) - 1)


def metal_fuel_poly(pu, zr, porosity, beta=2.0):
    """U-Pu-Zr conductivity (Metallic Fuels Handbook / Billone) with the
    porosity correction (1-P)/(1+beta P); weight fractions pu, zr."""
    a = 17.5 * ((1.0 - 2.23 * zr) / (1.0 + 1.61 * zr) - 2.62 * pu)
    b = 1.54e-2 * ((1.0 + 0.061 * zr) / (1.0 + 1.61 * zr) + 0.90 * pu)
    c = 9.38e-6 * (1.0 - 2.70 * pu)
    f = (1.0 - porosity) / (1.0 + beta * porosity)
    p = Poly([a * f, b * f, c * f])
    p.kind = 'metal'
    return p


class Builtin(object):
    """A built-in dassh material law, evaluated on a private instance (the
    material correlations themselves are not the subject of C13)."""

    def __init__(self, name):
        import dassh
        self.name = name
        self._f = dassh.Material(name)._data['thermal_conductivity']
        self.const = bool(getattr(self._f, 'const', False))

    def __call__(self, T):
        T = np.asarray(T, dtype=float)
        return np.asarray(self._f(T), dtype=float) + 0.0 * T

    def describe(self):
        return 'builtin:' + self.name


def make_law(spec):
    """spec: ['poly', [c0, c1..]] | ['metal', pu, zr, por, beta] |
    ['builtin', name]"""
    if spec is None:
        return None
    if spec[0] == 'poly':
        return Poly(spec[1])
    if spec[0] == 'metal':
        return metal_fuel_poly(*spec[1:])
    if spec[0] == 'builtin':
        return Builtin(spec[1])
    raise ValueError(spec)


def dk(k, T, h=0.05):
    """Numerical derivative of a conductivity law."""
    return (k(T + h) - k(T - h)) / (2.0 * h)


_GL_X, _GL_W = np.polynomial.legendre.leggauss(12)


def kmean_exact(k, Ta, Tb):
    """(1/(Tb-Ta)) int_Ta^Tb k dT by 12-point Gauss-Legendre (exact for the
    polynomial laws; piecewise-linear tables: accurate to the kink error)."""
    Ta = np.asarray(Ta, dtype=float)
    Tb = np.asarray(Tb, dtype=float)
    mid = 0.5 * (Ta + Tb)
    half = 0.5 * (Tb - Ta)
    tot = np.zeros_like(mid)
    for x, w in zip(_GL_X, _GL_W):
        tot = tot + w * k(mid + half * x)
    return 0.5 * tot


def kmean_ends(k, Ta, Tb):
    return 0.5 * (k(Ta) + k(Tb))


def krange(k, Ta, Tb, n=17):
    """min and max of k over [Ta, Tb] (sampled; laws are smooth or
    piecewise linear on a coarse table)."""
    Ta = np.asarray(Ta, dtype=float)
    Tb = np.asarray(Tb, dtype=float)
    lo = np.full(Ta.shape, np.inf)
    hi = np.full(Ta.shape, -np.inf)
    for s in np.linspace(0.0, 1.0, n):
        v = k(Ta + s * (Tb - Ta))
        lo = np.minimum(lo, v)
        hi = np.maximum(hi, v)
    return lo, hi


# ----------------------------------------------------------------------
# one conducting layer:  dT * kbar(T_out, T_out + dT) = c   (c >= 0)


def solve_layer(k, T_out, c, n_bis=70):
    """Smallest dT >= 0 with dT*(k(T_out)+k(T_out+dT))/2 = c, per entry.

    Returns dT and a flag `ok` (False where no bracket was found, the law
    became non-positive inside the bracket or the left side is not monotone
    on the bracket, i.e. the reference itself is not well defined)."""
    T_out = np.asarray(T_out, dtype=float)
    c = np.asarray(c, dtype=float) + 0.0 * T_out
    k0 = k(T_out)

    def F(d):
        return d * 0.5 * (k0 + k(T_out + d))

    ok = np.isfinite(c) & (c >= 0.0) & (k0 > 0.0)
    guess = np.where(ok, c / np.where(k0 > 0, k0, 1.0), 0.0)
    hi = np.maximum(2.0 * guess, 1e-9)
    for _ in range(60):
        need = ok & ~(F(hi) >= c)
        if not np.any(need):
            break
        hi = np.where(need, hi * 2.0, hi)
    ok &= (F(hi) >= c) & np.isfinite(hi)
    hi = np.where(ok, hi, 0.0)
    # monotonicity / positivity on the bracket (sampled)
    prev = np.zeros_like(hi)
    for s in np.linspace(0.0, 1.0, 33)[1:]:
        cur = F(s * hi)
        ok &= (cur >= prev - 1e-12 * np.abs(cur)) & (k(T_out + s * hi) > 0.0)
        prev = cur
    lo = np.zeros_like(hi)
    for _ in range(n_bis):
        mid = 0.5 * (lo + hi)
        big = F(mid) >= c
        hi = np.where(big, mid, hi)
        lo = np.where(big, lo, mid)
    return 0.5 * (lo + hi), ok


def layer_sensitivities(k, T_out, dT, c):
    """(L, S): L = |d/dT_in [T_out + c/kbar(T_out, T_in)]| is the contraction
    factor of the model's successive-substitution at the solution (an iterate
    that moved by <= atol is within L*atol of the fixed point); S =
    dT_in/dT_out of the exact layer relation (error carried inward)."""
    Ti = T_out + dT
    ko, ki = k(T_out), k(Ti)
    kb = 0.5 * (ko + ki)
    dko, dki = dk(k, T_out), dk(k, Ti)
    with np.errstate(all='ignore'):
        L = np.abs(c * 0.5 * dki / (kb * kb))
        den = kb + 0.5 * dT * dki
        S = 1.0 - dT * 0.5 * (dko + dki) / den
    return L, np.abs(S)


# ----------------------------------------------------------------------


class PinRef(object):
    """Reference pin built from the specification.

    spec = {'d_pin', 'clad_t', 'gap', 'r_frac': [...],
            'clad_k': law, 'gap_k': law|None, 'fuel_k': [law per zone],
            'emissivity': float}
    """

    def __init__(self, spec):
        self.spec = spec
        D = float(spec['d_pin'])
        t = float(spec['clad_t'])
        self.D = D
        self.ro = 0.5 * D
        self.ri = self.ro - t
        self.rm = self.ro - 0.5 * t
        self.gap = float(spec.get('gap', 0.0))
        self.rf = self.ri - self.gap
        fr = [float(x) for x in spec['r_frac']]
        self.n_zone = len(fr)
        self.r0 = fr[0] * self.rf
        inner = [f * self.rf for f in fr]
        outer = inner[1:] + [self.rf]
        self.shell = list(zip(inner, outer))        # (r_in, r_out) per zone
        self.area = math.pi * (self.rf ** 2 - self.r0 ** 2)
        self.annular = self.r0 > 0.0
        self.e = float(spec.get('emissivity', 0.9))
        self.k_clad = make_law(spec['clad_k'])
        self.k_gap = make_law(spec.get('gap_k'))
        self.k_fuel = [make_law(s) for s in spec['fuel_k']]
        self.ln_clad = math.log(self.ro / self.ri)
        self.ln_mw = math.log(self.ro / self.rm)

    # geometric factor of a fuel shell: int k dT = q''' * G
    def G(self, i, solid_formula=False):
        r_in, r_out = self.shell[i]
        g = 0.25 * (r_out ** 2 - r_in ** 2)
        if self.r0 > 0.0 and not solid_formula:
            g -= 0.5 * self.r0 ** 2 * math.log(r_out / r_in)
        return g

    def film_drop(self, q, h):
        return q / (math.pi * self.D * h)

    def clad_c(self, q):
        return q * self.ln_clad / (2.0 * math.pi)

    def mw_c(self, q):
        return q * self.ln_mw / (2.0 * math.pi)

    def gap_flux(self, q):
        return q / (2.0 * math.pi * self.rf)

    def gap_map(self, q, Tc, Tf):
        """Right side of the model's stated gap relation solved for Tf:
        Tc + delta/kbar (q'' - eps sigma (Tf^4 - Tc^4))."""
        kb = kmean_ends(self.k_gap, Tc, Tf)
        return Tc + self.gap / kb * (self.gap_flux(q)
                                     - self.e * SIGMA_SB * (Tf ** 4 - Tc ** 4))

    def gap_cyl_map(self, q, Tc, Tf):
        """Same with cylindrical conduction across the gap."""
        kb = kmean_ends(self.k_gap, Tc, Tf)
        geo = self.rf * math.log(self.ri / self.rf)
        return Tc + geo / kb * (self.gap_flux(q)
                                - self.e * SIGMA_SB * (Tf ** 4 - Tc ** 4))

    def fuel_reference(self, q, T_surf, solid_formula=False):
        """Shell-by-shell solve from the fuel surface inwards.

        Returns node temperatures N (n_zone+1 x n): N[n_zone] = T_surf ...
        N[0] = centre/inner surface, per-shell (L, S) and validity flags."""
        q = np.asarray(q, dtype=float)
        qv = q / self.area
        n = self.n_zone
        N = [None] * (n + 1)
        N[n] = np.asarray(T_surf, dtype=float) + 0.0 * q
        ok = np.ones(q.shape, dtype=bool)
        Ls, Ss = [None] * n, [None] * n
        for i in reversed(range(n)):
            c = qv * self.G(i, solid_formula)
            dT, good = solve_layer(self.k_fuel[i], N[i + 1], c)
            ok &= good
            N[i] = N[i + 1] + dT
            Ls[i], Ss[i] = layer_sensitivities(self.k_fuel[i], N[i + 1],
                                               dT, c)
        return N, Ls, Ss, ok
