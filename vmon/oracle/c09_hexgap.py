"""C09 oracle: the inter-assembly gap mesh from hexagonal geometry alone.

Nothing here looks at dassh.  The model is built from

  * the position numbering of the input file (ring r, position p: the first
    position of every ring lies on one fixed diagonal through the centre,
    positions advance around the ring in one rotational sense),
  * the hexagonal lattice (six unit steps u_0..u_5, u_{k+2} = u_{k+1} - u_k),
  * per assembly: number of pin rings (0 = no pins) and pin pitch,
  * duct outer flat-to-flat F and assembly pitch  (gap width d = pitch - F).

Gap cells are identified by *geometric keys*:
  ('c', V)        corner cell at lattice vertex V = frozenset of the 3 lattice
                  sites that meet there,
  ('e', f, V, j)  j-th edge cell on face f = frozenset of 2 sites, counted
                  from end vertex V (canonical end = the smaller vertex).

A hex side is meshed by the finer of the assemblies present on its two sides
(more edge cells; tie: smaller pin pitch).  Edge cells are one pin pitch wide
and centred on the side, the remainder of the side goes in equal halves to the
two corner cells (side length F/sqrt3 = n*pp + 2*dwc).

Area model (boundary of the gap region = the hexagons of flat-to-flat F+2d
around every assembly):  gap region = union of the enlarged hexagons minus the
ducts.  Total area by inclusion-exclusion of the enlarged hexagons:
   N*sqrt3/2*((F+2d)^2 - F^2) - N_pairs*(F*d/sqrt3 + 5 d^2/(2 sqrt3))
   + N_triples*sqrt3/2*d^2
(pair overlap: thin hexagon of width d between two enlarged hexagons at
distance F+d; triple overlap: regular hexagon of flat-to-flat d).
Per cell: edge = pp*d; corner = sum of its arms dwc_f*d + central piece
(sqrt3/4 d^2 when >= 2 assemblies meet at the vertex, the kite sqrt3/3 d^2
when the assembly is alone there).
"""
import math

SQ3 = math.sqrt(3.0)

# axial lattice steps, u[k+2] = u[k+1] - u[k]
U = [(1, 0), (0, 1), (-1, 1), (-1, 0), (0, -1), (1, -1)]


def n_positions(n_ring):
    return 3 * (n_ring - 1) * n_ring + 1


def ring_of(k0):
    """1-based ring and 0-based position-in-ring of 0-based position k0."""
    if k0 == 0:
        return 1, 0
    r = 2
    while n_positions(r) <= k0:
        r += 1
    return r, k0 - n_positions(r - 1)


def site(k0):
    """Axial lattice coordinates of position k0 (spiral numbering)."""
    r, p = ring_of(k0)
    if r == 1:
        return (0, 0)
    k, m = divmod(p, r - 1)
    a = U[k % 6]
    b = U[(k + 2) % 6]
    return ((r - 1) * a[0] + m * b[0], (r - 1) * a[1] + m * b[1])


def xy(s, pitch=1.0):
    """Cartesian centre of a lattice site (nearest-neighbour distance =
    pitch)."""
    return (pitch * (s[0] + 0.5 * s[1]), pitch * SQ3 / 2 * s[1])


def add(s, k):
    return (s[0] + U[k % 6][0], s[1] + U[k % 6][1])


def vkey(v):
    return tuple(sorted(v))


class Mesh(object):
    """Mesh spec of one assembly as far as the gap is concerned."""

    def __init__(self, n_ring, pin_pitch):
        self.n_edge = max(int(n_ring) - 1, 0) if n_ring else 0
        self.pp = float(pin_pitch) if self.n_edge > 0 else 0.0
        self.rodded = bool(n_ring)

    def rank(self):
        # finer = larger rank: pins beat no pins, more cells beat fewer,
        # smaller pitch beats larger
        return (1 if self.rodded else 0, self.n_edge, -self.pp)


def finer(meshes):
    best = None
    for m in meshes:
        if best is None or m.rank() > best.rank():
            best = m
    return best


def orientations():
    """The 12 ways a side index 0..5 can map to lattice directions."""
    return [(sg, o) for sg in (1, -1) for o in range(6)]


def gdir(g, s):
    return (g[0] * s + g[1]) % 6


class GapModel(object):
    """layout: dict k0 -> Mesh ; F duct outer flat-to-flat ; pitch."""

    def __init__(self, layout, F, pitch):
        self.F = float(F)
        self.pitch = float(pitch)
        self.d = self.pitch - self.F
        self.side = self.F / SQ3
        self.order = sorted(layout)              # assembly index -> k0
        self.site_of = [site(k) for k in self.order]
        self.idx_at = {s: i for i, s in enumerate(self.site_of)}
        assert len(self.idx_at) == len(self.order), 'site() not injective'
        self.mesh = [layout[k] for k in self.order]
        self.n = len(self.order)

    # -- lattice relations -------------------------------------------------
    def neighbour(self, a, k):
        """Assembly index across lattice direction k of assembly a, or -1."""
        return self.idx_at.get(add(self.site_of[a], k), -1)

    def consistent_orientations(self, asm_adj):
        """Side->direction maps under which asm_adj (1-based ids, 0 empty)
        is the geometric neighbour table for every assembly and side."""
        out = []
        for g in orientations():
            ok = True
            for a in range(self.n):
                for s in range(6):
                    if int(asm_adj[a][s]) - 1 != self.neighbour(a, gdir(g, s)):
                        ok = False
                        break
                if not ok:
                    break
            if ok:
                out.append(g)
        return out

    # -- faces and vertices --------------------------------------------------
    def face(self, a, k):
        c = self.site_of[a]
        return frozenset((c, add(c, k)))

    def vertex(self, a, k1, k2):
        c = self.site_of[a]
        return frozenset((c, add(c, k1), add(c, k2)))

    def present(self, sites):
        return [self.idx_at[s] for s in sites if s in self.idx_at]

    def face_mesh(self, f):
        return finer([self.mesh[i] for i in self.present(f)])

    def face_dims(self, f):
        m = self.face_mesh(f)
        n, pp = m.n_edge, m.pp
        return n, pp, 0.5 * (self.side - n * pp)

    def vertex_faces(self, v):
        """The (up to 3) faces meeting at vertex v that bound an assembly."""
        v = sorted(v)
        out = []
        for i in range(3):
            for j in range(i + 1, 3):
                f = frozenset((v[i], v[j]))
                if self.present(f):
                    out.append(f)
        return out

    def face_vertices(self, f):
        """The two lattice vertices at the ends of face f."""
        a, b = sorted(f)
        k = U.index((b[0] - a[0], b[1] - a[1]))
        return [frozenset((a, b, add(a, k + 1))),
                frozenset((a, b, add(a, k - 1)))]

    def edge_key(self, f, vlead, j, n):
        v0, v1 = sorted(self.face_vertices(f), key=vkey)
        assert vlead in (v0, v1)
        if vlead == v0:
            return ('e', f, j)
        return ('e', f, n - 1 - j)

    # -- the mesh --------------------------------------------------------------
    def build(self, g):
        """Per assembly the cyclic cell sequence
        [edges of side 0, corner 0|1, edges of side 1, ...] as geometric keys,
        under side->direction map g.  Also per-cell expected data."""
        seq = []            # per assembly: list of (key, side, kind, width)
        xb = []             # per assembly: boundaries along the perimeter
        cells = {}
        for a in range(self.n):
            row = []
            bnd = []
            for s in range(6):
                k = gdir(g, s)
                kn = gdir(g, s + 1)
                kp = gdir(g, s - 1)
                f = self.face(a, k)
                n, pp, dwc = self.face_dims(f)
                vlead = self.vertex(a, kp, k)
                vtrail = self.vertex(a, k, kn)
                x0 = s * self.side + dwc
                bnd.append(x0)
                for j in range(n):
                    key = self.edge_key(f, vlead, j, n)
                    row.append((key, s, 0, pp))
                    bnd.append(x0 + (j + 1) * pp)
                    cells.setdefault(key, {'type': 0, 'asm': set(),
                                           'face': f, 'pp': pp})
                    cells[key]['asm'].add(a)
                fn = self.face(a, kn)
                dwc_n = self.face_dims(fn)[2]
                key = ('c', vtrail)
                row.append((key, s, 1, dwc + dwc_n))
                cells.setdefault(key, {'type': 1, 'asm': set(),
                                       'vertex': vtrail})
                cells[key]['asm'].add(a)
            seq.append(row)
            xb.append(bnd)
        self.seq = seq
        self.xbnds = xb
        self.cells = cells
        d = self.d
        for key, c in cells.items():
            if c['type'] == 0:
                c['area'] = c['pp'] * d
                c['wp'] = 2.0 * c['pp']
                c['n_expected'] = len(self.present(c['face']))
            else:
                v = c['vertex']
                k = len(self.present(v))
                arms = sum(self.face_dims(f)[2] for f in self.vertex_faces(v))
                c['k'] = k
                c['n_expected'] = k
                c['area'] = arms * d + (SQ3 / 3 if k == 1 else SQ3 / 4) * d * d
                c['wp'] = 2.0 * arms + (2.0 * d / SQ3 if k == 1 else 0.0)
        # adjacency
        for key, c in cells.items():
            nb = set()
            if c['type'] == 0:
                f = c['face']
                n = self.face_dims(f)[0]
                j = key[2]
                v0, v1 = sorted(self.face_vertices(f), key=vkey)
                nb.add(('e', f, j - 1) if j > 0 else ('c', v0))
                nb.add(('e', f, j + 1) if j < n - 1 else ('c', v1))
            else:
                v = c['vertex']
                for f in self.vertex_faces(v):
                    n = self.face_dims(f)[0]
                    v0, v1 = sorted(self.face_vertices(f), key=vkey)
                    if n == 0:
                        nb.add(('c', v1 if v == v0 else v0))
                    else:
                        nb.add(('e', f, 0 if v == v0 else n - 1))
            c['adj'] = nb
        return self

    # -- layout-only quantities ------------------------------------------------
    def n_pairs(self):
        return sum(1 for a in range(self.n) for k in range(3)
                   if self.neighbour(a, k) >= 0)

    def n_triples(self):
        t = 0
        for a in range(self.n):
            for k in range(6):
                if self.neighbour(a, k) >= 0 and self.neighbour(a, k + 1) >= 0:
                    t += 1
        assert t % 3 == 0
        return t // 3

    def total_area(self):
        F, d = self.F, self.d
        one = SQ3 / 2 * ((F + 2 * d) ** 2 - F ** 2)
        pair = F * d / SQ3 + 5 * d * d / (2 * SQ3)
        tri = SQ3 / 2 * d * d
        return self.n * one - self.n_pairs() * pair + self.n_triples() * tri

    def components(self):
        """Number of edge-connected groups of assemblies."""
        seen = set()
        ncomp = 0
        for a in range(self.n):
            if a in seen:
                continue
            ncomp += 1
            st = [a]
            seen.add(a)
            while st:
                b = st.pop()
                for k in range(6):
                    c = self.neighbour(b, k)
                    if c >= 0 and c not in seen:
                        seen.add(c)
                        st.append(c)
        return ncomp
