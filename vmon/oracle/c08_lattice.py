"""C08 oracle: a pin bundle in a hexagonal duct, built from scratch.

Nothing here looks at dassh. The bundle is the set of points of a triangular
lattice (pitch P) within hexagonal distance n-1 of the origin; a coolant cell
is

  interior  one lattice triangle (three mutually adjacent pins)
  edge      one boundary edge of the triangulation (two pins) + the wall
  corner    one pin with only three lattice neighbours + the wall corner

and the duct walls / bypass gaps are concentric hexagonal annuli cut by the
lines that bound the edge and corner cells. From this follow the counts, the
cell-to-cell and pin-to-cell incidence, the share of a pin's circumference
facing each cell (the angle the cell subtends at the pin centre) and the
location of the cell centroids.

Orientation (documented in dassh/pin.py: the first pin of every ring lies
straight above the centre pin): lattice basis e1 = P*(0, 1),
e2 = P*(sqrt(3)/2, 1/2).
"""
import math
import numpy as np

SQ3 = math.sqrt(3.0)
# the six lattice directions in axial coordinates, successive 60 deg turns
DIRS = [(1, 0), (0, 1), (-1, 1), (-1, 0), (0, -1), (1, -1)]

INTERIOR, EDGE, CORNER, DUCT_E, DUCT_C, BYP_E, BYP_C = range(7)


def hexdist(a, b):
    return max(abs(a), abs(b), abs(a + b))


def rot60(xy, k=1):
    """Rotate points by k*60 degrees (counter-clockwise)."""
    c, s = math.cos(k * math.pi / 3.0), math.sin(k * math.pi / 3.0)
    xy = np.asarray(xy, dtype=float)
    return np.stack([c * xy[..., 0] - s * xy[..., 1],
                     s * xy[..., 0] + c * xy[..., 1]], axis=-1)


class Bundle(object):
    """Independent model of an n-ring bundle.

    cells : list of dicts {type, pins (tuple of pin labels), ring (0 coolant,
            1 first wall, 2 first gap, ...), base (index of the coolant cell
            a wall/gap cell sits behind), xy (None for coolant corners: the
            centroid convention is not fixed by geometry), dir (unit vector
            for corners)}
    adj   : set of frozenset({i, j}) of adjacent cells
    """

    def __init__(self, n_ring, pitch, diam, ftf):
        """ftf: sorted list of flat-to-flat distances
        [in0, out0, in1, out1, ...]."""
        n = int(n_ring)
        self.n = n
        self.P = float(pitch)
        self.D = float(diam)
        self.ftf = [float(x) for x in ftf]
        e1 = np.array([0.0, 1.0]) * self.P
        e2 = np.array([SQ3 / 2.0, 0.5]) * self.P
        self.pins = {}
        for a in range(-(n - 1), n):
            for b in range(-(n - 1), n):
                if hexdist(a, b) <= n - 1:
                    self.pins[(a, b)] = a * e1 + b * e2
        self.pin_labels = sorted(self.pins)
        self.pin_index = {p: i for i, p in enumerate(self.pin_labels)}
        self.pin_xy = np.array([self.pins[p] for p in self.pin_labels])
        # pin neighbours
        self.pin_nb = {}
        for (a, b) in self.pin_labels:
            self.pin_nb[(a, b)] = [(a + da, b + db) for da, db in DIRS
                                   if (a + da, b + db) in self.pins]
        # distance between the outer pin row and the inner duct wall
        self.w = 0.5 * (self.ftf[0] - SQ3 * (n - 1) * self.P)
        self._coolant_cells()
        self._ring_cells()
        self._adjacency()

    # ------------------------------------------------------------------
    def _coolant_cells(self):
        cells = []
        tri_of_edge = {}
        for (a, b) in self.pin_labels:
            for k in (0, 1):
                q = (a + DIRS[k][0], b + DIRS[k][1])
                r = (a + DIRS[k + 1][0], b + DIRS[k + 1][1])
                if q in self.pins and r in self.pins:
                    pins = ((a, b), q, r)
                    xy = (self.pins[(a, b)] + self.pins[q]
                          + self.pins[r]) / 3.0
                    idx = len(cells)
                    cells.append({'type': INTERIOR, 'pins': pins, 'ring': 0,
                                  'xy': xy})
                    for u, v in ((pins[0], pins[1]), (pins[1], pins[2]),
                                 (pins[0], pins[2])):
                        tri_of_edge.setdefault(frozenset((u, v)),
                                               []).append(idx)
        self.n_interior = len(cells)
        # boundary edges of the triangulation: exactly one triangle
        n_edge = 0
        for e, tris in sorted(tri_of_edge.items(),
                              key=lambda kv: sorted(kv[0])):
            if len(tris) != 1:
                continue
            u, v = sorted(e)
            third = [p for p in cells[tris[0]]['pins'] if p not in e][0]
            mid = 0.5 * (self.pins[u] + self.pins[v])
            nrm = mid - self.pins[third]
            nrm = nrm / math.hypot(nrm[0], nrm[1])
            cells.append({'type': EDGE, 'pins': (u, v), 'ring': 0,
                          'xy': mid + 0.5 * self.w * nrm, 'mid': mid,
                          'nrm': nrm, 'tri': tris[0]})
            n_edge += 1
        self.n_edge = n_edge
        n_corner = 0
        for p in self.pin_labels:
            if len(self.pin_nb[p]) == 3:
                xy = self.pins[p]
                d = xy / math.hypot(xy[0], xy[1])
                cells.append({'type': CORNER, 'pins': (p,), 'ring': 0,
                              'xy': None, 'dir': d})
                n_corner += 1
        self.n_corner = n_corner
        self.cells = cells
        self.n_coolant = len(cells)

    def ring_apothems(self):
        """Mid-thickness apothem of wall 0, gap 0, wall 1, gap 1, ..."""
        f = self.ftf
        out = []
        for k in range(len(f) - 1):
            out.append(0.25 * (f[k] + f[k + 1]))
        return out

    def _ring_cells(self):
        a_pin = 0.5 * SQ3 * (self.n - 1) * self.P    # apothem of pin row
        ext = [i for i, c in enumerate(self.cells) if c['type'] != INTERIOR]
        self.rings = []
        for k, A in enumerate(self.ring_apothems()):
            wall = (k % 2 == 0)
            this = {}
            for i in ext:
                c = self.cells[i]
                if c['type'] == EDGE:
                    xy = c['mid'] + (A - a_pin) * c['nrm']
                    t = DUCT_E if wall else BYP_E
                else:
                    xy = c['dir'] * (2.0 / SQ3) * A
                    t = DUCT_C if wall else BYP_C
                this[i] = len(self.cells)
                self.cells.append({'type': t, 'pins': (), 'ring': k + 1,
                                   'base': i, 'xy': xy})
            self.rings.append(this)

    def _adjacency(self):
        adj = set()
        cells = self.cells
        by_pin = {}
        for i in range(self.n_coolant):
            for p in cells[i]['pins']:
                by_pin.setdefault(p, []).append(i)
        ext_adj = set()
        for i in range(self.n_coolant):
            ci = cells[i]
            for p in ci['pins']:
                for j in by_pin[p]:
                    if j <= i:
                        continue
                    cj = cells[j]
                    shared = set(ci['pins']) & set(cj['pins'])
                    ti, tj = ci['type'], cj['type']
                    if ti == INTERIOR and tj in (INTERIOR, EDGE):
                        # across the gap between two pins
                        if len(shared) == 2:
                            adj.add(frozenset((i, j)))
                    elif ti == EDGE and tj == EDGE:
                        # along the wall, past a pin that is not a corner pin
                        if len(shared) == 1 and \
                                len(self.pin_nb[list(shared)[0]]) != 3:
                            adj.add(frozenset((i, j)))
                            ext_adj.add(frozenset((i, j)))
                    elif ti == EDGE and tj == CORNER:
                        if len(shared) == 1:
                            adj.add(frozenset((i, j)))
                            ext_adj.add(frozenset((i, j)))
        # walls and gaps: behind their coolant cell, and side by side
        for k, this in enumerate(self.rings):
            for base, idx in this.items():
                inner = base if k == 0 else self.rings[k - 1][base]
                adj.add(frozenset((inner, idx)))
            for e in ext_adj:
                u, v = tuple(e)
                adj.add(frozenset((this[u], this[v])))
        self.adj = adj
        nb = {}
        for e in adj:
            u, v = tuple(e)
            nb.setdefault(u, set()).add(v)
            nb.setdefault(v, set()).add(u)
        self.nb = nb

    # ------------------------------------------------------------------
    def pin_fraction(self, cell_type):
        """Share of a pin's circumference facing one cell of this type
        = angle subtended at the pin centre / 360 deg."""
        return {INTERIOR: 60.0, EDGE: 90.0, CORNER: 60.0}[cell_type] / 360.0

    def hex_area(self, f):
        return 0.5 * SQ3 * f * f

    def annulus(self, f_in, f_out):
        return 0.5 * SQ3 * (f_out * f_out - f_in * f_in)


class Matcher(object):
    """Nearest-point lookup on a hash grid (no scipy here)."""

    def __init__(self, xy, tol):
        self.xy = np.asarray(xy, dtype=float)
        self.tol = float(tol)
        self.g = 4.0 * self.tol
        self.grid = {}
        for i, (x, y) in enumerate(self.xy):
            self.grid.setdefault((int(math.floor(x / self.g)),
                                  int(math.floor(y / self.g))),
                                 []).append(i)

    def find(self, p):
        """Indices of all stored points within tol of p."""
        cx = int(math.floor(p[0] / self.g))
        cy = int(math.floor(p[1] / self.g))
        out = []
        for ix in (cx - 1, cx, cx + 1):
            for iy in (cy - 1, cy, cy + 1):
                for i in self.grid.get((ix, iy), ()):
                    if math.hypot(self.xy[i, 0] - p[0],
                                  self.xy[i, 1] - p[1]) <= self.tol:
                        out.append(i)
        return out


def match_points(src, dst, tol):
    """For every row of src the index of the unique row of dst within tol;
    -1 when there is none, -2 when there are several. Also returns the
    largest matched distance."""
    m = Matcher(dst, tol)
    out = np.full(len(src), -1, dtype=int)
    worst = 0.0
    for i, p in enumerate(np.asarray(src, dtype=float)):
        hit = m.find(p)
        if len(hit) == 1:
            out[i] = hit[0]
            d = math.hypot(dst[hit[0]][0] - p[0], dst[hit[0]][1] - p[1])
            worst = max(worst, d)
        elif len(hit) > 1:
            out[i] = -2
    return out, worst
