"""C07 - solutions are equivariant under hexagonal symmetries."""
import copy
import numpy as np
from vmon import gen, drive, workloads as wl, env
from vmon.harness import Result

dassh = env.import_dassh()

PROPERTY = 'C07'
LEVEL = 'exploration'
TECHNIQUE = ('runtime monitoring with metamorphic pairs: the real solver is '
             'run on a problem and on its rotated / mirrored image; fields '
             'are compared through permutations derived from the published '
             'centroid coordinates (not from DASSH index arithmetic)')
LEVEL_TEXT = ('For generated assemblies (2-6 rings, 1-3 ducts, both wire '
              'directions, asymmetric power maps, constant and T-dependent '
              'coolant) all five rotations and the mirror image reproduce '
              'the permuted coolant, bypass, duct and pin fields to 1e-9 K; '
              'for 7- and 19-position cores with empty positions and every '
              'gap model the core rotated by 60 degrees reproduces the '
              'permuted assembly and gap fields. Held on the pairs observed.')
LEVEL_NOTE = ('Permutations come from nearest-neighbour matching of rotated '
              'published centroids (pin_lattice.xy, subchannel.xy, '
              'Core.map_assembly_xy) and are required to be bijections.')
DESIGN_REF = 'DESIGN.md section 3, C07'
RULE = ('random single assemblies with asymmetric random power maps '
        '(rotations k=1..5 and the mirror with reversed wire) and random '
        'cores on 7/19 positions with empty positions, 1-3 types, all gap '
        'models (rotation by k*60 degrees of positions, flows, types and '
        'each power map); non-trivial when the field spread is > 1 K; '
        'distinct by (rings, ducts, wire, gap, layout)')
RULE += (' Later rounds added: axial regions (fields compared at three planes, un-rodded regions through the corner permutation), conv-approx cores with mixed trip status.')
DECIDING = ['R1_rotated_assembly_fields', 'R2_mirrored_assembly_fields',
            'R3_rotated_core_assembly_fields', 'R4_rotated_core_gap_fields']
CASE_TIMEOUT = {'quick': 300, 'thorough': 1200}
BUDGET = {'quick': 800, 'thorough': 3300}
ASSUMPTIONS = ['equality to 1e-9 K absolute (measured ~1e-12)']
MAX_STEPS = 3000
TOLK = 1e-9


def cases(tier, seed):
    out = []
    n = 30 if tier == 'quick' else 800
    for i in range(n):
        out.append({'name': 'asm-%d' % i, 'kind': 'asm',
                    'seed': [seed, 71, i]})
    n = 28 if tier == 'quick' else 400
    for i in range(n):
        out.append({'name': 'core-%d' % i, 'kind': 'core',
                    'seed': [seed, 72, i],
                    'n_ring': (3 if (tier == 'thorough' and i % 3 == 0)
                               or (tier == 'quick' and i % 5 == 0) else 2)})
    return out


def perm_from_xy(xy, ang, mirror=False):
    """Index map i -> j such that xy[j] is the image of xy[i] under a
    rotation by `ang` (after an optional mirror x -> -x)."""
    c, s = np.cos(ang), np.sin(ang)
    R = np.array([[c, -s], [s, c]])
    pts = np.array(xy, dtype=float)
    if mirror:
        pts = pts * np.array([-1.0, 1.0])
    rot = pts @ R.T
    d = np.linalg.norm(rot[:, None, :] - np.asarray(xy)[None, :, :], axis=2)
    p = d.argmin(axis=1)
    err = float(d[np.arange(len(p)), p].max())
    scale = max(1.0, float(np.abs(xy).max()))
    if err > 1e-9 * scale + 1e-12 or len(set(p.tolist())) != len(p):
        raise ValueError('centroids are not invariant under the symmetry '
                         '(err %.3e)' % err)
    return p


def region_perms(reg, ang, mirror=False):
    sc = reg.subchannel
    nc = sc.n_sc['coolant']['total']
    nd = sc.n_sc['duct']['total']
    out = {'pins': perm_from_xy(reg.pin_lattice.xy, ang, mirror),
           'cool': perm_from_xy(sc.xy[:nc], ang, mirror),
           'ductcell': [], 'byp': []}
    for d in range(reg.n_duct):
        i0 = nc + 2 * d * nd
        out['ductcell'].append(perm_from_xy(sc.xy[i0:i0 + nd], ang, mirror))
        if d < reg.n_bypass:
            j0 = nc + (2 * d + 1) * nd
            out['byp'].append(perm_from_xy(sc.xy[j0:j0 + nd], ang, mirror))
    duct = []
    for d in range(reg.n_duct):
        duct += [int(x) + d * nd for x in out['ductcell'][d]]
    out['duct'] = np.array(duct)
    out['unrodded'] = {}
    return out


def assembly_perms(a, ang, mirror=False):
    pm = region_perms(a.rodded, ang, mirror)
    for reg in a.region:
        if not reg.is_rodded:
            pm['unrodded'][reg.name] = unrodded_perms(pm, reg)
    return pm


def plane_recorder(r, store):
    """on_step callback keeping every assembly's fields at one third, two
    thirds and the end of the axial mesh."""
    n = len(r.z)
    want = sorted(set([max(1, n // 3), max(1, (2 * n) // 3), n - 1]))

    def cb(i):
        if i in want:
            store[want.index(i)] = {a.id: final_fields(a)
                                    for a in r.assemblies}
    return cb


def spec_perm(pm):
    return {'pins': [int(x) for x in pm['pins']],
            'cool': [int(x) for x in pm['cool']],
            'duct': [int(x) for x in pm['duct']]}


def corner_perm(pm_duct):
    """Permutation of the six hexagon corners that goes with a duct-cell
    permutation of the pin bundle's wall. Wall cell c of an un-rodded region
    is centred on the corner that closes side c, like the corner cell that
    ends side c of the bundle's wall (bundle wall cell (c+1)*per - 1); the
    wall meshes of both start in the middle of the last of these corners,
    which is how both are laid on the inter-assembly gap mesh."""
    nd = len(pm_duct)
    per = nd // 6
    p = [(int(pm_duct[(c + 1) * per - 1]) + 1) // per - 1 for c in range(6)]
    if sorted(p) != list(range(6)):
        raise ValueError('duct-cell permutation does not permute the '
                         'corners')
    return np.array(p)


def unrodded_perms(pm, reg):
    """Permutations for an un-rodded region of the same assembly: its six
    wall cells (and the six nodes of the six-node model) are centred on the
    six corners."""
    p6 = corner_perm(pm['ductcell'][0])
    n = reg.temp['coolant_int'].size
    return {'cool': (p6 if n == 6 else np.arange(n)), 'ductcell': [p6],
            'byp': [], 'pins': None}


def final_fields(a):
    reg = a.active_region
    f = {'rodded': bool(reg.is_rodded), 'region': reg.name,
         'cool': reg.temp['coolant_int'].copy(),
         'duct': reg.temp['duct_mw'].copy(),
         'surf': reg.temp['duct_surf'].copy()}
    if 'coolant_byp' in reg.temp:
        f['byp'] = reg.temp['coolant_byp'].copy()
    if hasattr(reg, 'pin_temps'):
        f['pin'] = reg.pin_temps[:, 3:].copy()
    f['peak'] = a._peak['cool'][0]
    f['dp'] = a.pressure_drop
    return f


def compare(res, name, f0, f1, pm, key):
    """f1 (image problem) must equal f0 moved by the permutation."""
    worst = 0.0
    if f0['region'] != f1['region'] or f0['cool'].shape != f1['cool'].shape:
        res.check(name, False, 'image problem is in another axial region '
                  '(%s vs %s) at the same plane' % (f0['region'],
                                                     f1['region']), key)
        return 0.0
    if not f0['rodded']:
        pm = pm['unrodded'][f0['region']]
        res.count(name + '_unrodded_planes')
    worst = max(worst, float(np.max(np.abs(f1['cool'][pm['cool']]
                                           - f0['cool']))))
    for d in range(f0['duct'].shape[0]):
        p = pm['ductcell'][d]
        worst = max(worst, float(np.max(np.abs(f1['duct'][d][p]
                                               - f0['duct'][d]))))
        worst = max(worst, float(np.max(np.abs(f1['surf'][d][:, p]
                                               - f0['surf'][d]))))
    if 'byp' in f0:
        for b in range(f0['byp'].shape[0]):
            p = pm['byp'][b]
            worst = max(worst, float(np.max(np.abs(f1['byp'][b][p]
                                                   - f0['byp'][b]))))
    if 'pin' in f0 and 'pin' in f1 and pm['pins'] is not None:
        worst = max(worst, float(np.max(np.abs(f1['pin'][pm['pins']]
                                               - f0['pin']))))
    worst = max(worst, abs(f1['peak'] - f0['peak']))
    dp = abs(f1['dp'] - f0['dp']) / max(abs(f0['dp']), 1e-30)
    res.stat(name + '_max_K', worst)
    res.check(name, worst <= TOLK and dp <= 1e-12,
              'image problem does not reproduce the permuted fields: max '
              'difference %.3e K (pressure drop rel %.1e)' % (worst, dp),
              key, {'worst': worst})
    return worst


def run_asm(case, res):
    rng = np.random.default_rng(case['seed'])
    tdep = rng.random() < 0.4
    P, feats = wl.single_assembly(
        rng, coolant_pool=True, tdep=tdep, max_rings=5, length=0.3, lf=False,
        regions=bool(rng.random() < 0.3),
        gap=wl.choose(rng, ['none', 'none', 'flow', 'no_flow',
                            'duct_average']),
        vel=wl.loguniform(rng, 0.1, 5.0))
    sp = P['power']['asm']['0']
    sp['shape'] = 'rand'
    sp['comps'] = [1, 2, 3]
    sp['zero_cells'] = []
    sp['zero_pin_cells'] = []
    sp['total'] = max(sp['total'], 1e4)
    if rng.random() < 0.5:
        wl.add_pin_model(rng, P, 'a', kind='pin')
    key = {'gap': P['gap_model'], 'tdep': tdep, 'nr': feats['nr'],
           'n_duct': feats['n_duct'],
           'wire': P['types']['a']['wire_direction']}
    with drive.scratch() as d:
        inp, r0 = drive.build(P, d, max_steps=MAX_STEPS)
        a0 = r0.assemblies[0]
        perms = {}
        for k in range(1, 6):
            perms[k] = assembly_perms(a0, -k * np.pi / 3)
        pmir = assembly_perms(a0, 0.0, mirror=True)
        pl0 = {}
        drive.sweep(r0, on_step=plane_recorder(r0, pl0))
        f0 = final_fields(r0.assemblies[0])
        g0 = r0.core.coolant_gap_temp.copy() if r0.core.model else None
        z0 = r0.z.copy()
    spread = max(float(np.max(f[0]['cool']) - np.min(f[0]['cool']))
                 for f in pl0.values())
    ks = [1, 2, 3, 4, 5] if case.get('all_k', True) else [1]
    for k in ks:
        Q = copy.deepcopy(P)
        Q['power']['asm']['0']['perm'] = spec_perm(perms[k])
        with drive.scratch() as d:
            inp, r1 = drive.build(Q, d, max_steps=MAX_STEPS)
            pl1 = {}
            drive.sweep(r1, on_step=plane_recorder(r1, pl1))
            f1 = final_fields(r1.assemblies[0])
            g1 = r1.core.coolant_gap_temp.copy() if r1.core.model else None
        compare(res, 'R1_rotated_assembly_fields', f0, f1, perms[k],
                dict(key, k=k))
        if len(r1.z) == len(z0) and np.array_equal(r1.z, z0):
            for n in sorted(pl0):
                compare(res, 'R1_rotated_assembly_fields', pl0[n][0],
                        pl1[n][0], perms[k], dict(key, k=k, plane=n))
        if g0 is not None:
            # lone assembly: its gap ring is rotated by k sides as well
            n = len(g0)
            if n % 6 == 0:
                per = n // 6
                w = float(np.max(np.abs(np.roll(g0, k * per) - g1)))
                res.check('R1g_rotated_gap_ring', w <= TOLK,
                          'gap ring of a lone assembly not rotated with the '
                          'power map (%.3e K)' % w, dict(key, k=k))
    # mirror + reversed wire direction
    Q = copy.deepcopy(P)
    Q['power']['asm']['0']['perm'] = spec_perm(pmir)
    wd = Q['types']['a']['wire_direction']
    Q['types']['a']['wire_direction'] = ('clockwise' if wd ==
                                         'counterclockwise'
                                         else 'counterclockwise')
    with drive.scratch() as d:
        inp, r1 = drive.build(Q, d, max_steps=MAX_STEPS)
        pl1 = {}
        drive.sweep(r1, on_step=plane_recorder(r1, pl1))
        f1 = final_fields(r1.assemblies[0])
    compare(res, 'R2_mirrored_assembly_fields', f0, f1, pmir, key)
    if len(r1.z) == len(z0) and np.array_equal(r1.z, z0):
        for n in sorted(pl0):
            compare(res, 'R2_mirrored_assembly_fields', pl0[n][0], pl1[n][0],
                    pmir, dict(key, plane=n))
    for reg in a0.region:
        res.tag('region:' + ('rodded' if reg.is_rodded else reg.model))
    res.tag('gap=' + P['gap_model'])
    res.tag('wire=' + wd)
    res.tag('n_duct=%d' % feats['n_duct'])
    res.tag('tdep=%s' % tdep)
    res.stat('field_spread_K', spread)
    if spread > 1.0:
        res.nontrivial(repr((feats['nr'], feats['n_duct'], wd,
                             P['gap_model'], tdep, feats['corr'])))
    return feats


_XY = {}


def position_xy(n_ring):
    """Assembly centre coordinates of the full lattice (from DASSH)."""
    if n_ring in _XY:
        return _XY[n_ring]
    rng = np.random.default_rng(1)
    P = gen.base_problem(length=0.05, gap_model='none')
    P['types']['s'] = gen.make_type(rng, 2, 0.1175,
                                    duct_material='steel_const')
    npos = 3 * (n_ring - 1) * n_ring + 1
    for k0 in range(npos):
        ring, pos = gen.ring_pos(k0)
        gen.add_position(P, 's', ring, pos, velocity=1.0, dT=1.0,
                         shape='flat', comps=[1])
    with drive.scratch() as d:
        inp, r = drive.build(P, d)
        xy = np.array(r.core.map_assembly_xy(), dtype=float)
    _XY[n_ring] = xy
    return xy


def gap_sides(core, ai):
    """Gap temperatures around assembly ai split into its six sides (each
    side ends with the corner cell that follows it)."""
    adj = core._asm_sc_adj[ai]
    typ = core._asm_sc_types[ai]
    t = core.coolant_gap_temp[adj[adj > 0] - 1]
    out, cur = [], []
    for v, ty in zip(t, typ):
        cur.append(v)
        if ty == 1:
            out.append(np.array(cur))
            cur = []
    return out


def run_core(case, res):
    rng = np.random.default_rng(case['seed'])
    n_ring = case.get('n_ring', 2)
    tdep = rng.random() < 0.4
    gap = wl.choose(rng, ['flow', 'flow', 'no_flow', 'duct_average', 'none'])
    # the low-flow wall approximation, with flows such that some assemblies
    # fall under the cut-off and others do not
    ca = bool(rng.random() < 0.35)
    P, feats = wl.core_problem(rng, n_ring=n_ring, tdep=tdep, gap=gap,
                               empty_frac=(0.25 if rng.random() < 0.7
                                           else 0.0),
                               max_rings=(4 if n_ring == 2 else 3),
                               length=0.25, lf_frac=0.0, regions_frac=0.35,
                               dd_frac=0.25,
                               vel_range=((0.03, 5.0) if ca else (0.3, 5.0)),
                               conv_approx=(1.0 if ca else 0.0))
    if rng.random() < 0.5:
        P['setup']['param_update_tol'] = float(wl.choose(rng, [1e-3, 0.01]))
    k = int(rng.integers(1, 6))
    ang = -k * np.pi / 3
    key = {'gap': gap, 'tdep': tdep, 'n_ring': n_ring, 'k': k,
           'ptol': P['setup'].get('param_update_tol', 0.0)}
    ppos = perm_from_xy(position_xy(n_ring), ang)
    with drive.scratch() as d:
        inp, r0 = drive.build(P, d, max_steps=MAX_STEPS)
        perms = {}
        for a in r0.assemblies:
            perms[a.id] = assembly_perms(a, ang)
        pl0 = {}
        drive.sweep(r0, on_step=plane_recorder(r0, pl0))
        f0 = {a.id: final_fields(a) for a in r0.assemblies}
        flags0 = sorted((a.id, bool(a.rodded._conv_approx))
                        for a in r0.assemblies)
        for a in r0.assemblies:
            for reg in a.region:
                res.tag('region:' + ('rodded' if reg.is_rodded
                                     else reg.model))
        s0 = ({a.id: gap_sides(r0.core, i)
               for i, a in enumerate(r0.assemblies)}
              if r0.core.model else None)
        z0 = r0.z.copy()
    # rotated loading pattern
    Q = copy.deepcopy(P)
    Q['positions'] = []
    Q['power']['asm'] = {}
    for a in P['positions']:
        i = gen.pos_index0(a['ring'], a['pos'])
        j = int(ppos[i])
        ring, pos = gen.ring_pos(j)
        Q['positions'].append(dict(a, ring=ring, pos=pos))
        sp = copy.deepcopy(P['power']['asm'][str(i)])
        sp['seed_k0'] = sp.get('seed_k0', i)
        sp['perm'] = spec_perm(perms[i])
        Q['power']['asm'][str(j)] = sp
    Q['positions'].sort(key=lambda a: gen.pos_index0(a['ring'], a['pos']))
    with drive.scratch() as d:
        inp, r1 = drive.build(Q, d, max_steps=MAX_STEPS)
        same_mesh = (len(r1.z) == len(z0) and np.array_equal(r1.z, z0))
        res.check('R0_same_axial_mesh', same_mesh,
                  'rotated core is solved on a different axial mesh', key)
        pl1 = {}
        drive.sweep(r1, on_step=plane_recorder(r1, pl1))
        f1 = {a.id: final_fields(a) for a in r1.assemblies}
        flags1 = {a.id: bool(a.rodded._conv_approx) for a in r1.assemblies}
        bad = [(i, f, flags1[int(ppos[i])]) for i, f in flags0
               if flags1[int(ppos[i])] != f]
        res.check('R0b_same_wall_treatment', not bad,
                  'an assembly and its image are not solved with the same '
                  'wall treatment (low-flow approximation on/off): %r' % bad,
                  key)
        res.tag('conv_approx_tripped=%d_of_%d' % (
            sum(f for _, f in flags0), len(flags0)) if ca else
            'conv_approx=off')
        s1 = ({a.id: gap_sides(r1.core, i)
               for i, a in enumerate(r1.assemblies)}
              if r1.core.model else None)
    spread = 0.0
    for i in f0:
        j = int(ppos[i])
        compare(res, 'R3_rotated_core_assembly_fields', f0[i], f1[j],
                perms[i], key)
        if same_mesh:
            for n in sorted(pl0):
                compare(res, 'R3_rotated_core_assembly_fields', pl0[n][i],
                        pl1[n][j], perms[i], dict(key, plane=n))
        spread = max(spread, float(np.max(f0[i]['cool'])
                                   - np.min(f0[i]['cool'])))
        if s0 is not None:
            w = 0.0
            ok = True
            for s in range(6):
                va, vb = s0[i][s], s1[j][(s + k) % 6]
                if len(va) != len(vb):
                    ok = False
                    break
                w = max(w, float(np.max(np.abs(va - vb))))
            res.stat('R4_rotated_core_gap_fields_max_K', w)
            res.check('R4_rotated_core_gap_fields', ok and w <= TOLK,
                      'gap temperatures around assembly %d are not the '
                      'rotated ones around its image (max %.3e K)' % (i, w),
                      key)
    if s0 is None:
        res.count('R4_rotated_core_gap_fields', 0)
    res.tag('gap=' + gap)
    res.tag('n_ring=%d' % n_ring)
    res.tag('n_asm=%d' % feats['n_asm'])
    res.tag('tdep=%s' % tdep)
    res.stat('field_spread_K', spread)
    if spread > 1.0 and feats['n_asm'] >= 2:
        res.nontrivial(repr((feats['types'], feats['n_asm'], gap, k, tdep,
                             case['seed'][-1])))
    return feats


def run_case(case):
    res = Result(case)
    try:
        feats = (run_asm if case['kind'] == 'asm' else run_core)(case, res)
        res.sample({'case': case, 'features': feats})
    except drive.Rejected as e:
        res.status('rejected', str(e))
        res.tag('rejected:' + e.stage)
    return res


def classify(v, case):
    return None
