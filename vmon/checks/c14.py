"""C14 - pressure drop is non-negative, additive and step-size independent."""
import numpy as np
from vmon import gen, drive, workloads as wl, env
from vmon.harness import Result
from vmon.probe import Hooks

dassh = env.import_dassh()
from dassh.assembly import Assembly                 # noqa: E402
from dassh.region_rodded import RoddedRegion        # noqa: E402

PROPERTY = 'C14'
LEVEL = 'exploration'
TECHNIQUE = ('runtime monitoring: event log of pressure-drop increments at '
             'wrapper hooks (Assembly.calculate, '
             'calculate_spacergrid_pressure_drop), offline exactly-once '
             'matching of spacer grids, closed-form comparison and '
             'step-size metamorphic pairs')
LEVEL_TEXT = ('For generated bundles (all friction correlations, flow rates, '
              'grid counts/positions incl. positions that coincide with '
              'axial planes, gravity on/off, multi-region assemblies, several '
              'assemblies per type) every increment is >= 0, the total is '
              'the sum of parts and regions, equals the closed forms for '
              'constant properties and does not depend on the step size; '
              'each grid is matched by exactly one loss event. Held on the '
              'executions observed.')
LEVEL_NOTE = ('Friction factor, velocity and grid loss coefficient are the '
              'static values DASSH publishes (their correctness is C12); the '
              'oracle checks how they are accumulated.')
DESIGN_REF = 'DESIGN.md section 3, C14'
RULE = ('random single assemblies with 0-4 spacer grids (loss coefficient or '
        'REH/CDD correlation), gravity on/off, axial regions, each run at the '
        'default step, half, third and a dyadic step whose planes hit '
        'dyadic grid coordinates; small cores with 2-7 assemblies sharing '
        'types incl. six-node regions; non-trivial when pressure drop > 0 '
        'and >= 2 step sizes compared; distinct by (grids, gravity, regions, '
        'friction correlation)')
RULE += (' Later rounds added: inputs in user units, cores with up to three types, top regions one step thick, the pressure-drop table and pressure_drop.csv rows.')
DECIDING = ['DP1_increments_nonnegative', 'DP2_sum_of_parts',
            'DP3_friction_closed_form', 'DP5_step_size_independent',
            'DP4_each_grid_exactly_once']
CASE_TIMEOUT = {'quick': 240, 'thorough': 900}
BUDGET = {'quick': 700, 'thorough': 3300}
ASSUMPTIONS = ['constant properties for closed forms and step independence']
MAX_STEPS = 8000
G = 9.80665


def cases(tier, seed):
    out = []
    n = 96 if tier == 'quick' else 1500
    for i in range(n):
        out.append({'name': 'steps-%d' % i, 'kind': 'steps',
                    'seed': [seed, 141, i]})
    n = 12 if tier == 'quick' else 300
    for i in range(n):
        out.append({'name': 'core-%d' % i, 'kind': 'core',
                    'seed': [seed, 142, i]})
    n = 10 if tier == 'quick' else 300
    for i in range(n):
        out.append({'name': 'tdep-%d' % i, 'kind': 'tdep',
                    'seed': [seed, 143, i]})
    return out


def add_grids(rng, P, tname, dyadic):
    t = P['types'][tname]
    regs = t.get('AxialRegion', {})
    lo = max([0.0] + [v['z_hi'] for k, v in regs.items()
                      if k.startswith('lo')])
    hi = min([P['length']] + [v['z_lo'] for k, v in regs.items()
                              if k.startswith('up')])
    n = int(rng.integers(1, 5))
    zs = set()
    tries = 0
    while len(zs) < n and tries < 50:
        tries += 1
        if dyadic == 'cm':
            # whole centimetres: planes of the default 1 cm step
            z = float(rng.integers(1, int(round(P['length'] / 0.01)))) * 0.01
        elif dyadic:
            z = float(rng.integers(1, 128)) / 128.0 * P['length']
        else:
            z = float(np.round(rng.uniform(lo, hi), 4))
        if lo + 1e-6 < z < hi - 1e-6:
            zs.add(z)
    if not zs:
        return []
    # the input format does not ask for an ascending list: half of the
    # inputs give the grids in another order
    order = sorted(zs)
    if len(order) > 1 and rng.random() < 0.5:
        order = [order[i] for i in rng.permutation(len(order))]
    sg = {'axial_positions': order}
    mode = wl.choose(rng, ['loss', 'REH', 'CDD'])
    if mode == 'loss':
        sg['loss_coeff'] = float(rng.uniform(0.3, 3.0))
    else:
        sg['corr'] = mode
        sg['solidity'] = float(rng.uniform(0.1, 0.5))
    t['SpacerGrid'] = sg
    return sorted(zs)


def pick_units(rng, frac=0.4):
    """Some inputs are written in user units (the oracle keeps the SI
    problem)."""
    if rng.random() >= frac:
        return None
    from vmon.oracle import c17_units as U
    return U.Units(length=wl.choose(rng, ['cm', 'in', 'mm', 'ft']),
                   temp=wl.choose(rng, ['K', 'C', 'F']),
                   mass=wl.choose(rng, ['kg', 'lb']),
                   time=wl.choose(rng, ['s', 'hr', 'min']))


def observe(P, res, key, collect_events=True, units=None):
    """Sweep once; return per-assembly pressure-drop data and grid events."""
    events = {}
    incs = {'neg': 0, 'n': 0}
    last = {}

    def grid_post(args, kwargs, val, tok):
        reg = args[0]
        z, dz = args[1], args[2]
        events.setdefault(id(reg), []).append((float(z), float(dz),
                                               float(val)))

    def calc_pre(args, kwargs):
        a = args[0]
        reg = a.active_region
        return (reg, dict(reg._pressure_drop), float(a.pressure_drop))

    def calc_post(args, kwargs, r_, tok):
        reg, before, tot0 = tok
        a = args[0]
        for k, v in reg._pressure_drop.items():
            d = v - before[k]
            incs['n'] += 1
            if not (d >= 0.0):
                incs['neg'] += 1
        if not (a.pressure_drop - tot0 >= -1e-12 * abs(tot0)):
            incs['neg'] += 1

    Q = dict(P)
    Q['setup_sub'] = dict(P.get('setup_sub', {}))
    # the pressure-drop dump file is a report too
    Q['setup_sub']['Dump'] = {'pressure_drop': True, 'interval': 0.0}
    if units is not None:
        from vmon.oracle import c17_units as U
        Q = U.convert_problem(Q, units)
        res.tag('units=' + units.name)
    with drive.scratch() as d, Hooks() as hk:
        inp, r = drive.build(Q, d, max_steps=MAX_STEPS)
        hk.wrap(RoddedRegion, 'calculate_spacergrid_pressure_drop',
                post=grid_post)
        hk.wrap(Assembly, 'calculate', pre=calc_pre, post=calc_post)
        drive.sweep(r)
        out = []
        for a in r.assemblies:
            parts = {'friction': 0.0, 'spacer_grid': 0.0, 'gravity': 0.0}
            regs = []
            for reg in a.region:
                for k, v in reg._pressure_drop.items():
                    parts[k] += float(v)
                info = {'rodded': bool(reg.is_rodded),
                        'dp': {k: float(v)
                               for k, v in reg._pressure_drop.items()},
                        'z': [float(reg.z[0]), float(reg.z[1])],
                        'rho': float(reg.coolant.density)}
                if reg.is_rodded:
                    sg_in = P['types'].get(a.name, {}).get('SpacerGrid') or {}
                    info['grid_z_input'] = [
                        float(z) for z in sg_in.get('axial_positions', [])
                        if float(reg.z[0]) < float(z) <= float(reg.z[1])]
                    info['K_input'] = sg_in.get('loss_coeff')
                    info.update({
                        'ff': float(reg.coolant_int_params['ff']),
                        'vel': float(reg.coolant_int_params['vel']),
                        'de': float(reg.bundle_params['de']),
                        'area': float(reg.bundle_params['area']),
                        'mdot': float(reg.int_flow_rate),
                        'K': (float(reg.coolant_int_params[
                            'grid_loss_coeff'])
                            if 'grid' in reg.corr_constants else None),
                        'grid_z': (list(reg.corr_constants['grid']['z'])
                                   if 'grid' in reg.corr_constants else []),
                        'events': events.get(id(reg), [])})
                else:
                    info.update({
                        'ff': float(reg.coolant_params['ff']),
                        'vel': float(reg.coolant_params['vel']),
                        'de': float(reg._rr_equiv.bundle_params['de']
                                    if reg._rr_equiv is not None
                                    else reg._params['de']),
                        'model': reg.model})
                regs.append(info)
            out.append({'id': a.id, 'name': a.name,
                        'total': float(a.pressure_drop), 'parts': parts,
                        'regions': regs, 'flow': float(a.flow_rate)})
        check_table(res, r, key)
        check_dump(res, r, key)
        res.check('DP1_increments_nonnegative', incs['neg'] == 0,
                  '%d negative pressure-drop increments' % incs['neg'], key)
        res.count('dp_increments_seen', incs['n'])
        return out, float(np.max(r.dz)), float(r.req_dz), list(r.z)


def check_table(res, r, key):
    """The pressure-drop table of the output file: every row shows the
    values of its own assembly (total, friction, spacer grids, gravity, per
    region; a dash where there is none) and the parts add up."""
    import re
    n_regions = max(len(a.region) for a in r.assemblies)
    with drive.quiet():
        txt = dassh.table.PressureDropTable(n_regions).generate(r)
    rows = [re.sub(r'\(\s*\d+,\s*\d+\)', 'LOC', ln).split()
            for ln in txt.splitlines() if re.match(r'^\s*\d+\s', ln)]

    def num(x):
        return 0.0 if x == '---' else float(x) * 1e6
    for i, a in enumerate(r.assemblies):
        row = [x for x in rows if int(x[0]) == i + 1]
        if len(row) != 1:
            res.check('DP6_table_row', False, 'assembly %d has %d rows in '
                      'the pressure-drop table' % (i + 1, len(row)), key)
            continue
        x = row[0]
        tot, fr, sg, gr = x[3], x[4], x[5], x[6]
        regs = x[7:7 + len(a.region)]
        want_sg = sum(float(g._pressure_drop.get('spacer_grid', 0.0))
                      for g in a.region)
        want_fr = sum(float(g._pressure_drop['friction']) for g in a.region)
        want_gr = sum(float(g._pressure_drop['gravity']) for g in a.region)
        scale = abs(float(a.pressure_drop)) + 1e-9

        def near(got, want, n=1):
            # five significant digits per printed entry: half a unit of the
            # last digit for each of the n entries that enter the comparison
            return abs(got - want) <= 6e-5 * n * scale
        ok = near(num(tot), float(a.pressure_drop))
        if a.has_rodded:
            ok = ok and near(num(fr), want_fr) and near(num(sg), want_sg) \
                and near(num(gr), want_gr) and (sg == '---') == (
                    want_sg == 0.0) and near(num(fr) + num(sg) + num(gr),
                                             num(tot) if r._options[
                                                 'include_gravity'] else
                                             num(tot) - want_gr + num(gr),
                                             n=4)
        ok = ok and len(regs) == len(a.region) and all(
            near(num(v), float(g.pressure_drop))
            for v, g in zip(regs, a.region)) and near(
                sum(num(v) for v in regs), num(tot), n=len(regs) + 1)
        res.check('DP6_table_row', bool(ok),
                  'pressure-drop table row of assembly %d (%s) disagrees '
                  'with its own values or does not add up: %r; total %.6e, '
                  'friction %.6e, grids %.6e, gravity %.6e, regions %r'
                  % (i + 1, a.name, x[3:], float(a.pressure_drop), want_fr,
                     want_sg, want_gr,
                     [float(g.pressure_drop) for g in a.region]),
                  dict(key, mech='table'))


def check_dump(res, r, key):
    """pressure_drop.csv: every dumped row adds up (total = friction +
    spacer grids + gravity) and the last row of every assembly shows the
    values the assembly ends with."""
    import os
    path = os.path.join(r.path, 'pressure_drop.csv')
    if not os.path.exists(path):
        res.count('DP7_dump_file_absent')
        return
    try:
        tab = np.atleast_2d(np.loadtxt(path, delimiter=','))
    except Exception as e:     # noqa
        res.check('DP7_dump_rows', False, 'pressure_drop.csv unreadable: %s'
                  % e, key)
        return
    if tab.size == 0 or tab.shape[1] < 7:
        res.count('DP7_dump_file_absent')
        return
    tot, fr, sg, gr = tab[:, 3], tab[:, 4], tab[:, 5], tab[:, 6]
    sc = np.abs(tot) + 1e-9
    bad = np.abs(tot - (fr + sg + gr)) > 1e-9 * sc
    res.check('DP7_dump_rows', not bool(np.any(bad)),
              '%d of %d rows of pressure_drop.csv do not add up (first: '
              'total %.6e, friction %.6e, grids %.6e, gravity %.6e at row %d)'
              % (int(np.sum(bad)), len(tot),
                 float(tot[bad][0]) if np.any(bad) else 0.0,
                 float(fr[bad][0]) if np.any(bad) else 0.0,
                 float(sg[bad][0]) if np.any(bad) else 0.0,
                 float(gr[bad][0]) if np.any(bad) else 0.0,
                 int(np.argmax(bad))), dict(key, mech='dump_rows'))
    # monotone: no part of any assembly ever decreases from row to row
    for a in r.assemblies:
        rows = tab[tab[:, 0] == a.id] if np.any(tab[:, 0] == a.id) else None
        if rows is None or len(rows) == 0:
            continue
        last = rows[-1]
        want = [float(a.pressure_drop)] + [
            sum(float(g._pressure_drop.get(k, 0.0)) for g in a.region)
            for k in ('friction', 'spacer_grid', 'gravity')]
        ok = all(abs(last[3 + j] - want[j]) <= 1e-9 * (abs(want[0]) + 1e-9)
                 for j in range(4)) and bool(np.all(np.diff(rows[:, 3:7],
                                                            axis=0) >= -1e-9))
        res.check('DP7_dump_rows', ok,
                  'last row of pressure_drop.csv for assembly %d is %r, the '
                  'assembly ends with %r (or a column decreases)'
                  % (a.id, [float(v) for v in last[3:7]], want),
                  dict(key, mech='dump_last_row'))


def check_static(res, data, P, key, const_props, gravity):
    L = P['length']
    for a in data:
        tot_parts = sum(a['parts'].values())
        res.close('DP2_sum_of_parts', a['total'] - tot_parts,
                  abs(a['total']) + 1e-9, 1e-12,
                  'assembly pressure drop != friction + grid + gravity '
                  'summed over regions', key)
        if not const_props:
            continue
        for rg in a['regions']:
            Lr = rg['z'][1] - rg['z'][0]
            exp_f = rg['ff'] * Lr * rg['rho'] * rg['vel'] ** 2 / (
                2.0 * rg['de'])
            res.close('DP3_friction_closed_form',
                      rg['dp']['friction'] - exp_f, abs(exp_f) + 1e-12, 1e-9,
                      'region friction loss != f L rho v^2 / (2 De)',
                      dict(key, rodded=rg['rodded'],
                           model=rg.get('model', 'rodded')),
                      {'got': rg['dp']['friction'], 'exp': exp_f,
                       'asm': a['id']})
            if rg['rodded']:
                v_ind = rg['mdot'] / rg['rho'] / rg['area']
                res.close('DP3v_velocity', rg['vel'] - v_ind, v_ind, 1e-12,
                          'bundle velocity != mdot / (rho A)', key)
            if gravity:
                res.close('DP3g_gravity_closed_form',
                          rg['dp']['gravity'] - rg['rho'] * G * Lr,
                          rg['rho'] * G * Lr, 1e-9,
                          'region gravity head != rho g L', key)
            else:
                res.check('DP3g_gravity_off', rg['dp']['gravity'] == 0.0,
                          'gravity head accumulated although switched off',
                          key)
            if rg['rodded'] and (rg['grid_z'] or rg.get('grid_z_input')):
                # the grids are those of the INPUT (the region's own list
                # only says what DASSH kept of them)
                zin = rg.get('grid_z_input', rg['grid_z'])
                ok_list = sorted(np.round(zin, 9)) == sorted(
                    np.round(rg['grid_z'], 9))
                res.check('DP4_region_holds_the_input_grids', bool(ok_list)
                          and rg['K'] is not None,
                          'bundle region holds grids %r (loss coefficient '
                          '%r), the input gives %r' % (rg['grid_z'], rg['K'],
                                                       zin),
                          dict(key, mech='grid_list'))
                K = rg['K_input'] if rg.get('K_input') is not None \
                    else (rg['K'] or 0.0)
                exp_g = len(zin) * K * rg['rho'] \
                    * rg['vel'] ** 2 / 2.0
                on_plane = False
                res.close('DP4_grid_closed_form',
                          rg['dp']['spacer_grid'] - exp_g,
                          abs(exp_g) + 1e-12, 1e-9,
                          'spacer-grid loss != one K rho v^2/2 per grid '
                          '(%d grids)' % len(zin),
                          dict(key, mech='grid_count'),
                          {'got': rg['dp']['spacer_grid'], 'exp': exp_g})


def check_grid_events(res, data, zplanes, key, utol=1e-9):
    """Offline exactly-once over the recorded loss events of each bundle:
    every grid lies in the closed interval of at least one loss event, no
    loss event is without a grid, and the events carry exactly as many loss
    units as there are grids (so none is counted twice)."""
    zp = np.asarray(zplanes)
    for a in data:
        for rg in a['regions']:
            if not rg['rodded'] or not rg['grid_z']:
                continue
            unit = rg['K'] * rg['rho'] * rg['vel'] ** 2 / 2.0
            ev = [(z, dz, val) for (z, dz, val) in rg['events'] if val > 0.0]
            units = 0
            for (z, dz, val) in ev:
                n_in = sum(1 for zg in rg['grid_z']
                           if z - dz - 1e-9 <= zg <= z + 1e-9)
                u = val / unit if unit > 0 else 0.0
                units += int(round(u))
                res.check('DP4_no_phantom_loss_event',
                          n_in >= 1 and abs(u - round(u)) < utol
                          and round(u) <= n_in,
                          'loss event at z=%.6f carries %.3f units but %d '
                          'grids lie in its step' % (z, u, n_in), key)
            for zg in rg['grid_z']:
                on_plane = bool(np.any(np.abs(zp - zg) < 1e-10))
                n = sum(1 for (z, dz, val) in ev
                        if z - dz - 1e-9 <= zg <= z + 1e-9)
                res.check('DP4_each_grid_exactly_once', n >= 1,
                          'spacer grid at z=%.6f is matched by no loss event'
                          % zg, dict(key, on_plane=on_plane,
                                     mech=('grid_on_axial_plane' if on_plane
                                           else 'grid_inside_step')),
                          {'z_grid': zg})
                res.tag('grid_on_plane=%s' % on_plane)
            res.check('DP4_each_grid_exactly_once',
                      units == len(rg['grid_z']),
                      '%d grids but %d loss units recorded'
                      % (len(rg['grid_z']), units),
                      dict(key, mech='unit_count'))


def run_steps(case, res):
    rng = np.random.default_rng(case['seed'])
    dyadic = rng.random() < 0.5
    P, feats = wl.single_assembly(
        rng, tdep=False, max_rings=5, length=1.0, gap='none',
        lf=(rng.random() < 0.1), regions=(rng.random() < 0.4),
        vel=wl.loguniform(rng, 0.2, 6.0), n_duct=1)
    for t in P['types'].values():
        t['duct_material'] = 'steel_const'
    gravity = rng.random() < 0.5
    if gravity:
        P['setup']['include_gravity_head_loss'] = True
    grids = []
    if not P['types']['a'].get('use_low_fidelity_model'):
        grids = add_grids(rng, P, 'a', dyadic if dyadic or rng.random() < 0.5
                          else 'cm')
    thin = None
    if rng.random() < 0.2:
        # a top region that gets the last axial step only
        thin = wl.thin_top_region(rng, P, 'a')
    feats['thin_top'] = thin
    key = {'gravity': gravity, 'dyadic': dyadic, 'n_grid': len(grids)}
    P['setup'].pop('axial_mesh_size', None)
    units = pick_units(rng, 0.3)
    base, dzmax, req, zpl = observe(P, res, key, units=units)
    check_static(res, base, P, key, True, gravity)
    check_grid_events(res, base, zpl, key)
    variants = [0.5, 1.0 / 3.0]
    sizes = [req * v for v in variants]
    if dyadic:
        sizes.append(P['length'] / 128.0 if P['length'] / 128.0 <= req
                     else P['length'] / 256.0)
    ncmp = 0
    for dz in sizes:
        if dz <= 0 or P['length'] / dz > MAX_STEPS:
            continue
        P2 = dict(P)
        P2['setup'] = dict(P['setup'])
        P2['setup']['axial_mesh_size'] = float(dz)
        data, dzm, req2, zpl2 = observe(P2, res, key, units=units)
        check_static(res, data, P2, key, True, gravity)
        check_grid_events(res, data, zpl2, key)
        for a0, a1 in zip(base, data):
            for part in ('friction', 'gravity', 'spacer_grid'):
                sc = abs(a0['parts'][part]) + 1e-9
                res.close('DP5_step_size_independent',
                          a1['parts'][part] - a0['parts'][part], sc, 1e-9,
                          '%s pressure drop changes with the axial step '
                          '(dz %.6g vs %.6g)' % (part, dzm, dzmax),
                          dict(key, part=part), {'dz': dz})
        ncmp += 1
    feats['grids'] = grids
    feats['gravity'] = gravity
    res.tag('gravity=%s' % gravity)
    res.tag('n_grid=%d' % len(grids))
    res.tag('regions=%d' % len(feats.get('regions') or []))
    res.tag('thin_top_region=%s' % thin)
    if base[0]['total'] > 0 and ncmp >= 2:
        res.nontrivial(repr((feats['nr'], feats['corr'], len(grids), gravity,
                             feats.get('regions'), dyadic)))
    return feats


def run_core(case, res):
    """Several assemblies per type: each must report its own pressure drop."""
    rng = np.random.default_rng(case['seed'])
    P, feats = wl.core_problem(rng, n_ring=2, n_types=int(rng.integers(1, 4)),
                               tdep=False, gap=wl.choose(rng, ['none',
                                                               'flow']),
                               empty_frac=0.1, max_rings=4, length=0.5,
                               lf_frac=0.2, regions_frac=0.7, dd_frac=0.0,
                               vel_range=(0.3, 5.0))
    for t in P['types'].values():
        t['duct_material'] = 'steel_const'
    gravity = rng.random() < 0.5
    if gravity:
        P['setup']['include_gravity_head_loss'] = True
    ngr = 0
    for tn, t in P['types'].items():
        if not t.get('use_low_fidelity_model') and rng.random() < 0.7:
            ngr += len(add_grids(rng, P, tn, rng.random() < 0.5))
    key = {'gravity': gravity, 'core': True}
    data, dzmax, req, zpl = observe(P, res, key, units=pick_units(rng, 0.5))
    check_static(res, data, P, key, True, gravity)
    check_grid_events(res, data, zpl, key)
    names = [a['name'] for a in data]
    res.tag('core_grids=%d' % ngr)
    res.tag('core_same_type_with_grids=%s' % bool(
        ngr and any(names.count(n) > 1 and 'SpacerGrid' in P['types'][n]
                    for n in set(names))))
    n6 = sum(1 for a in data for rg in a['regions']
             if rg.get('model') == '6node')
    res.tag('sixnode_regions=%d' % n6)
    res.tag('n_asm=%d' % len(data))
    if len(data) >= 2:
        res.nontrivial(repr((feats['types'], feats['n_asm'], gravity)))
    return feats


def run_tdep(case, res):
    rng = np.random.default_rng(case['seed'])
    P, feats = wl.single_assembly(rng, coolant_pool=True,
                                  tdep=True, max_rings=5, length=0.5,
                                  vel=wl.loguniform(rng, 0.2, 6.0))
    gravity = rng.random() < 0.5
    if gravity:
        P['setup']['include_gravity_head_loss'] = True
    if not P['types']['a'].get('use_low_fidelity_model') and \
            rng.random() < 0.5:
        add_grids(rng, P, 'a', False)
    key = {'gravity': gravity, 'tdep': True}
    data, dzmax, req, zpl = observe(P, res, key, units=pick_units(rng, 0.3))
    check_static(res, data, P, key, False, gravity)
    # density varies along the sweep: loss units are only near-integers
    check_grid_events(res, data, zpl, key, utol=0.2)
    if data[0]['total'] > 0:
        res.nontrivial('tdep/%s/%s/%s' % (feats['nr'], feats['corr'],
                                          gravity))
    return feats


def run_case(case):
    res = Result(case)
    try:
        feats = {'steps': run_steps, 'core': run_core,
                 'tdep': run_tdep}[case['kind']](case, res)
        res.sample({'case': case, 'features': feats})
    except drive.Rejected as e:
        res.status('rejected', str(e))
        res.tag('rejected:' + e.stage)
    return res


def classify(v, case):
    return None
