"""C18 - impossible or inconsistent inputs are rejected before any
calculation; every accepted input can be set up and swept.

Every case renders a generated Problem to a real input file (+ power CSV),
then drives the REAL path  DASSH_Input -> Reactor -> axial sweep  and
classifies what happened (``observe``):

  ran           accepted, swept, all temperatures finite            (class 1)
  rejected      logged error message + SystemExit, and NOT ONE
                Assembly.calculate call before the exit             (class 2)
  rejected_late same, but temperatures had already been computed
  exit_silent   SystemExit without any logged error message
  exception:<T> any other exception escaping dassh                  (class 3)
  non_progress  the axial mesh construction does not advance
                (Reactor._check_dz returned a step <= 0) or would
                need more than MAX_MESH_CALLS steps                 (class 4)
  nonfinite     accepted and swept, but nan/inf temperatures        (class 5)

Part A: valid generated inputs (workloads.single_assembly / core_problem) and
        one valid option variant per case -> must be `ran`. DASSH's own
        error exits on such inputs (material temperature left its range or
        went non-positive during the sweep, pin-model iteration not
        converged, a clean rejection by the reader) are tagged
        `A_dassh_error_exit:<stage>` and are neither a pass nor a violation;
        meshes beyond the sweep cap are set up but not swept (tagged).
Part B: single-fault mutants of valid generated inputs. A mutant whose fault
        is one of the invalid classes named by the property must be
        `rejected` (expect = 'reject'); any other hostile mutant must be
        `rejected` or `ran` (expect = 'safe': acceptance implies a runnable
        problem). The unmutated base of every mutant is run first and must be
        `ran`, otherwise the mutant says nothing and is not counted.

Violations are keyed by (input key, fault class, mutator, outcome[, where]) -
never by seed. `classify` maps a key to the finding id of its mechanism
(FINDINGS below); `extra_coverage` writes the whole outcome table of the
catalogue into the evidence file.
"""
import os
import copy
import math
import traceback

import numpy as np

from vmon import env, gen, drive, workloads as wl
from vmon.harness import Result, CaseTimeout
from vmon.probe import Hooks

PROPERTY = 'C18'
LEVEL = 'fault_enumeration'
TECHNIQUE = ('runtime monitoring by fault enumeration: a catalogue of '
             'single-fault mutators (one per invalid class named in the '
             'property, applied key by key) over valid generated inputs, '
             'each driven through the real DASSH_Input -> Reactor -> sweep '
             'path with a call counter on Assembly.calculate and a '
             'progress guard on Reactor._check_dz; outcome classification')
LEVEL_TEXT = ('Every mutator of the catalogue (all dimensional keys x '
              '{zero, negative, nan, inf}, every named geometric / axial-'
              'region / assignment / name / power-file fault) is applied to '
              'several independently generated valid inputs and the outcome '
              'class of the real code is observed; every valid generated '
              'input and valid option variant is swept. Exhaustive over the '
              'catalogue, sampled over the base inputs.')
LEVEL_NOTE = ('The catalogue is finite and hand-enumerated from the input '
              'template and the property text: a fault class that is not in '
              'the catalogue is not covered. A mutant is only counted when '
              'its unmutated base input was observed to run. Non-progress is '
              'detected deterministically at Reactor._check_dz; the SIGALRM '
              'watchdog is only a backstop and its firing is inconclusive.')
DESIGN_REF = 'DESIGN.md section 3, C18'
RULE = ('Part A: workloads.single_assembly / core_problem over seeds plus '
        'one valid option variant per case (boundary-condition kind, spacer '
        'grid, fuel model, dummy pins, htc parameters, mesh size, dump, '
        'power normalisation ...); non-trivial when >= 10 axial steps were '
        'swept with finite temperatures; distinct by feature set. '
        'Part B: catalogue of single-fault mutators x base replicas; a case '
        'is non-trivial when its base ran and the mutant outcome was '
        'observed; distinct by mutator id. quick: 60 singles, 6 cores, 24 '
        'options x 3, 360 mutators x 3 bases (2 for seven-assembly bases, '
        'small bundles of 2-4 rings, 0.5 m); thorough: 1200 singles, 100 '
        'cores (up to 19 assemblies), options x 24, mutators x 24 on bases '
        'of 2-6 rings, plus the -inf literals.')
RULE += (' Later rounds added: legacy gap key faults, nan/inf literals inside lists, cores with an unassigned inner position, faults in the power table of a later assembly of a type, a second set-up of every accepted input.')
DECIDING = ['A_valid_input_runs', 'B_base_input_runs',
            'B_invalid_input_rejected', 'B_accepted_input_runs']
CASE_TIMEOUT = {'quick': 120, 'thorough': 400}
BUDGET = {'quick': 600, 'thorough': 3000}
EXHAUSTIVE = {'quick': False, 'thorough': False}
ASSUMPTIONS = ['the generated base inputs are valid (each is checked by '
               'running it)',
               'Assembly.calculate is the only place where temperatures '
               'are advanced',
               'a mesh of more than 2e5 axial steps is treated as '
               'non-progress']

MAX_MESH_CALLS = 200000
SQ3 = math.sqrt(3.0)


class NonProgress(Exception):
    pass


# ----------------------------------------------------------------------
# observation of one input


def _where(exc):
    """file:function of the innermost dassh frame of the traceback."""
    tb = traceback.extract_tb(exc.__traceback__)
    src = env.SRC
    pick = None
    for fr in tb:
        if os.path.abspath(fr.filename).startswith(src):
            pick = fr
    if pick is None and tb:
        pick = tb[-1]
    if pick is None:
        return '?'
    return '%s:%s' % (os.path.basename(pick.filename), pick.name)


def _nonfinite_temps(r):
    bad = []
    for a in r.assemblies:
        for j, reg in enumerate(a.region):
            for k, v in reg.temp.items():
                if not np.all(np.isfinite(np.asarray(v, dtype=float))):
                    bad.append('asm%d.region%d.%s' % (a.id, j, k))
            pt = getattr(reg, 'pin_temps', None)
            if pt is not None and not np.all(np.isfinite(
                    np.asarray(pt, dtype=float))):
                bad.append('asm%d.region%d.pin_temps' % (a.id, j))
        for nm in ('avg_coolant_temp', 'avg_coolant_int_temp',
                   'avg_duct_mw_temp'):
            try:
                v = getattr(a, nm)
            except Exception:
                continue
            if not np.all(np.isfinite(np.asarray(v, dtype=float))):
                bad.append('asm%d.%s' % (a.id, nm))
    core = getattr(r, 'core', None)
    if core is not None:
        for nm in ('coolant_gap_temp', 'avg_coolant_gap_temp'):
            try:
                v = getattr(core, nm)
            except Exception:
                continue
            if v is None:
                continue
            if not np.all(np.isfinite(np.asarray(v, dtype=float))):
                bad.append('core.' + nm)
    return bad


def observe(P, post=None, max_steps=None, P_csv=None, quiet_logging=False):
    """Render P, apply the optional file-level mutation, run the real path
    and classify. Returns a dict with at least 'outcome'."""
    import dassh
    o = {'outcome': None, 'stage': 'render', 'n_calc': 0, 'n_dz': 0,
         'msgs': [], 'where': None, 'steps': 0, 'exc': None}
    state = {'n': 0}

    def guard(args, kwargs, result, tok):
        state['n'] += 1
        try:
            step = float(result)
        except Exception:
            step = float('nan')
        if step != step:
            raise NonProgress('dz_nan')
        if not step > 0.0:
            raise NonProgress('dz<=0')
        if state['n'] > MAX_MESH_CALLS:
            raise NonProgress('>2e5_steps')

    with drive.scratch('c18_') as d, Hooks() as hk:
        hk.wrap(dassh.assembly.Assembly, 'calculate', label='calc')
        hk.wrap(dassh.reactor.Reactor, '_check_dz', post=guard, label='dz')
        path = os.path.join(d, 'input.txt')
        gen.write_power_csv(P if P_csv is None else P_csv,
                            os.path.join(d, 'power.csv'))
        with open(path, 'w') as f:
            f.write(gen.render_text(P, 'power.csv'))
        if post is not None:
            post(d, path)
        if quiet_logging:
            # a calling script may silence logging altogether; the error
            # exit of an invalid input must not depend on that
            import logging
            logging.disable(logging.CRITICAL)
        try:
            o['stage'] = 'input'
            inp = drive.read_input(path)
            o['stage'] = 'setup'
            r = drive.build_reactor(inp, write_output=True)
            o['steps'] = len(r.z) - 1
            if max_steps is not None and o['steps'] > max_steps:
                o['outcome'] = 'setup_only'
                return o
            o['stage'] = 'sweep'
            drive.sweep(r)
            # a run is complete when its results are written: hot-spot
            # analysis, summary tables, requested data tables
            o['stage'] = 'postprocess'
            env_ = __import__('vmon.env', fromlist=['x'])
            env_.log_records()
            try:
                with drive.quiet():
                    r.postprocess()
            except SystemExit:
                raise drive.Rejected('postprocess', env_.log_records())
            # an accepted input can be set up again (next time point,
            # orificing iteration): a second model from the same object
            o['stage'] = 'setup_again'
            drive.build_reactor(inp, write_output=False)
            o['stage'] = 'postprocess'
        except drive.Rejected as e:
            o['stage'] = e.stage
            o['n_calc'] = hk.n['calc']
            o['msgs'] = [m for lv, m in e.messages
                         if lv in ('ERROR', 'CRITICAL')]
            if not o['msgs'] and len(e.messages) >= 200:
                # env's capture buffer was full of warnings
                o['msgs'] = ['(log capture full before the exit)']
            if not o['msgs'] and quiet_logging:
                o['outcome'] = ('rejected_late' if o['n_calc'] > 0
                                else 'rejected')
            elif not o['msgs']:
                o['outcome'] = 'exit_silent'
            elif o['n_calc'] > 0:
                o['outcome'] = 'rejected_late'
            else:
                o['outcome'] = 'rejected'
        except NonProgress as e:
            o['outcome'] = 'non_progress:' + str(e)
        except CaseTimeout:
            raise
        except (KeyboardInterrupt, MemoryError):
            raise
        except Exception as e:   # the property is about these
            o['outcome'] = 'exception:' + type(e).__name__
            o['exc'] = ('%s: %s' % (type(e).__name__, e))[:300]
            o['where'] = _where(e)
        else:
            bad = _nonfinite_temps(r)
            if bad:
                o['outcome'] = 'nonfinite'
                o['where'] = bad[0]
            else:
                o['outcome'] = 'ran'
                try:
                    o['rise'] = float(max(a.avg_coolant_temp
                                          for a in r.assemblies)
                                      - P['inlet'])
                except Exception:
                    pass
        finally:
            if quiet_logging:
                import logging
                logging.disable(logging.NOTSET)
        o['n_calc'] = hk.n['calc']
        o['n_dz'] = hk.n['dz']
    return o


# ----------------------------------------------------------------------
# valid bases


NONBARE = [c for c in wl.SAFE_TRIPLES if c not in wl.BARE_TRIPLES]


def _fuel_model():
    return {'clad_material': 'ht9',
            'r_frac': [0.0, 0.33333, 0.66667],
            'pu_frac': [0.2, 0.2, 0.2],
            'zr_frac': [0.1, 0.1, 0.1],
            'porosity': [0.25, 0.25, 0.25],
            'gap_thickness': 0.0}


def _rod_bounds(P, tname):
    t = P['types'][tname]
    lo, hi = 0.0, P['length']
    for nm, rg in t.get('AxialRegion', {}).items():
        if nm.startswith('lo'):
            lo = max(lo, rg['z_hi'])
        else:
            hi = min(hi, rg['z_lo'])
    return lo, hi


def _grid(P, tname, rng, **kw):
    lo, hi = _rod_bounds(P, tname)
    n = int(rng.integers(1, 4))
    z = sorted(float(np.round(lo + (hi - lo) * x, 4))
               for x in rng.uniform(0.1, 0.9, n))
    d = {'axial_positions': z}
    d.update(kw)
    return d


def make_base(rng, needs=(), small=True):
    """A valid Problem satisfying `needs`; returns (P, feats, T) where T is
    the name of the assembly type of the first assigned position."""
    needs = set(needs)
    for attempt in range(60):
        if 'core2' in needs:
            P, f = wl.core_problem(
                rng, n_ring=2, n_types=int(rng.integers(2, 4)), tdep=False,
                gap=wl.choose(rng, ['flow', 'no_flow', 'none',
                                    'duct_average']),
                empty_frac=0.2, max_rings=3, length=0.5, lf_frac=0.0,
                regions_frac=0.0, dd_frac=0.3, vel_range=(1.0, 5.0))
            if len({a['type'] for a in P['positions']}) < 2:
                continue
            # common outward shift of every duct: the outer flat-to-flat
            # is not always the same round number
            shift = float(rng.uniform(0.0, 0.0015))
            for tt in P['types'].values():
                tt['duct_ftf'] = [x + shift for x in tt['duct_ftf']]
            f['kind'] = 'core'
            return P, f, P['positions'][0]['type']
        n_duct = 2 if 'duct2' in needs else wl.choose(rng, [1, 1, 2])
        gap = 'flow' if 'gapflow' in needs else wl.choose(
            rng, ['flow', 'no_flow', 'duct_average'] if 'gapwall' in needs
            else ['none', 'none', 'flow', 'no_flow', 'duct_average'])
        corr = wl.choose(rng, NONBARE) if 'wire' in needs else None
        if 'ctfric' in needs:
            corr = (wl.choose(rng, ['MIT', 'CTD', 'UCTD']),
                    wl.choose(rng, ['CTD', 'UCTD']),
                    wl.choose(rng, ['CTD', 'UCTD']))
        tdep = False if 'const' in needs else bool(rng.random() < 0.15)
        P, f = wl.single_assembly(
            rng, tdep=tdep, gap=gap, lf=('lf' in needs), regions=False,
            max_rings=4 if small else 6,
            length=0.5 if small else float(wl.choose(rng, [0.5, 1.0])),
            vel=(wl.loguniform(rng, 0.02, 0.2) if 'slow' in needs
                 else wl.loguniform(rng, 0.5, 5.0)),
            nr=(2 if 'nr2' in needs else None), n_duct=n_duct, corr=corr,
            conv_approx=True if 'conv_approx' in needs else None,
            byp=(wl.loguniform(rng, 0.02, 0.2) if 'duct2' in needs
                 else None))
        t = P['types']['a']
        if 'wire' in needs and not t['wire_diameter'] > 0.0:
            continue
        if 'ncell2' in needs and len(P['power']['zb']) < 3:
            continue
        if 'order1' in needs and P['power']['order'] < 1:
            continue
        nlo = 2 if 'lo2' in needs else (1 if 'lo1' in needs else 0)
        nup = 2 if 'up2' in needs else (1 if 'up1' in needs else 0)
        if nlo + nup == 0 and 'lf' not in needs and 'noreg' not in needs \
                and rng.random() < 0.25:
            nlo, nup = int(rng.integers(0, 2)), int(rng.integers(0, 2))
        if nlo + nup > 0:
            names = wl.add_axial_regions(rng, P, 'a', n_lower=nlo,
                                         n_upper=nup)
            if len(names) != nlo + nup:
                continue
            lo, hi = _rod_bounds(P, 'a')
            if hi - lo < 0.05 * P['length']:
                t.pop('AxialRegion', None)
                continue
        if 'fuel' in needs:
            t['FuelModel'] = _fuel_model()
            # the generated pins are fat: keep the pellet temperature rise
            # inside the range where DASSH's 10-sweep conductivity
            # iteration converges
            for sp in P['power']['asm'].values():
                sp['total'] *= 0.1
        if 'grid' in needs:
            t['SpacerGrid'] = _grid(P, 'a', rng, loss_coeff=1.2)
        f['kind'] = 'single'
        return P, f, 'a'
    raise RuntimeError('could not build a base for needs=%r' % (needs,))


# ----------------------------------------------------------------------
# Part A: valid option variants (each must still run)

OPTIONS = []


def option(name, needs=()):
    def deco(fn):
        OPTIONS.append({'id': name, 'needs': tuple(needs), 'fn': fn})
        return fn
    return deco


@option('none')
def _o_none(P, T, rng):
    return None


@option('bc_outlet_temp', needs=('pw_pos',))
def _o_bc_out(P, T, rng):
    for a in P['positions']:
        k0 = gen.pos_index0(a['ring'], a['pos'])
        dT = P['power']['asm'][str(k0)]['total'] / (a['flowrate'] * gen.CP)
        a['outlet_temp'] = P['inlet'] + max(dT, 5.0)
        a['flowrate'] = None


@option('bc_delta_temp', needs=('pw_pos',))
def _o_bc_dt(P, T, rng):
    for a in P['positions']:
        k0 = gen.pos_index0(a['ring'], a['pos'])
        dT = P['power']['asm'][str(k0)]['total'] / (a['flowrate'] * gen.CP)
        a['delta_temp'] = max(dT, 5.0)
        a['flowrate'] = None


@option('grid_loss_coeff', needs=('nolf',))
def _o_grid_k(P, T, rng):
    P['types'][T]['SpacerGrid'] = _grid(P, T, rng, loss_coeff=float(
        rng.uniform(0.3, 2.0)))


def _ct_split(P, T, rng, ct):
    """Flow-split correlation of the Cheng-Todreas family or not (friction
    follows, cross-family triples are F10's business)."""
    t = P['types'][T]
    if ct:
        t['corr_mixing'], t['corr_friction'], t['corr_flowsplit'] = (
            wl.choose(rng, ['MIT', 'CTD', 'UCTD']),
            wl.choose(rng, ['CTD', 'UCTD']), wl.choose(rng, ['CTD', 'UCTD']))
    else:
        t['corr_mixing'], t['corr_friction'], t['corr_flowsplit'] = (
            'MIT', wl.choose(rng, ['NOV', 'REH', 'ENG', 'CTS']),
            wl.choose(rng, ['NOV', 'SE2', 'MIT']))


@option('grid_REH_solidity', needs=('nolf', 'wire'))
def _o_grid_reh(P, T, rng):
    _ct_split(P, T, rng, True)
    P['types'][T]['SpacerGrid'] = _grid(P, T, rng, corr='REH',
                                        solidity=float(rng.uniform(0.1, 0.5)))


@option('grid_CDD_solidity', needs=('nolf', 'wire'))
def _o_grid_cdd(P, T, rng):
    _ct_split(P, T, rng, True)
    P['types'][T]['SpacerGrid'] = _grid(P, T, rng, corr='CDD',
                                        solidity=float(rng.uniform(0.1, 0.5)))


@option('grid_CDD_coefficients', needs=('nolf', 'wire'))
def _o_grid_cddc(P, T, rng):
    _ct_split(P, T, rng, True)
    P['types'][T]['SpacerGrid'] = _grid(
        P, T, rng, corr='CDD', solidity=float(rng.uniform(0.1, 0.5)),
        corr_coeff=[3.5, 73.14, -0.264, 2.79e10, -2.79, 2.0, 2.0])


@option('grid_corr_non_CT_flowsplit', needs=('nolf', 'wire'))
def _o_grid_nct(P, T, rng):
    _ct_split(P, T, rng, False)
    P['types'][T]['SpacerGrid'] = _grid(P, T, rng, corr=wl.choose(
        rng, ['REH', 'CDD']), solidity=float(rng.uniform(0.1, 0.5)))


@option('grid_corr_default_solidity', needs=('nolf', 'wire'))
def _o_grid_def(P, T, rng):
    _ct_split(P, T, rng, True)
    P['types'][T]['SpacerGrid'] = _grid(P, T, rng, corr=wl.choose(
        rng, ['REH', 'CDD']))


@option('fuel_model', needs=('nolf',))
def _o_fuel(P, T, rng):
    P['types'][T]['FuelModel'] = _fuel_model()
    for sp in P['power']['asm'].values():
        sp['total'] *= 0.1


@option('fuel_model_gap_material_closed_gap', needs=('nolf',))
def _o_fuel_gapmat0(P, T, rng):
    # a gap material may be named although the gap is closed (thickness 0)
    m = _fuel_model()
    P['materials']['gap_he_own'] = {'thermal_conductivity': [0.3]}
    m['gap_material'] = 'gap_he_own'
    m['gap_thickness'] = 0.0
    P['types'][T]['FuelModel'] = m
    for sp in P['power']['asm'].values():
        sp['total'] *= 0.1


@option('fuel_model_open_gap', needs=('nolf',))
def _o_fuel_gap(P, T, rng):
    m = _fuel_model()
    P['materials']['gap_he_own'] = {'thermal_conductivity': [0.3]}
    m['gap_material'] = 'gap_he_own'
    m['gap_thickness'] = float(rng.uniform(1e-5, 5e-5))
    P['types'][T]['FuelModel'] = m
    for sp in P['power']['asm'].values():
        sp['total'] *= 0.1


@option('pin_model', needs=('nolf',))
def _o_pinmodel(P, T, rng):
    P['materials']['pin_own'] = {'thermal_conductivity': [12.0]}
    m = {'clad_material': 'ht9', 'r_frac': [0.0, 0.5],
         'pin_material': ['pin_own', 'pin_own']}
    if rng.random() < 0.7:
        P['materials']['gap_he_own'] = {'thermal_conductivity': [0.3]}
        m['gap_material'] = 'gap_he_own'
        m['gap_thickness'] = float(wl.choose(rng, [0.0, 2e-5]))
    P['types'][T]['PinModel'] = m
    for sp in P['power']['asm'].values():
        sp['total'] *= 0.1


@option('pin_model_user_clad_film', needs=('nolf',))
def _o_pinmodel_film(P, T, rng):
    _o_pinmodel(P, T, rng)
    P['types'][T]['PinModel']['htc_params_clad'] = [
        float(rng.uniform(0.02, 0.03)), 0.8, float(rng.uniform(0.5, 0.8)),
        float(rng.uniform(4.0, 7.0))]


@option('fuel_model_user_clad_film', needs=('nolf',))
def _o_fuel_film(P, T, rng):
    _o_fuel(P, T, rng)
    P['types'][T]['FuelModel']['htc_params_clad'] = [
        float(rng.uniform(0.02, 0.03)), 0.8, 0.8,
        float(rng.uniform(4.0, 7.0))]


@option('dummy_pin', needs=('nolf',))
def _o_dummy(P, T, rng):
    P['types'][T]['dummy_pin'] = [1]


@option('duct_pairs_reversed')
def _o_revpairs(P, T, rng):
    _reverse_pairs(P)


@option('duct_pairs_reversed_two_ducts', needs=('duct2',))
def _o_revpairs2(P, T, rng):
    _reverse_pairs(P)


@option('htc_params_duct')
def _o_htc(P, T, rng):
    P['types'][T]['htc_params_duct'] = [0.025, 0.8, 0.8, 7.0]
    P['htc_params_duct'] = [0.025, 0.8, 0.8, 7.0]


@option('bypass_gap_loss_coeff', needs=('duct2',))
def _o_bglc(P, T, rng):
    P['types'][T]['bypass_gap_loss_coeff'] = float(rng.uniform(0.5, 3.0))


@option('axial_mesh_size_small')
def _o_ams(P, T, rng):
    P['setup']['axial_mesh_size'] = 0.0005


@option('axial_mesh_size_large')
def _o_aml(P, T, rng):
    P['setup']['axial_mesh_size'] = 0.2


@option('axial_plane')
def _o_plane(P, T, rng):
    P['setup']['axial_plane'] = [float(np.round(x * P['length'], 4))
                                 for x in rng.uniform(0.05, 0.95, 3)]


@option('dump_all')
def _o_dump(P, T, rng):
    P['setup_sub']['Dump'] = {'all': True, 'interval': 0.05}


@option('total_power')
def _o_totp(P, T, rng):
    tot = sum(s['total'] for s in P['power']['asm'].values())
    P['power']['total_power'] = float(tot * rng.uniform(0.5, 1.5))


@option('power_scaling_zero')
def _o_scal0(P, T, rng):
    P['power']['scaling'] = 0.0


def _drop_inner_position(P, rng):
    """Leave one position that is neither the centre nor the last one
    unassigned (a hole in the middle of the position list)."""
    from vmon import gen as _g
    ks = sorted(_g.pos_index0(q['ring'], q['pos']) for q in P['positions'])
    cand = [k for k in ks if 0 < k < ks[-1]]
    if not cand:
        return
    k = cand[int(rng.integers(len(cand)))]
    P['positions'] = [q for q in P['positions']
                      if _g.pos_index0(q['ring'], q['pos']) != k]
    P['power']['asm'].pop(str(k), None)


@option('core_with_hole_total_power', needs=('core2',))
def _o_hole_totp(P, T, rng):
    _drop_inner_position(P, rng)
    tot = sum(s['total'] for s in P['power']['asm'].values())
    P['power']['total_power'] = float(tot * rng.uniform(0.5, 1.5))


@option('core_with_hole_power_scaling', needs=('core2',))
def _o_hole_scal(P, T, rng):
    _drop_inner_position(P, rng)
    P['power']['scaling'] = float(rng.uniform(0.3, 1.7))


@option('core_with_hole', needs=('core2',))
def _o_hole(P, T, rng):
    _drop_inner_position(P, rng)


@option('gravity_se2geo')
def _o_grav(P, T, rng):
    P['setup']['include_gravity_head_loss'] = True
    P['setup']['se2geo'] = True


@option('builtin_materials')
def _o_mats(P, T, rng):
    P['coolant'] = wl.choose(rng, ['sodium', 'nak', 'lead', 'lbe'])
    P['types'][T]['duct_material'] = wl.choose(rng, ['ss316', 'ss304',
                                                     'ht9'])


def _o_conv_approx(model):
    def fn(P, T, rng):
        # low flow, wall coupled to the gap, low-flow duct approximation
        # switched on with a generous cut-off, unrodded regions with a small
        # hydraulic diameter: their step limit, not the bundle's, governs
        P['setup']['conv_approx'] = True
        P['setup']['conv_approx_dz_cutoff'] = 0.1
        for rg in P['types'][T]['AxialRegion'].values():
            rg['model'] = model
            rg['vf_coolant'] = float(rng.uniform(0.05, 0.2))
            rg.pop('convection_factor', None)
            rg['hydraulic_diameter'] = 0.002
    return fn


for _m in ('simple', '6node'):
    OPTIONS.append({'id': 'conv_approx_unrodded_limit:' + _m,
                    'needs': ('lo1', 'up1', 'slow', 'gapwall', 'nr2',
                              'const'),
                    'fn': _o_conv_approx(_m)})


@option('wire_zero_pitch_bare', needs=('nolf',))
def _o_bare(P, T, rng):
    # bare bundle: no wire, wire pitch irrelevant and left at zero
    t = P['types'][T]
    t['wire_diameter'] = 0.0
    t['wire_pitch'] = 0.0
    t['corr_mixing'], t['corr_friction'], t['corr_flowsplit'] = \
        wl.choose(rng, wl.BARE_TRIPLES)


# ----------------------------------------------------------------------
# Part B: catalogue of single-fault mutators

CATALOG = []


def mut(mid, key, fault, expect, needs=()):
    def deco(fn):
        CATALOG.append({'id': mid, 'key': key, 'fault': fault,
                        'expect': expect, 'needs': tuple(needs), 'fn': fn})
        return fn
    return deco


def bundle_ftf(t):
    """Flat-to-flat extent of a wire-wrapped hexagonal pin bundle: the pin
    rows perpendicular to a flat are P*sqrt(3)/2 apart, 2(nr-1) spacings,
    plus one pin diameter and a wire on either side."""
    return (SQ3 * (t['num_rings'] - 1) * t['pin_pitch'] + t['pin_diameter']
            + 2.0 * t['wire_diameter'])


# ---- numeric keys: (label, kind, needs, getter-setter) ----------------
# kind: dim   length / count that must be > 0      -> zero/neg/nan/inf reject
#       dim0  length that may be 0                 -> neg/nan/inf reject
#       par   other real parameter                 -> anything: safe

def _acc_top(name):
    def get(P, T):
        return P.get(name)

    def put(P, T, v):
        P[name] = v
    return get, put


def _acc_type(name, idx=None):
    def get(P, T):
        v = P['types'][T].get(name)
        return v if idx is None or v is None else v[idx]

    def put(P, T, v):
        if idx is None:
            P['types'][T][name] = v
        else:
            lst = list(P['types'][T][name])
            lst[idx] = v
            P['types'][T][name] = lst
    return get, put


def _acc_sub(sub, name, first=None):
    """key `name` of sub-section `sub` of the type (AxialRegion: of the
    region whose name starts with `first`)."""
    def _sec(P, T):
        s = P['types'][T][sub]
        if first is not None:
            nm = sorted(k for k in s if k.startswith(first))[0]
            s = s[nm]
        return s

    def get(P, T):
        return _sec(P, T).get(name)

    def put(P, T, v):
        _sec(P, T)[name] = v
    return get, put


def _acc_setup(name, also=None):
    def get(P, T):
        return P['setup'].get(name)

    def put(P, T, v):
        P['setup'][name] = v
        if also:
            P['setup'].update(also)
    return get, put


def _acc_dump(name):
    def get(P, T):
        return P['setup_sub'].get('Dump', {}).get(name)

    def put(P, T, v):
        P['setup_sub'].setdefault('Dump', {'coolant': True})[name] = v
    return get, put


def _acc_power(name):
    def get(P, T):
        return P['power'].get(name)

    def put(P, T, v):
        P['power'][name] = v
    return get, put


def _acc_bc(name):
    def get(P, T):
        return P['positions'][0].get(name)

    def put(P, T, v):
        a = P['positions'][0]
        for k in ('flowrate', 'outlet_temp', 'delta_temp'):
            a[k] = None
        a[name] = v
    return get, put


def _acc_mat(mat, prop):
    def get(P, T):
        return P['materials'][mat][prop][0]

    def put(P, T, v):
        P['materials'][mat][prop] = [v]
    return get, put


def _acc_htc(i, core=False):
    base = [0.025, 0.8, 0.8, 7.0]

    def get(P, T):
        return base[i]

    def put(P, T, v):
        lst = list(base)
        lst[i] = v
        if core:
            P['htc_params_duct'] = lst
        else:
            P['types'][T]['htc_params_duct'] = lst
    return get, put


NUMERIC = [
    ('Core/length', 'dim', (), _acc_top('length'), 0.5),
    ('Core/assembly_pitch', 'dim', (), _acc_top('asm_pitch'), 0.12),
    ('Core/coolant_inlet_temp', 'par', (), _acc_top('inlet'), 623.15),
    ('Core/bypass_fraction', 'par', ('gapflow',),
     _acc_top('bypass_fraction'), 0.01),
    ('Core/htc_params_duct[0]', 'par', ('gapflow',), _acc_htc(0, True),
     0.025),
    ('Assembly/num_rings', 'cnt', (), _acc_type('num_rings'), 3),
    ('Assembly/pin_pitch', 'dim', (), _acc_type('pin_pitch'), 0.01),
    ('Assembly/pin_diameter', 'dim', (), _acc_type('pin_diameter'), 0.008),
    ('Assembly/clad_thickness', 'dim', (), _acc_type('clad_thickness'),
     0.0005),
    ('Assembly/wire_pitch', 'dim', ('wire',), _acc_type('wire_pitch'), 0.2),
    ('Assembly/wire_diameter', 'dim0', ('wire',),
     _acc_type('wire_diameter'), 0.001),
    ('Assembly/duct_ftf[inner]', 'dim', (), _acc_type('duct_ftf', 0), 0.11),
    ('Assembly/duct_ftf[outer]', 'dim', (), _acc_type('duct_ftf', -1),
     0.1175),
    ('Assembly/bypass_gap_flow_fraction', 'par', ('duct2',),
     _acc_type('bypass_gap_flow_fraction'), 0.05),
    ('Assembly/bypass_gap_loss_coeff', 'par', ('duct2',),
     _acc_type('bypass_gap_loss_coeff'), 1.0),
    ('Assembly/shape_factor', 'par', (), _acc_type('shape_factor'), 1.1),
    ('Assembly/convection_factor', 'par', ('lf',),
     _acc_type('convection_factor'), 0.5),
    ('Assembly/htc_params_duct[1]', 'par', (), _acc_htc(1), 0.8),
    ('AxialRegion/z_lo', 'dim0', ('up1',),
     _acc_sub('AxialRegion', 'z_lo', 'up'), 0.4),
    ('AxialRegion/z_hi', 'dim', ('lo1',),
     _acc_sub('AxialRegion', 'z_hi', 'lo'), 0.1),
    ('AxialRegion/vf_coolant', 'par', ('lo1',),
     _acc_sub('AxialRegion', 'vf_coolant', 'lo'), 0.3),
    ('AxialRegion/hydraulic_diameter', 'dim0', ('lo1',),
     _acc_sub('AxialRegion', 'hydraulic_diameter', 'lo'), 0.005),
    ('AxialRegion/epsilon', 'dim0', ('up1',),
     _acc_sub('AxialRegion', 'epsilon', 'up'), 1e-6),
    ('AxialRegion/convection_factor', 'par', ('up1',),
     _acc_sub('AxialRegion', 'convection_factor', 'up'), 0.5),
    ('Setup/axial_mesh_size', 'dim', (), _acc_setup('axial_mesh_size'),
     0.005),
    ('Setup/axial_plane', 'par', (), _acc_setup('axial_plane'), 0.2),
    ('Setup/conv_approx_dz_cutoff', 'par', ('conv_approx',),
     _acc_setup('conv_approx_dz_cutoff', {'conv_approx': True}), 0.01),
    ('Setup/param_update_tol', 'par', (), _acc_setup('param_update_tol'),
     0.01),
    ('Setup/Dump/interval', 'par', (), _acc_dump('interval'), 0.05),
    ('Power/total_power', 'par', (), _acc_power('total_power'), 1e5),
    ('Power/power_scaling_factor', 'par', (), _acc_power('scaling'), 1.0),
    ('Assignment/flowrate', 'par', (), _acc_bc('flowrate'), 1.0),
    ('Assignment/outlet_temp', 'par', (), _acc_bc('outlet_temp'), 700.0),
    ('Assignment/delta_temp', 'par', (), _acc_bc('delta_temp'), 50.0),
    ('Materials/coolant/density', 'par', ('const',),
     _acc_mat('na_const', 'density'), 850.0),
    ('Materials/coolant/viscosity', 'par', ('const',),
     _acc_mat('na_const', 'viscosity'), 2.7e-4),
    ('Materials/coolant/heat_capacity', 'par', ('const',),
     _acc_mat('na_const', 'heat_capacity'), 1274.0),
    ('Materials/coolant/thermal_conductivity', 'par', ('const',),
     _acc_mat('na_const', 'thermal_conductivity'), 70.0),
    ('SpacerGrid/loss_coeff', 'par', ('grid',),
     _acc_sub('SpacerGrid', 'loss_coeff'), 1.2),
    ('FuelModel/gap_thickness', 'dim0', ('fuel',),
     _acc_sub('FuelModel', 'gap_thickness'), 1e-5),
]

NUM_FAULTS = {
    'zero': lambda v, d: 0 if isinstance(d, int) else 0.0,
    'negative': lambda v, d: (-abs(v) if isinstance(v, (int, float))
                              and v else -d),
    'nan': lambda v, d: float('nan'),
    'inf': lambda v, d: float('inf'),
    'neg_inf': lambda v, d: float('-inf'),
    'tiny': lambda v, d: 1e-12,      # vanishing flow / flow area / step
}


def _num_expect(kind, fault):
    if fault == 'tiny':
        return 'safe'
    if kind == 'dim':
        return 'reject'
    if kind == 'cnt':
        return 'reject' if fault in ('zero', 'negative') else 'safe'
    if kind == 'dim0':
        return 'safe' if fault == 'zero' else 'reject'
    return 'safe'


def _register_numeric():
    for label, kind, needs, (get, put), dflt in NUMERIC:
        for fault in ('zero', 'negative', 'nan', 'inf', 'neg_inf', 'tiny'):
            if kind == 'cnt' and fault in ('nan', 'inf', 'neg_inf', 'tiny'):
                continue
            if fault == 'tiny' and label not in (
                    'Core/bypass_fraction', 'Assignment/flowrate',
                    'Assembly/bypass_gap_flow_fraction',
                    'Setup/axial_mesh_size', 'AxialRegion/vf_coolant'):
                continue

            def fn(P, T, rng, get=get, put=put, fault=fault, dflt=dflt):
                v = get(P, T)
                put(P, T, NUM_FAULTS[fault](v, dflt))
                return None
            mid = '%s=%s' % (label, fault)
            CATALOG.append({'id': mid, 'key': label, 'fault': fault,
                            'expect': _num_expect(kind, fault),
                            'needs': tuple(needs), 'fn': fn,
                            'thorough_only': fault == 'neg_inf'})


_register_numeric()


# ---- pins / wire / clad -----------------------------------------------

@mut('Assembly/wire_pitch=zero:CT_friction', 'Assembly/wire_pitch', 'zero',
     'reject', needs=('wire', 'ctfric', 'nolf'))
def _m_wp0(P, T, rng):
    # same fault as Assembly/wire_pitch=zero, on a base whose friction
    # correlation (CTD/UCTD) has no bare-rod applicability check
    P['types'][T]['wire_pitch'] = 0.0


def _scale_to_misfit(P, T, excess):
    """Scale pitch, diameter and wire together until the bundle is wider
    than the inner duct by the relative `excess`."""
    t = P['types'][T]
    f = min(t['duct_ftf']) * (1.0 + excess) / bundle_ftf(t)
    for k in ('pin_pitch', 'pin_diameter', 'wire_diameter', 'wire_pitch',
              'clad_thickness'):
        t[k] = t[k] * f


@mut('pins_misfit:scaled_barely', 'Assembly/pin_pitch+pin_diameter',
     'pins do not fit in duct', 'reject', needs=('nolf',))
def _m_fit1(P, T, rng):
    _scale_to_misfit(P, T, 1e-4)


@mut('pins_misfit:scaled_far', 'Assembly/pin_pitch+pin_diameter',
     'pins do not fit in duct', 'reject', needs=('nolf',))
def _m_fit2(P, T, rng):
    _scale_to_misfit(P, T, float(rng.uniform(0.05, 1.0)))


@mut('pins_misfit:more_rings', 'Assembly/num_rings',
     'pins do not fit in duct', 'reject', needs=('nolf',))
def _m_fit3(P, T, rng):
    P['types'][T]['num_rings'] += int(rng.integers(1, 4))
    P['_power_follows'] = True


@mut('pins_misfit:pitch', 'Assembly/pin_pitch',
     'pins do not fit in duct', 'reject', needs=('nolf',))
def _m_fit4(P, T, rng):
    t = P['types'][T]
    room = min(t['duct_ftf']) - t['pin_diameter'] - 2 * t['wire_diameter']
    t['pin_pitch'] = room / (SQ3 * (t['num_rings'] - 1)) * float(
        rng.uniform(1.001, 1.3))


@mut('pins_misfit:duct_shrunk', 'Assembly/duct_ftf',
     'pins do not fit in duct', 'reject', needs=('nolf',))
def _m_fit5(P, T, rng):
    t = P['types'][T]
    shrink = (min(t['duct_ftf']) - bundle_ftf(t)) + float(
        rng.uniform(0.0005, 0.004))
    t['duct_ftf'] = [x - shrink for x in t['duct_ftf']]
    for nm, tt in P['types'].items():
        if nm != T:
            tt['duct_ftf'] = [x - shrink for x in tt['duct_ftf']]


@mut('pins_misfit_lowfidelity:by_less_than_two_wires',
     'Assembly/duct_ftf (use_low_fidelity_model)',
     'pins do not fit in duct', 'reject', needs=('lf', 'wire'))
def _m_fit_lf1(P, T, rng):
    # the bundle (over its wires) is wider than the duct by 0.3-1.7 wire
    # diameters: the pins alone would still fit, pins + wires do not
    t = P['types'][T]
    shrink = (min(t['duct_ftf']) - bundle_ftf(t)) + float(
        rng.uniform(0.3, 1.7)) * t['wire_diameter']
    t['duct_ftf'] = [x - shrink for x in t['duct_ftf']]


@mut('pins_misfit_lowfidelity:far', 'Assembly/duct_ftf '
     '(use_low_fidelity_model)', 'pins do not fit in duct', 'reject',
     needs=('lf',))
def _m_fit_lf2(P, T, rng):
    t = P['types'][T]
    shrink = (min(t['duct_ftf']) - bundle_ftf(t)) + float(
        rng.uniform(0.003, 0.01))
    t['duct_ftf'] = [x - shrink for x in t['duct_ftf']]


@mut('wire_gt_gap:barely', 'Assembly/wire_diameter',
     'wire thicker than pin gap', 'reject', needs=('wire', 'nolf'))
def _m_wire1(P, T, rng):
    t = P['types'][T]
    t['wire_diameter'] = (t['pin_pitch'] - t['pin_diameter']) * 1.001


@mut('wire_gt_gap:far', 'Assembly/wire_diameter',
     'wire thicker than pin gap', 'reject', needs=('wire', 'nolf'))
def _m_wire2(P, T, rng):
    t = P['types'][T]
    t['wire_diameter'] = (t['pin_pitch'] - t['pin_diameter']) * float(
        rng.uniform(1.2, 4.0))


@mut('wire_gt_gap:pitch_reduced', 'Assembly/pin_pitch',
     'wire thicker than pin gap', 'reject', needs=('wire', 'nolf'))
def _m_wire3(P, T, rng):
    t = P['types'][T]
    t['pin_pitch'] = t['pin_diameter'] + t['wire_diameter'] * float(
        rng.uniform(0.3, 0.95))


@mut('clad_gt_radius', 'Assembly/clad_thickness',
     'clad thicker than pin radius', 'reject')
def _m_clad1(P, T, rng):
    t = P['types'][T]
    t['clad_thickness'] = 0.5 * t['pin_diameter'] * float(
        rng.uniform(1.001, 3.0))


@mut('clad_gt_radius:fuel_model', 'Assembly/clad_thickness',
     'clad thicker than pin radius', 'reject', needs=('fuel',))
def _m_clad2(P, T, rng):
    t = P['types'][T]
    t['clad_thickness'] = 0.5 * t['pin_diameter'] * 1.01


@mut('clad_eq_radius:fuel_model', 'Assembly/clad_thickness',
     'clad equal to pin radius', 'safe', needs=('fuel',))
def _m_clad3(P, T, rng):
    t = P['types'][T]
    t['clad_thickness'] = 0.5 * t['pin_diameter']


@mut('pitch_lt_diameter', 'Assembly/pin_pitch',
     'pin pitch smaller than pin diameter', 'reject', needs=('nolf',))
def _m_p2d(P, T, rng):
    t = P['types'][T]
    t['pin_pitch'] = t['pin_diameter'] * float(rng.uniform(0.5, 0.999))
    t['wire_diameter'] = 0.0


@mut('pitch_eq_diameter', 'Assembly/pin_pitch',
     'pins touching', 'safe', needs=('nolf',))
def _m_p2d1(P, T, rng):
    t = P['types'][T]
    t['pin_pitch'] = t['pin_diameter']
    t['wire_diameter'] = 0.0


@mut('fuel_gap_gt_clad_inner_radius', 'FuelModel/gap_thickness',
     'fuel-clad gap larger than clad inner radius', 'reject',
     needs=('fuel',))
def _m_fgap(P, T, rng):
    t = P['types'][T]
    t['FuelModel']['gap_thickness'] = 0.5 * t['pin_diameter']
    t['FuelModel']['gap_material'] = 'sodium'


@mut('fuel_gap_gt_clad_inner_radius:legacy_key', 'FuelModel/fcgap_thickness',
     'fuel-clad gap larger than clad inner radius (legacy key)', 'reject',
     needs=('fuel',))
def _m_fgap_legacy(P, T, rng):
    t = P['types'][T]
    t['FuelModel'].pop('gap_thickness', None)
    t['FuelModel']['fcgap_thickness'] = 0.5 * t['pin_diameter']
    t['FuelModel']['gap_material'] = 'sodium'


def _pin_model_with_gap(P, T, key):
    t = P['types'][T]
    t.pop('FuelModel', None)
    P['materials']['pin_own'] = {'thermal_conductivity': [12.0]}
    t['PinModel'] = {'clad_material': 'ht9', 'r_frac': [0.0, 0.5],
                     'pin_material': ['pin_own', 'pin_own'],
                     'gap_material': 'sodium',
                     key: 0.5 * t['pin_diameter']}
    for sp in P['power']['asm'].values():
        sp['total'] *= 0.1


@mut('pin_gap_gt_clad_inner_radius', 'PinModel/gap_thickness',
     'pellet-clad gap larger than clad inner radius', 'reject',
     needs=('nolf',))
def _m_pgap(P, T, rng):
    _pin_model_with_gap(P, T, 'gap_thickness')


@mut('pin_gap_gt_clad_inner_radius:legacy_key', 'PinModel/fcgap_thickness',
     'pellet-clad gap larger than clad inner radius (legacy key)', 'reject',
     needs=('nolf',))
def _m_pgap_legacy(P, T, rng):
    _pin_model_with_gap(P, T, 'fcgap_thickness')


# ---- nan / inf literals inside LISTS of numbers (these keys reach the
#      checks as text, the scalar ones as floats)
def _list_literal(section, key, lit, where='FuelModel'):
    def fn(P, T, rng):
        t = P['types'][T]
        if where in ('FuelModel', 'PinModel'):
            if where == 'PinModel':
                _pin_model_with_gap(P, T, 'gap_thickness')
                t['PinModel']['gap_thickness'] = 0.0
                t['PinModel'].pop('gap_material', None)
            v = list(t[where][key])
            if len(v) < 2:
                v = v + [0.5]
                if where == 'FuelModel':
                    for k2 in ('pu_frac', 'zr_frac', 'porosity', 'r_frac'):
                        if k2 != key and len(t[where][k2]) < 2:
                            t[where][k2] = list(t[where][k2]) + [
                                0.5 if k2 == 'r_frac' else t[where][k2][0]]
                else:
                    t[where]['pin_material'] = ['pin_own', 'pin_own']
            v[-1] = lit
            t[where][key] = v
        elif where == 'Setup':
            P['setup']['axial_plane'] = [round(0.3 * P['length'], 4), lit]
        else:
            P['setup_sub']['AssemblyTables'] = {'tab1': {
                'type': 'coolant_subchannel', 'assemblies': [1],
                'axial_positions': [round(0.3 * P['length'], 4), lit]}}
    return fn


for _w, _k, _need in (('FuelModel', 'pu_frac', ('fuel',)),
                      ('FuelModel', 'porosity', ('fuel',)),
                      ('FuelModel', 'r_frac', ('fuel',)),
                      ('PinModel', 'r_frac', ('nolf',)),
                      ('Setup', 'axial_plane', ()),
                      ('AssemblyTables', 'axial_positions', ())):
    for _lit in ('nan', 'inf'):
        CATALOG.append({'id': '%s/%s[last]=%s_literal' % (_w, _k, _lit),
                        'key': '%s/%s' % (_w, _k),
                        'fault': '%s literal' % _lit, 'expect': 'reject',
                        'needs': tuple(_need),
                        'fn': _list_literal(_w, _k, _lit, _w)})


@mut('num_rings=one', 'Assembly/num_rings', 'single pin', 'safe',
     needs=('nolf',))
def _m_nr1(P, T, rng):
    t = P['types'][T]
    t['num_rings'] = 1
    P['_power_follows'] = True


@mut('num_rings=noninteger', 'Assembly/num_rings', 'non-integer count',
     'safe')
def _m_nrf(P, T, rng):
    n = P['types'][T]['num_rings']
    return _text_sub('num_rings = %d' % n, 'num_rings = %d.5' % n)


# ---- ducts --------------------------------------------------------------

@mut('duct_ge_pitch:equal', 'Core/assembly_pitch',
     'duct FTF >= assembly pitch', 'reject')
def _m_dp1(P, T, rng):
    P['asm_pitch'] = max(P['types'][T]['duct_ftf'])


@mut('duct_ge_pitch:greater', 'Core/assembly_pitch',
     'duct FTF >= assembly pitch', 'reject')
def _m_dp2(P, T, rng):
    P['asm_pitch'] = max(P['types'][T]['duct_ftf']) * float(
        rng.uniform(0.5, 0.999))


@mut('duct_ge_pitch:pitch_inside_wall', 'Core/assembly_pitch',
     'duct FTF >= assembly pitch', 'reject')
def _m_dp3(P, T, rng):
    f = sorted(P['types'][T]['duct_ftf'])
    P['asm_pitch'] = 0.5 * (f[-1] + f[-2])


@mut('duct_ge_pitch:duct_grown', 'Assembly/duct_ftf',
     'duct FTF >= assembly pitch', 'reject')
def _m_dp4(P, T, rng):
    grow = P['asm_pitch'] - max(P['types'][T]['duct_ftf']) + float(
        rng.uniform(0.0, 0.003))
    for tt in P['types'].values():
        f = list(tt['duct_ftf'])
        f[f.index(max(f))] += grow
        tt['duct_ftf'] = f


@mut('duct_odd_count', 'Assembly/duct_ftf', 'odd number of duct FTF',
     'reject', needs=('duct2',))
def _m_dodd(P, T, rng):
    P['types'][T]['duct_ftf'] = P['types'][T]['duct_ftf'][1:]


@mut('duct_zero_wall', 'Assembly/duct_ftf', 'zero duct wall thickness',
     'reject')
def _m_dzero(P, T, rng):
    f = list(P['types'][T]['duct_ftf'])
    f[f.index(min(f))] = max(f[:2])
    P['types'][T]['duct_ftf'] = f


@mut('duct_overlap', 'Assembly/duct_ftf',
     'nested ducts overlap (negative bypass gap)', 'reject',
     needs=('duct2',))
def _m_dover(P, T, rng):
    f = list(P['types'][T]['duct_ftf'])
    # inner duct outer FTF beyond the outer duct inner FTF
    f[f.index(max(f[:2]))] = 0.5 * (f[2] + f[3])
    P['types'][T]['duct_ftf'] = f


@mut('duct_zero_bypass_gap', 'Assembly/duct_ftf',
     'nested ducts touch (zero bypass gap)', 'reject', needs=('duct2',))
def _m_dtouch(P, T, rng):
    f = list(P['types'][T]['duct_ftf'])
    f[f.index(max(f[:2]))] = min(f[2:4])
    P['types'][T]['duct_ftf'] = f


@mut('duct_swapped_order', 'Assembly/duct_ftf',
     'outer FTF given before inner', 'safe')
def _m_dswap(P, T, rng):
    f = list(P['types'][T]['duct_ftf'])
    f[-2], f[-1] = f[-1], f[-2]
    P['types'][T]['duct_ftf'] = f


def _uneq(delta):
    def fn(P, T, rng):
        # the whole duct of one type is `delta` smaller (wall unchanged)
        P['types'][T]['duct_ftf'] = [x - delta
                                     for x in P['types'][T]['duct_ftf']]
    return fn


for _d in (1e-6, 1e-5, 1e-4, 1e-3):
    CATALOG.append({'id': 'outer_duct_unequal:smaller_by_%g' % _d,
                    'key': 'Assembly/duct_ftf',
                    'fault': 'unequal outer ducts between types',
                    'expect': 'reject', 'needs': ('core2',),
                    'fn': _uneq(_d)})


@mut('outer_duct_unequal:wall_only', 'Assembly/duct_ftf',
     'unequal outer ducts between types', 'reject', needs=('core2',))
def _m_uneq2(P, T, rng):
    f = list(P['types'][T]['duct_ftf'])
    f[f.index(max(f))] -= 2e-5
    P['types'][T]['duct_ftf'] = f


@mut('outer_duct_unequal:unassigned_type', 'Assembly/duct_ftf',
     'unequal outer ducts between types', 'safe')
def _m_uneq3(P, T, rng):
    t2 = copy.deepcopy(P['types'][T])
    f = list(t2['duct_ftf'])
    f[-1] -= 0.0005
    t2['duct_ftf'] = f
    t2.pop('AxialRegion', None)
    P['types']['spare'] = t2


# ---- axial regions --------------------------------------------------------

def _regs(P, T, prefix):
    ar = P['types'][T]['AxialRegion']
    return [ar[k] for k in sorted(ar) if k.startswith(prefix)]


@mut('region_inverted:lower', 'AxialRegion/z_lo,z_hi', 'inverted region',
     'reject', needs=('lo1',))
def _m_ar_inv1(P, T, rng):
    rg = _regs(P, T, 'lo')[-1]
    rg['z_lo'], rg['z_hi'] = rg['z_hi'], rg['z_lo']


@mut('region_inverted:upper', 'AxialRegion/z_lo,z_hi', 'inverted region',
     'reject', needs=('up1',))
def _m_ar_inv2(P, T, rng):
    rg = _regs(P, T, 'up')[0]
    rg['z_lo'], rg['z_hi'] = rg['z_hi'], rg['z_lo']


@mut('region_inverted:one_of_two', 'AxialRegion/z_lo,z_hi',
     'inverted region', 'reject', needs=('lo2',))
def _m_ar_inv3(P, T, rng):
    rg = _regs(P, T, 'lo')[int(rng.integers(2))]
    rg['z_lo'], rg['z_hi'] = rg['z_hi'], rg['z_lo']


@mut('region_zero_height:lower', 'AxialRegion/z_hi', 'zero-height region',
     'reject', needs=('lo2',))
def _m_ar_zero(P, T, rng):
    a, b = _regs(P, T, 'lo')
    # second lower region collapses onto the top of the first one
    b['z_lo'] = b['z_hi']
    a['z_hi'] = b['z_hi']


@mut('region_zero_height:upper_at_top', 'AxialRegion/z_lo',
     'zero-height region', 'reject', needs=('up1',))
def _m_ar_zero2(P, T, rng):
    rg = _regs(P, T, 'up')[-1]
    rg['z_lo'] = rg['z_hi']


@mut('region_overlap:same_side', 'AxialRegion/z_lo', 'overlapping regions',
     'reject', needs=('lo2',))
def _m_ar_ov1(P, T, rng):
    a, b = _regs(P, T, 'lo')
    b['z_lo'] = a['z_lo'] + (a['z_hi'] - a['z_lo']) * float(
        rng.uniform(0.2, 0.8))


@mut('region_overlap:same_side_upper', 'AxialRegion/z_hi',
     'overlapping regions', 'reject', needs=('up2',))
def _m_ar_ov1u(P, T, rng):
    a, b = _regs(P, T, 'up')
    a['z_hi'] = b['z_lo'] + (b['z_hi'] - b['z_lo']) * float(
        rng.uniform(0.2, 0.8))


@mut('region_overlap:across_bundle', 'AxialRegion/z_hi',
     'overlapping regions', 'reject', needs=('lo1', 'up1'))
def _m_ar_ov2(P, T, rng):
    lo = _regs(P, T, 'lo')[-1]
    up = _regs(P, T, 'up')[0]
    lo['z_hi'] = up['z_lo'] + (up['z_hi'] - up['z_lo']) * float(
        rng.uniform(0.2, 0.8))


@mut('region_overlap:identical', 'AxialRegion/z_lo,z_hi',
     'overlapping regions', 'reject', needs=('lo1',))
def _m_ar_ov3(P, T, rng):
    ar = P['types'][T]['AxialRegion']
    ar['lo_copy'] = copy.deepcopy(_regs(P, T, 'lo')[0])


@mut('region_gap:two_bundles', 'AxialRegion/z_lo', 'gap between regions',
     'reject', needs=('lo2',))
def _m_ar_gap1(P, T, rng):
    a, b = _regs(P, T, 'lo')
    b['z_lo'] = a['z_hi'] + (b['z_hi'] - a['z_hi']) * float(
        rng.uniform(0.2, 0.8))


@mut('region_gap:not_from_zero', 'AxialRegion/z_lo', 'gap between regions',
     'reject', needs=('lo1',))
def _m_ar_gap2(P, T, rng):
    a = _regs(P, T, 'lo')[0]
    a['z_lo'] = a['z_hi'] * float(rng.uniform(0.2, 0.8))


@mut('region_gap:not_to_top', 'AxialRegion/z_hi', 'gap between regions',
     'reject', needs=('up1',))
def _m_ar_gap3(P, T, rng):
    a = _regs(P, T, 'up')[-1]
    a['z_hi'] = a['z_lo'] + (a['z_hi'] - a['z_lo']) * float(
        rng.uniform(0.2, 0.8))


@mut('region_beyond_core', 'AxialRegion/z_hi', 'region beyond core length',
     'reject', needs=('up1',))
def _m_ar_beyond(P, T, rng):
    a = _regs(P, T, 'up')[-1]
    a['z_hi'] = P['length'] * float(rng.uniform(1.05, 1.5))


@mut('region_all_unrodded', 'AxialRegion/z_hi', 'no pin bundle left',
     'safe', needs=('lo1', 'up1'))
def _m_ar_all(P, T, rng):
    lo = _regs(P, T, 'lo')[-1]
    up = _regs(P, T, 'up')[0]
    lo['z_hi'] = up['z_lo']


@mut('region_vf_coolant=one', 'AxialRegion/vf_coolant',
     'no structure in region', 'safe', needs=('lo1',))
def _m_ar_vf1(P, T, rng):
    _regs(P, T, 'lo')[0]['vf_coolant'] = 1.0


@mut('region_vf_coolant=above_one', 'AxialRegion/vf_coolant',
     'fraction above one', 'safe', needs=('lo1',))
def _m_ar_vf2(P, T, rng):
    _regs(P, T, 'lo')[0]['vf_coolant'] = 1.5


# ---- assignment -----------------------------------------------------------

def _text_sub(old, new, count=1, fname=None):
    def post(d, path):
        p = path if fname is None else os.path.join(d, fname)
        with open(p) as f:
            txt = f.read()
        if old not in txt:
            raise RuntimeError('mutator: %r not in input' % (old,))
        with open(p, 'w') as f:
            f.write(txt.replace(old, new, count))
    return post


def _assn_line(P, i=0):
    a = P['positions'][i]
    return '        %s = %d, %d, %d, ' % (a['type'], a['ring'], a['pos'],
                                         a.get('pos2', a['pos']))


@mut('assignment:missing_bc', 'Assignment/ByPosition',
     'missing boundary condition', 'reject')
def _m_as1(P, T, rng):
    P['positions'][0]['flowrate'] = None


@mut('assignment:missing_bc_last', 'Assignment/ByPosition',
     'missing boundary condition', 'reject', needs=('core2',))
def _m_as1b(P, T, rng):
    P['positions'][-1]['flowrate'] = None


@mut('assignment:unknown_bc_keyword', 'Assignment/ByPosition',
     'missing boundary condition', 'reject')
def _m_as2(P, T, rng):
    a = P['positions'][0]
    a['raw_kw'] = 'FLOW=%r' % a['flowrate']
    a['flowrate'] = None


@mut('assignment:two_bcs', 'Assignment/ByPosition',
     'two boundary conditions', 'reject')
def _m_as3(P, T, rng):
    P['positions'][0]['outlet_temp'] = P['inlet'] + 50.0


@mut('assignment:unknown_type', 'Assignment/ByPosition',
     'assigned assembly type not defined', 'reject')
def _m_as4(P, T, rng):
    ln = _assn_line(P)
    return _text_sub(ln, ln.replace(P['positions'][0]['type'] + ' =',
                                    'ghost =', 1))


@mut('assignment:position_beyond_ring', 'Assignment/ByPosition',
     'position does not exist on ring', 'reject', needs=('core2',))
def _m_as5(P, T, rng):
    a = P['positions'][-1]
    ln = _assn_line(P, len(P['positions']) - 1)
    new = '        %s = %d, %d, %d, ' % (a['type'], a['ring'], 6 * (
        a['ring'] - 1) + 1, 6 * (a['ring'] - 1) + 1)
    return _text_sub(ln, new)


@mut('assignment:nonnumeric_ring', 'Assignment/ByPosition',
     'non-numeric position', 'safe')
def _m_as6(P, T, rng):
    a = P['positions'][0]
    ln = _assn_line(P)
    return _text_sub(ln, '        %s = x, %d, %d, ' % (a['type'], a['pos'],
                                                       a['pos']))


@mut('assignment:nonnumeric_bc', 'Assignment/ByPosition',
     'non-numeric boundary condition', 'safe')
def _m_as7(P, T, rng):
    a = P['positions'][0]
    a['raw_kw'] = 'FLOWRATE=abc'
    a['flowrate'] = None


@mut('assignment:empty', 'Assignment/ByPosition', 'no position assigned',
     'safe')
def _m_as8(P, T, rng):
    def post(d, path):
        with open(path) as f:
            txt = f.read()
        i = txt.index('[[ByPosition]]') + len('[[ByPosition]]')
        with open(path, 'w') as f:
            f.write(txt[:i] + '\n')
    return post


@mut('assignment:outlet_below_inlet', 'Assignment/outlet_temp',
     'outlet temperature below inlet', 'safe')
def _m_as9(P, T, rng):
    a = P['positions'][0]
    a['flowrate'] = None
    a['outlet_temp'] = P['inlet'] - 20.0


@mut('assignment:outlet_equals_inlet', 'Assignment/outlet_temp',
     'outlet temperature equal to inlet', 'safe')
def _m_as10(P, T, rng):
    a = P['positions'][0]
    a['flowrate'] = None
    a['outlet_temp'] = P['inlet']


@mut('assignment:temperature_bc_with_zero_power', 'Assignment/outlet_temp',
     'temperature rise demanded with zero power', 'safe')
def _m_as11(P, T, rng):
    a = P['positions'][0]
    a['flowrate'] = None
    a['outlet_temp'] = P['inlet'] + 50.0
    P['power']['scaling'] = 0.0


@mut('core:gap_flow_without_bypass', 'Core/bypass_fraction',
     'flowing gap model with zero gap flow', 'reject', needs=('gapflow',))
def _m_gf0(P, T, rng):
    P['bypass_fraction'] = 0.0


@mut('core:bypass_fraction=one', 'Core/bypass_fraction',
     'all flow bypasses the assemblies', 'safe', needs=('gapflow',))
def _m_bf1(P, T, rng):
    P['bypass_fraction'] = 1.0


@mut('assembly:bypass_gap_flow_fraction=one',
     'Assembly/bypass_gap_flow_fraction', 'all flow in the bypass gap',
     'safe', needs=('duct2',))
def _m_bgf1(P, T, rng):
    P['types'][T]['bypass_gap_flow_fraction'] = 1.0


@mut('assembly:bypass_gap_flow_fraction=above_one',
     'Assembly/bypass_gap_flow_fraction', 'fraction above one', 'safe',
     needs=('duct2',))
def _m_bgf2(P, T, rng):
    P['types'][T]['bypass_gap_flow_fraction'] = 1.5


# ---- names ------------------------------------------------------------------

def _name_mut(mid, key, fault, setter, needs=(), expect='reject'):
    @mut(mid, key, fault, expect, needs=needs)
    def fn(P, T, rng):
        return setter(P, T)
    return fn


_name_mut('name:coolant_material', 'Core/coolant_material',
          'unknown material',
          lambda P, T: P.__setitem__('coolant', 'unobtainium'))
_name_mut('name:duct_material', 'Assembly/duct_material', 'unknown material',
          lambda P, T: P['types'][T].__setitem__('duct_material',
                                                 'unobtainium'))
_name_mut('name:clad_material', 'FuelModel/clad_material',
          'unknown material',
          lambda P, T: P['types'][T]['FuelModel'].__setitem__(
              'clad_material', 'unobtainium'), needs=('fuel',))
_name_mut('name:structure_material', 'AxialRegion/structure_material',
          'unknown material',
          lambda P, T: _regs(P, T, 'lo')[0].__setitem__(
              'structure_material', 'unobtainium'), needs=('lo1',),
          expect='safe')
_name_mut('name:coolant_is_structural', 'Core/coolant_material',
          'material lacks coolant properties',
          lambda P, T: P.__setitem__('coolant', 'steel_const'))
_name_mut('name:corr_mixing', 'Assembly/corr_mixing', 'unknown correlation',
          lambda P, T: P['types'][T].__setitem__('corr_mixing', 'XYZ'))
_name_mut('name:corr_friction', 'Assembly/corr_friction',
          'unknown correlation',
          lambda P, T: P['types'][T].__setitem__('corr_friction', 'XYZ'))
_name_mut('name:corr_flowsplit', 'Assembly/corr_flowsplit',
          'unknown correlation',
          lambda P, T: P['types'][T].__setitem__('corr_flowsplit', 'XYZ'))
_name_mut('name:corr_shapefactor', 'Assembly/corr_shapefactor',
          'unknown correlation',
          lambda P, T: P['types'][T].__setitem__('corr_shapefactor', 'XYZ'))
_name_mut('name:corr_nusselt', 'Assembly/corr_nusselt',
          'unknown correlation',
          lambda P, T: P['types'][T].__setitem__('corr_nusselt', 'XYZ'))
_name_mut('name:corr_nusselt_lf', 'Assembly/corr_nusselt',
          'unknown correlation',
          lambda P, T: P['types'][T].__setitem__('corr_nusselt', 'XYZ'),
          needs=('lf',))
_name_mut('name:grid_corr', 'SpacerGrid/corr', 'unknown correlation',
          lambda P, T: P['types'][T]['SpacerGrid'].update(
              {'corr': 'XYZ', 'loss_coeff': None, 'solidity': 0.3}),
          needs=('grid',))
_name_mut('name:region_model', 'AxialRegion/model', 'unknown region model',
          lambda P, T: _regs(P, T, 'lo')[0].__setitem__('model', '7node'),
          needs=('lo1',))
_name_mut('name:gap_model', 'Core/gap_model', 'unknown gap model',
          lambda P, T: P.__setitem__('gap_model', 'XYZ'))
_name_mut('name:wire_direction', 'Assembly/wire_direction',
          'unknown option',
          lambda P, T: P['types'][T].__setitem__('wire_direction',
                                                 'sideways'), expect='safe')
_name_mut('name:low_fidelity_model', 'Assembly/low_fidelity_model',
          'unknown region model',
          lambda P, T: P['types'][T].__setitem__('low_fidelity_model',
                                                 '7node'), needs=('lf',))
_name_mut('name:lf_convection_factor', 'Assembly/convection_factor',
          'unknown option',
          lambda P, T: P['types'][T].__setitem__('convection_factor',
                                                 'guess'), needs=('lf',),
          expect='safe')
_name_mut('name:corr_lowercase', 'Assembly/corr_friction',
          'correlation name in lower case',
          lambda P, T: P['types'][T].__setitem__(
              'corr_friction', P['types'][T].get('corr_friction',
                                                 'CTD').lower()),
          expect='safe')
_name_mut('name:units_length', 'Setup/Units/length', 'unknown unit',
          lambda P, T: P.__setitem__('units', {'length': 'furlong'}),
          expect='safe')
_name_mut('name:units_temperature', 'Setup/Units/temperature',
          'unknown unit',
          lambda P, T: P.__setitem__('units', {'temperature': 'reaumur'}),
          expect='safe')
_name_mut('name:units_mass_flow_rate', 'Setup/Units/mass_flow_rate',
          'unknown unit',
          lambda P, T: P.__setitem__('units', {'mass_flow_rate':
                                               'stone/fortnight'}),
          expect='safe')
_name_mut('name:units_mass_flow_rate_no_slash', 'Setup/Units/mass_flow_rate',
          'unknown unit',
          lambda P, T: P.__setitem__('units', {'mass_flow_rate': 'kg'}),
          expect='safe')
_name_mut('name:user_power_missing_file', 'Power/user_power',
          'power file does not exist',
          lambda P, T: _rm_file('power.csv'))


def _rm_file(fname):
    def post(d, path):
        os.remove(os.path.join(d, fname))
    return post


# ---- missing required keys -----------------------------------------------

def _drop_line(prefix):
    def post(d, path):
        with open(path) as f:
            lines = f.read().split('\n')
        hit = [i for i, s in enumerate(lines)
               if s.strip().startswith(prefix + ' =')]
        if not hit:
            raise RuntimeError('mutator: no line %r' % prefix)
        del lines[hit[0]]
        with open(path, 'w') as f:
            f.write('\n'.join(lines))
    return post


for _k, _sec, _needs in [
        ('num_rings', 'Assembly', ()), ('pin_pitch', 'Assembly', ()),
        ('pin_diameter', 'Assembly', ()), ('clad_thickness', 'Assembly', ()),
        ('wire_pitch', 'Assembly', ()), ('wire_diameter', 'Assembly', ()),
        ('duct_ftf', 'Assembly', ()), ('duct_material', 'Assembly', ()),
        ('coolant_inlet_temp', 'Core', ()), ('coolant_material', 'Core', ()),
        ('length', 'Core', ()), ('assembly_pitch', 'Core', ()),
        ('z_lo', 'AxialRegion', ('lo1',)), ('z_hi', 'AxialRegion', ('lo1',)),
        ('vf_coolant', 'AxialRegion', ('lo1',))]:
    def _fn(P, T, rng, _k=_k):
        return _drop_line(_k)
    CATALOG.append({'id': 'missing:%s/%s' % (_sec, _k),
                    'key': '%s/%s' % (_sec, _k), 'fault': 'missing key',
                    'expect': 'reject', 'needs': tuple(_needs), 'fn': _fn})


@mut('missing:section_Core', 'Core', 'missing section', 'reject')
def _m_nosec(P, T, rng):
    return _text_sub('[Core]', '[Kore]')


@mut('nonnumeric:pin_pitch', 'Assembly/pin_pitch', 'non-numeric value',
     'reject')
def _m_nonnum(P, T, rng):
    return _text_sub('pin_pitch = ', 'pin_pitch = abc')


@mut('nonnumeric:length', 'Core/length', 'non-numeric value', 'reject')
def _m_nonnum2(P, T, rng):
    return _text_sub('    length = ', '    length = 1,0 #')


# ---- power CSV ---------------------------------------------------------------

def _csv_edit(edit):
    """edit(rows) -> rows, where rows is a list of lists of strings."""
    def post(d, path):
        p = os.path.join(d, 'power.csv')
        with open(p) as f:
            rows = [ln.split(',') for ln in f.read().split('\n') if ln]
        rows = edit(rows)
        with open(p, 'w') as f:
            f.write('\n'.join(','.join(r) for r in rows) + '\n')
    return post


def _sel(rows, asm=None, comp=None, zlo=None):
    out = []
    for i, r in enumerate(rows):
        if asm is not None and int(r[0]) != asm:
            continue
        if comp is not None and int(r[1]) != comp:
            continue
        if zlo is not None and abs(float(r[2]) - zlo) > 1e-12:
            continue
        out.append(i)
    return out


def _first_comp(rows):
    return int(rows[0][1])


def _csv_mut(mid, fault, edit, needs=(), expect='reject'):
    @mut('power_csv:' + mid, 'Power/user_power (CSV)', fault, expect,
         needs=needs)
    def fn(P, T, rng):
        return _csv_edit(lambda rows: edit(rows, P, rng))
    return fn


def _e_drop_row(rows, P, rng):
    c = _first_comp(rows)
    idx = _sel(rows, 1, c, float(rows[0][2]))
    del rows[idx[int(rng.integers(len(idx)))]]
    return rows


def _e_drop_item(rows, P, rng):
    c = _first_comp(rows)
    idx = _sel(rows, 1, c)
    n = max(int(rows[i][4]) for i in idx)
    return [r for i, r in enumerate(rows)
            if not (i in set(idx) and int(r[4]) == n)]


def _e_extra_item(rows, P, rng):
    c = _first_comp(rows)
    idx = _sel(rows, 1, c)
    n = max(int(rows[i][4]) for i in idx)
    out = []
    for i, r in enumerate(rows):
        out.append(r)
        if i in set(idx) and int(r[4]) == n:
            r2 = list(r)
            r2[4] = str(n + 1)
            out.append(r2)
    return out


def _e_comp_count(comp):
    def e(rows, P, rng):
        idx = _sel(rows, 1, comp)
        if not idx:
            raise RuntimeError('mutator: component %d absent' % comp)
        n = max(int(rows[i][4]) for i in idx)
        return [r for i, r in enumerate(rows)
                if not (i in set(idx) and int(r[4]) == n)]
    return e


def _zcells(rows):
    return sorted({(float(r[2]), float(r[3])) for r in rows
                   if int(r[0]) == 1})


def _e_z_gap(rows, P, rng):
    cells = _zcells(rows)
    zl, zh = cells[0]
    new = repr(zl + (zh - zl) * 0.9)
    for r in rows:
        if int(r[0]) == 1 and float(r[2]) == zl:
            r[3] = new
    return rows


def _e_z_overlap(rows, P, rng):
    cells = _zcells(rows)
    zl, zh = cells[0]
    zl2, zh2 = cells[1]
    new = repr(zh + (zh2 - zl2) * 0.3)
    for r in rows:
        if int(r[0]) == 1 and float(r[2]) == zl:
            r[3] = new
    return rows


def _e_short(rows, P, rng):
    cells = _zcells(rows)
    zl, zh = cells[-1]
    new = repr(zl + (zh - zl) * 0.8)
    for r in rows:
        if float(r[2]) == zl:
            r[3] = new
    return rows


def _e_long(rows, P, rng):
    cells = _zcells(rows)
    zl, zh = cells[-1]
    new = repr(zh * 1.1)
    for r in rows:
        if float(r[2]) == zl:
            r[3] = new
    return rows


def _e_start(rows, P, rng):
    cells = _zcells(rows)
    zl, zh = cells[0]
    new = repr(zl + (zh - zl) * 0.2)
    for r in rows:
        if float(r[2]) == zl:
            r[2] = new
    return rows


def _e_comp_z(rows, P, rng):
    comps = sorted({int(r[1]) for r in rows if int(r[0]) == 1})
    if len(comps) < 2:
        raise RuntimeError('mutator: needs two power components')
    c = comps[-1]
    zl, zh = _zcells(rows)[0]
    zmid = repr(zl + 0.5 * (zh - zl))

    def mine(r):
        return int(r[0]) == 1 and int(r[1]) == c
    blk = []
    for r in rows:
        if not mine(r):
            continue
        if float(r[2]) == zl:
            a, b = list(r), list(r)
            a[3] = zmid
            b[2] = zmid
            blk += [a, b]
        else:
            blk.append(r)
    blk.sort(key=lambda r: (float(r[2]), int(r[4])))
    out, done = [], False
    for r in rows:
        if mine(r):
            if not done:
                out.extend(blk)
                done = True
        else:
            out.append(r)
    return out


def _e_nonnumeric(rows, P, rng):
    i = int(rng.integers(len(rows)))
    rows[i][5] = 'abc'
    return rows


def _e_ragged(rows, P, rng):
    i = int(rng.integers(len(rows)))
    rows[i] = rows[i] + ['1.0']
    return rows


def _e_short_row(rows, P, rng):
    i = int(rng.integers(len(rows)))
    rows[i] = rows[i][:-1] if len(rows[i]) > 6 else rows[i][:5]
    return rows


def _e_empty_field(rows, P, rng):
    i = int(rng.integers(len(rows)))
    rows[i][5] = ''
    return rows


def _nonzero_rows(rows):
    return [i for i, r in enumerate(rows) if float(r[5]) > 0.0]


def _e_neg_one(rows, P, rng):
    nz = _nonzero_rows(rows)
    if not nz:
        raise RuntimeError('mutator: zero power base')
    i = nz[int(rng.integers(len(nz)))]
    rows[i][5:] = [repr(-float(x)) for x in rows[i][5:]]
    return rows


def _e_neg_all(rows, P, rng):
    if not _nonzero_rows(rows):
        raise RuntimeError('mutator: zero power base')
    for r in rows:
        r[5:] = [repr(-float(x)) for x in r[5:]]
    return rows


def _e_neg_edge(rows, P, rng):
    nz = _nonzero_rows(rows)
    if not nz:
        raise RuntimeError('mutator: zero power base')
    i = nz[int(rng.integers(len(nz)))]
    c0 = float(rows[i][5])
    # linear term large enough that the profile is negative at one end
    rows[i][6] = repr(4.0 * c0 * (1 if rng.random() < 0.5 else -1))
    return rows


def _e_nan(rows, P, rng):
    i = int(rng.integers(len(rows)))
    rows[i][5] = 'nan'
    return rows


def _e_inf(rows, P, rng):
    i = int(rng.integers(len(rows)))
    rows[i][5] = 'inf'
    return rows


def _e_dup_item(rows, P, rng):
    c = _first_comp(rows)
    idx = _sel(rows, 1, c, float(rows[0][2]))
    if len(idx) < 3:
        raise RuntimeError('mutator: too few items')
    rows[idx[1]][4] = rows[idx[0]][4]
    return rows


def _e_zero_based(rows, P, rng):
    c = _first_comp(rows)
    for i in _sel(rows, 1, c):
        rows[i][4] = str(int(rows[i][4]) - 1)
    return rows


def _e_inverted_cell(rows, P, rng):
    cells = _zcells(rows)
    zl, zh = cells[0]
    for r in rows:
        if float(r[2]) == zl and float(r[3]) == zh:
            r[2], r[3] = r[3], r[2]
    return rows


def _e_zero_cell(rows, P, rng):
    cells = _zcells(rows)
    zl, zh = cells[0]
    zl2, zh2 = cells[1]
    for r in rows:
        if float(r[2]) == zl:
            r[3] = r[2]
        elif float(r[2]) == zl2:
            r[2] = repr(zl)
    # first cell now has zero height and the second starts at the bottom
    return rows


def _e_unknown_asm(rows, P, rng):
    extra = []
    for r in rows:
        if int(r[0]) == 1:
            r2 = list(r)
            r2[0] = '99'
            extra.append(r2)
    return rows + extra


def _e_missing_asm(rows, P, rng):
    last = max(int(r[0]) for r in rows)
    return [r for r in rows if int(r[0]) != last]


def _e_bad_component(rows, P, rng):
    c = _first_comp(rows)
    for i in _sel(rows, 1, c):
        rows[i][1] = '4'
    return rows


def _e_empty_file(rows, P, rng):
    return []


def _e_header(rows, P, rng):
    return [['asm', 'comp', 'zlo', 'zhi', 'idx', 'c0']] + rows


def _later_of_type(P):
    """CSV id (1-based position index) of an assembly whose type already
    occurs at an earlier position."""
    from vmon import gen as _g
    seen = set()
    for q in sorted(P['positions'],
                    key=lambda q: _g.pos_index0(q['ring'], q['pos'])):
        if q['type'] in seen:
            return _g.pos_index0(q['ring'], q['pos']) + 1
        seen.add(q['type'])
    return None


def _e_drop_item_later(rows, P, rng):
    a = _later_of_type(P)
    comps = sorted({int(r[1]) for r in rows if int(r[0]) == a})
    idx = _sel(rows, a, comps[0])
    n = max(int(rows[i][4]) for i in idx)
    return [r for i, r in enumerate(rows)
            if not (i in set(idx) and int(r[4]) == n)]


def _e_short_later(rows, P, rng):
    a = _later_of_type(P)
    cells = sorted({(float(r[2]), float(r[3])) for r in rows
                    if int(r[0]) == a})
    zl, zh = cells[-1]
    new = repr(zl + (zh - zl) * 0.8)
    for r in rows:
        if int(r[0]) == a and float(r[2]) == zl:
            r[3] = new
    return rows


_csv_mut('item_missing_everywhere:later_assembly_of_its_type',
         'wrong item count', _e_drop_item_later, needs=('core2', 'reptype'))
_csv_mut('z_too_short:later_assembly_of_its_type', 'wrong length',
         _e_short_later, needs=('core2', 'reptype'))
_csv_mut('item_missing_in_one_cell', 'wrong item count', _e_drop_row)
_csv_mut('item_missing_everywhere', 'wrong item count', _e_drop_item,
         needs=('nolf',))
_csv_mut('item_extra', 'wrong item count', _e_extra_item, needs=('nolf',))
_csv_mut('duct_item_count', 'wrong item count', _e_comp_count(2),
         needs=('nolf', 'pw_duct'))
_csv_mut('coolant_item_count', 'wrong item count', _e_comp_count(3),
         needs=('nolf', 'pw_cool'))
_csv_mut('item_duplicated', 'wrong item count', _e_dup_item)
_csv_mut('item_index_zero_based', 'wrong item count', _e_zero_based)
_csv_mut('z_gap', 'gap in z', _e_z_gap, needs=('ncell2',))
_csv_mut('z_overlap', 'overlap in z', _e_z_overlap, needs=('ncell2',))
_csv_mut('z_cell_inverted', 'inverted axial cell', _e_inverted_cell)
_csv_mut('z_cell_zero_height', 'zero-height axial cell', _e_zero_cell,
         needs=('ncell2',))
_csv_mut('z_too_short', 'wrong length', _e_short)
_csv_mut('z_too_long', 'wrong length', _e_long)
_csv_mut('z_start_not_zero', 'wrong length', _e_start)
_csv_mut('z_components_disagree', 'components on different axial cells',
         _e_comp_z, needs=('pw_two',))
_csv_mut('nonnumeric_token', 'non-numeric', _e_nonnumeric)
_csv_mut('row_too_long', 'ragged rows', _e_ragged)
_csv_mut('row_too_short', 'ragged rows', _e_short_row)
_csv_mut('empty_field', 'non-numeric', _e_empty_field)
_csv_mut('header_line', 'non-numeric', _e_header)
_csv_mut('empty_file', 'empty file', _e_empty_file)
_csv_mut('negative_one_item', 'negative power', _e_neg_one,
         needs=('pw_pos',))
_csv_mut('negative_everything', 'negative power', _e_neg_all,
         needs=('pw_pos',))
_csv_mut('negative_at_cell_edge', 'negative power', _e_neg_edge,
         needs=('pw_pos', 'order1'))
_csv_mut('nan_coefficient', 'nan literal', _e_nan)
_csv_mut('inf_coefficient', 'inf literal', _e_inf)
_csv_mut('unknown_assembly_id', 'power for an assembly not in the core',
         _e_unknown_asm, expect='safe')
_csv_mut('assembly_without_power', 'assembly has no power rows',
         _e_missing_asm, needs=('core2',), expect='safe')
_csv_mut('unknown_component_id', 'component id not 1..3',
         _e_bad_component, expect='safe')

# ---- the duct faults again, on inputs whose pairs are written "outer, inner"
for _m in list(CATALOG):
    if _m['id'].startswith(('duct_ge_pitch:', 'duct_zero_wall', 'duct_overlap',
                            'duct_zero_bypass_gap', 'pins_misfit:duct_shrunk',
                            'outer_duct_unequal:wall_only',
                            'outer_duct_unequal:smaller_by_1e-05',
                            'Assembly/duct_ftf[')):
        _t = dict(_m)
        _t['id'] = _m['id'] + ':reversed_pairs'
        _t['fault'] = _m['fault'] + ' (pairs written outer, inner)'
        _t['needs'] = tuple(_m['needs']) + ('revpairs',)
        CATALOG.append(_t)


# ---- power profile with no negative coefficient that is negative inside
#      the cell (odd term steep enough), per component and order
def _e_neg_inside(comp, order):
    def e(rows, P, rng):
        idx = _sel(rows, 1, comp)
        if not idx:
            raise RuntimeError('mutator: component %d absent' % comp)
        ncoef = max(len(rows[0]) - 5, order + 1)
        for r in rows:
            # same number of columns everywhere, no negative coefficient
            # anywhere (the generated profiles stay positive: the higher
            # terms are bounded by 0.9 c0 in absolute value)
            c = [abs(float(x)) for x in r[5:]]
            c += [0.0] * (ncoef - len(c))
            r[5:] = [repr(x) for x in c]
        nz = [i for i in idx if float(rows[i][5]) > 0.0]
        if not nz:
            raise RuntimeError('mutator: zero power base')
        i = nz[int(rng.integers(len(nz)))]
        c0 = float(rows[i][5])
        c = [c0] + [0.0] * (ncoef - 1)
        # p(-1/2) = c0 - k c0 / 2**order = -c0 / 2
        c[order] = 1.5 * c0 * 2 ** order
        rows[i][5:] = [repr(x) for x in c]
        return rows
    return e


for _c, _cn, _need in ((1, 'pins', ('pw_pins',)), (2, 'duct', ('pw_duct',)),
                       (3, 'coolant', ('pw_cool',))):
    for _o in (1, 3):
        _csv_mut('negative_inside_cell_nonneg_coefficients:%s_order%d'
                 % (_cn, _o), 'negative power', _e_neg_inside(_c, _o),
                 needs=('pw_pos', 'nolf') + _need)

MUT_BY_ID = {m['id']: m for m in CATALOG}
assert len(MUT_BY_ID) == len(CATALOG), 'duplicate mutator id'


# ----------------------------------------------------------------------
# cases


def cases(tier, seed):
    quick = (tier == 'quick')
    out = []
    n_single = 60 if quick else 1200
    n_core = 6 if quick else 100
    for i in range(n_single):
        out.append({'name': 'A-single-%d' % i, 'kind': 'valid',
                    'sub': 'single', 'seed': [seed, 1, i]})
    for i in range(n_core):
        out.append({'name': 'A-core-%d' % i, 'kind': 'valid', 'sub': 'core',
                    'seed': [seed, 2, i]})
    n_opt = 3 if quick else 24
    for o in OPTIONS:
        if o['id'] == 'none':
            continue
        for j in range(n_opt):
            out.append({'name': 'A-opt-%s-%d' % (o['id'], j), 'kind': 'option',
                        'opt': o['id'], 'seed': [seed, 3, j]})
    n_rep = 3 if quick else 24
    for m in CATALOG:
        if quick and m.get('thorough_only'):
            continue
        n = n_rep
        if quick and 'core2' in m['needs']:
            n = 2          # seven-assembly bases are the expensive ones
        if m['id'] == 'Setup/axial_mesh_size=tiny':
            n = 1 if quick else 4    # 2e5 guarded mesh calls each
        for j in range(n):
            out.append({'name': 'B-%s-%d' % (m['id'], j), 'kind': 'mutant',
                        'mut': m['id'], 'seed': [seed, 4, j]})
    for f_ in ('negative_power', 'one_pin_missing', 'ends_below_core_top'):
        for j in range(2 if quick else 12):
            out.append({'name': 'B-history-%s-%d' % (f_, j),
                        'kind': 'history', 'fault': f_,
                        'seed': [seed, 6, j]})
    # the repository's own example inputs are valid by construction: each
    # must be swept (a reader that starts refusing valid input is as much a
    # violation as one that accepts invalid input)
    for n, nm in enumerate(drive.repo_inputs()):
        out.append({'name': 'A-repo-' + nm[6:-4], 'kind': 'repo',
                    'input': nm, 'seed': [seed, 5, n]})
    for c in out:
        c['tier'] = tier
    return out


# ----------------------------------------------------------------------


# DASSH's documented run-time error exits on inputs that are well formed
# (property range of a material left during the sweep, fixed-point iteration
# of the pin model not converged): tagged, never counted as a pass
PHYSICAL = ('temperature must be > 0', 'out of range', 'outside the range',
            'did not converge', 'material update failure')


def _needs_ok(P, T, needs):
    """Requirements on the base that make_base does not construct."""
    t = P['types'][T]
    spec = P['power']['asm'][str(gen.pos_index0(P['positions'][0]['ring'],
                                                 P['positions'][0]['pos']))]
    comps = spec.get('comps', [1, 2, 3])
    for n in needs:
        if n == 'nolf' and t.get('use_low_fidelity_model'):
            return False
        if n == 'reptype' and _later_of_type(P) is None:
            return False
        if n == 'pw_pins' and 1 not in comps:
            return False
        if n == 'pw_duct' and 2 not in comps:
            return False
        if n == 'pw_cool' and 3 not in comps:
            return False
        if n == 'pw_two' and len(comps) < 2:
            return False
        if n == 'pw_pos' and (spec.get('shape') == 'zero'
                              or spec['total'] <= 0.0):
            return False
    return True


def _reverse_pairs(P):
    """Write every duct as "outer FTF, inner FTF": the order inside a pair
    is free in DASSH input (the two values are sorted downstream)."""
    for tt in P['types'].values():
        f = list(tt['duct_ftf'])
        for d in range(len(f) // 2):
            f[2 * d], f[2 * d + 1] = f[2 * d + 1], f[2 * d]
        tt['duct_ftf'] = f


def _base_for(case, needs):
    seed = list(case['seed'])
    for k in range(40):
        rng = np.random.default_rng(seed + [k])
        P, feats, T = make_base(rng, needs,
                                small=(case.get('tier') != 'thorough'))
        if _needs_ok(P, T, needs):
            if 'revpairs' in needs:
                _reverse_pairs(P)
            return P, feats, T, rng
    raise RuntimeError('no base satisfies %r' % (needs,))


def _key(m, o):
    k = {'key': m['key'], 'fault': m['fault'], 'mutator': m['id'],
         'outcome': o['outcome']}
    if o.get('where'):
        k['where'] = o['where']
    if o['outcome'] in ('rejected_late',):
        k['stage'] = o['stage']
    return k


def _brief(o):
    d = {k: o.get(k) for k in ('outcome', 'stage', 'n_calc', 'n_dz',
                               'steps', 'where', 'exc')}
    d['msg'] = (o['msgs'][-1][:240] if o.get('msgs') else None)
    return d


def run_valid(case, res):
    rng = np.random.default_rng(case['seed'])
    thorough = (case.get('tier') == 'thorough')
    cap = 30000 if thorough else 6000
    if case['kind'] == 'option':
        opt = [o for o in OPTIONS if o['id'] == case['opt']][0]
        needs = [n for n in opt['needs']]
        P, feats, T, rng = _base_for(case, needs)
        opt['fn'](P, T, rng)
        label = 'opt:' + opt['id']
    elif case['sub'] == 'single':
        P, feats = wl.single_assembly(rng, max_rings=7)
        label = 'single'
    else:
        P, feats = wl.core_problem(
            rng, n_ring=(2 if case.get('tier') != 'thorough'
                         else int(wl.choose(rng, [2, 2, 3]))),
            tdep=bool(rng.random() < 0.3),
            gap=wl.choose(rng, ['flow', 'flow', 'none', 'no_flow',
                                'duct_average']),
            empty_frac=0.2, max_rings=4)
        label = 'core'
        cap = 8000 if thorough else 3000
    o = observe(P, max_steps=cap)
    for k in ('gap', 'n_duct', 'lf', 'tdep', 'conv_approx'):
        if k in feats:
            res.tag('A_%s=%s' % (k, feats[k]))
    if feats.get('regions'):
        res.tag('A_with_axial_regions')
    res.d['obs'] = {'part': 'A', 'id': label, 'outcome': o['outcome']}
    res.tag('A:%s' % o['outcome'])
    res.stat('A_steps', o['steps'])
    key = {'part': 'A', 'variant': label, 'outcome': o['outcome']}
    if o.get('where'):
        key['where'] = o['where']
    if o['outcome'] == 'setup_only':
        res.tag('A_setup_only_too_many_steps')
        res.status('rejected', 'set up, %d steps not swept' % o['steps'])
        return
    if o['outcome'] == 'non_progress:>2e5_steps':
        # a valid input whose stability limit asks for > 2e5 steps is
        # advancing (slowly); it is neither swept nor counted
        res.tag('A_mesh_needs_more_than_2e5_steps')
        res.status('rejected', 'mesh needs more than 2e5 steps')
        res.sample({'case': case, 'features': feats, 'obs': _brief(o)})
        return
    if o['outcome'] == 'rejected' or (
            o['outcome'] == 'rejected_late'
            and any(p in ' '.join(o['msgs']).lower() for p in PHYSICAL)):
        # DASSH's own error exit on a generated input: not a pass, not an
        # unhandled failure. Reported, with the message.
        res.tag('A_dassh_error_exit:%s' % o['stage'])
        res.status('rejected', '%s: %s' % (o['stage'], o['msgs'][-1][:200]))
        res.sample({'case': case, 'obs': _brief(o)})
        return
    ok = (o['outcome'] == 'ran')
    res.check('A_valid_input_runs', ok,
              'valid generated input (%s) ended in %s%s' % (
                  label, o['outcome'],
                  (' at ' + o['where']) if o.get('where') else ''),
              key, _brief(o))
    if ok and o['steps'] >= 10:
        res.nontrivial('A/%s/%s' % (label, sorted(
            (k, str(v)) for k, v in feats.items()
            if k in ('nr', 'n_duct', 'gap', 'lf', 'tdep', 'corr',
                     'n_asm'))))
    res.sample({'case': case, 'features': feats, 'obs': _brief(o)})


def run_mutant(case, res):
    m = MUT_BY_ID[case['mut']]
    P0, feats, T, rng = _base_for(case, m['needs'])
    b = observe(P0)
    res.tag('B_base:%s' % b['outcome'])
    if b['outcome'] != 'ran':
        # the base itself is not a valid runnable input: uninformative
        res.status('rejected', 'base input: %s %s' % (
            b['outcome'], (b['msgs'][-1][:160] if b['msgs'] else
                           b.get('exc'))))
        res.d['obs'] = {'part': 'B', 'id': m['id'], 'outcome': 'base:'
                        + b['outcome']}
        return
    res.count('B_base_input_runs')
    P = copy.deepcopy(P0)
    post = m['fn'](P, T, rng)
    # the power file is the one of the base unless the mutator asks for a
    # file that follows the (legal) change of the pin count
    follow = P.pop('_power_follows', False)
    o = observe(P, post=post, P_csv=(P if follow else P0))
    res.d['obs'] = {'part': 'B', 'id': m['id'], 'key': m['key'],
                    'fault': m['fault'], 'expect': m['expect'],
                    'outcome': o['outcome'], 'where': o.get('where'),
                    'stage': o['stage'],
                    'msg': (o['msgs'][-1][:160] if o['msgs'] else None)}
    res.tag('B_outcome:%s' % o['outcome'].split(':')[0])
    res.tag('B_expect:%s' % m['expect'])
    if o['outcome'] == 'rejected':
        res.tag('B_rejected_at:%s' % o['stage'])
    key = _key(m, o)
    what = '%s [%s] -> %s' % (m['key'], m['fault'], o['outcome'])
    if o.get('where'):
        what += ' at ' + o['where']
    if o.get('exc'):
        what += ' (%s)' % o['exc'][:120]
    if m['expect'] == 'reject':
        res.check('B_invalid_input_rejected', o['outcome'] == 'rejected',
                  'impossible input not rejected before any calculation: '
                  + what, key, _brief(o))
    else:
        res.check('B_accepted_input_runs', o['outcome'] in ('rejected',
                                                            'ran'),
                  'input neither rejected with a message nor runnable: '
                  + what, key, _brief(o))
    if m['expect'] == 'reject' and o['outcome'] == 'rejected' and \
            case['seed'][-1] % 3 == 0:
        # the same faulty input with logging silenced by the caller
        P2, _f2, T2, rng2 = _base_for(case, m['needs'])   # same draws
        post2 = m['fn'](P2, T2, rng2)
        follow2 = P2.pop('_power_follows', False)
        q = observe(P2, post=post2, P_csv=(P2 if follow2 else P0),
                    quiet_logging=True)
        res.check('B2_rejection_independent_of_logging',
                  q['outcome'] == 'rejected',
                  'impossible input rejected with logging active but not '
                  'with logging disabled by the caller: %s [%s] -> %s%s'
                  % (m['key'], m['fault'], q['outcome'],
                     (' at ' + q['where']) if q.get('where') else ''),
                  dict(key, logging='disabled'), _brief(q))
    res.nontrivial('B/' + m['id'])
    res.sample({'case': case, 'mutator': m['id'], 'key': m['key'],
                'fault': m['fault'], 'expect': m['expect'],
                'base_features': feats, 'obs': _brief(o)})


def run_repo(case, res):
    key = {'part': 'A', 'variant': 'repository example input'}
    outcome, detail = 'ran', ''
    try:
        with drive.scratch('c18_') as d:
            inp, r = drive.build_repo_input(case['input'], d)
            drive.sweep(r)
            bad = _nonfinite_temps(r)
            if bad:
                outcome, detail = 'nonfinite', str(bad[0])
    except drive.Rejected as e:
        if any(lv == 'HARNESS' for lv, _m in e.messages):
            # data files of the example are not in this checkout
            res.status('rejected', str(e))
            res.tag('A_repo:data_files_missing')
            return
        outcome, detail = 'rejected:' + e.stage, str(e)[-300:]
    except CaseTimeout:
        raise
    except Exception as e:
        outcome, detail = 'exception:' + type(e).__name__, ('%s' % e)[:300]
    res.check('A_repository_example_input_runs', outcome == 'ran',
              'example input %s of the repository ended in %s: %s'
              % (case['input'], outcome, detail), key)
    res.tag('A_repo:%s' % outcome.split(':')[0])
    res.d['obs'] = {'part': 'A', 'id': 'repo', 'outcome': outcome}
    if outcome == 'ran':
        res.nontrivial('A/repo/' + case['input'])
    res.sample({'case': case, 'outcome': outcome})


def _csv_fault(lines, fault):
    rows = [ln.split(',') for ln in lines if ln.strip()]
    if fault == 'negative_power':
        for r in rows:
            if int(float(r[1])) == 1:
                r[5] = repr(-abs(float(r[5])) - 100.0)
                break
    elif fault == 'one_pin_missing':
        pins = [i for i, r in enumerate(rows) if int(float(r[1])) == 1]
        del rows[pins[-1]]
    elif fault == 'ends_below_core_top':
        zmax = max(float(r[3]) for r in rows)
        for r in rows:
            if float(r[3]) == zmax:
                r[3] = repr(0.9 * zmax)
    return [','.join(s.strip() for s in r) + '\n' for r in rows]


def run_history(case, res):
    """A valid run, then the power file CHANGED IN PLACE to a faulty one and
    the input read again in the same process: what was read from that path
    before must not stand in for what is there now."""
    import dassh
    P0, feats, T, rng = _base_for(case, ('nolf', 'pw_pins', 'pw_pos'))
    key = {'part': 'B', 'fault': case['fault'], 'history': 'same path'}
    with drive.scratch('c18_') as d, Hooks() as hk:
        hk.wrap(dassh.assembly.Assembly, 'calculate', label='calc')
        path = os.path.join(d, 'input.txt')
        pcsv = os.path.join(d, 'power.csv')
        gen.write_power_csv(P0, pcsv)
        with open(path, 'w') as f:
            f.write(gen.render_text(P0, 'power.csv'))
        try:
            inp = drive.read_input(path)
            drive.build_reactor(inp)
        except drive.Rejected as e:
            res.status('rejected', 'base input: %s' % e)
            return
        bad = _csv_fault(open(pcsv).readlines(), case['fault'])
        with open(pcsv, 'w') as f:
            f.writelines(bad)
        outcome = 'ran'
        try:
            inp2 = drive.read_input(path)
            r2 = drive.build_reactor(inp2)
            drive.sweep(r2)
        except drive.Rejected as e:
            outcome = 'rejected' if hk.n['calc'] == 0 else 'rejected_late'
        except CaseTimeout:
            raise
        except Exception as e:
            outcome = 'exception:' + type(e).__name__
    res.check('B3_fault_in_a_file_read_before_is_rejected',
              outcome == 'rejected',
              'power file changed in place to a faulty one (%s) after a '
              'valid run from the same path in the same process -> %s'
              % (case['fault'], outcome), key)
    res.d['obs'] = {'part': 'B', 'id': 'history:' + case['fault'],
                    'outcome': outcome}
    res.nontrivial('B/history/' + case['fault'])


def run_case(case):
    res = Result(case)
    if case['kind'] == 'history':
        run_history(case, res)
        return res
    if case['kind'] == 'repo':
        run_repo(case, res)
        return res
    if case['kind'] == 'mutant':
        run_mutant(case, res)
    else:
        run_valid(case, res)
    return res


def extra_coverage(results):
    """Outcome table of the catalogue: mutator id -> {outcome: count}."""
    tab = {}
    for r in results:
        ob = r.get('obs')
        if not ob or ob.get('part') != 'B':
            continue
        t = tab.setdefault(ob['id'], {})
        lab = ob['outcome']
        if lab.startswith('exception') and ob.get('where'):
            lab += ' @' + ob['where']
        t[lab] = t.get(lab, 0) + 1
    return {'catalogue_size': len(CATALOG),
            'catalogue_outcomes': tab,
            'valid_options': [o['id'] for o in OPTIONS]}


# ----------------------------------------------------------------------


FINDINGS = {
    'F4': 'required axial step floors to 0 (np.floor(min_dz*1e6)/1e6) or a '
          'zero axial_mesh_size is taken over: Reactor._setup_zpts never '
          'advances (repaired upstream in 074c855; rules kept for older '
          'trees)',
    'F12c': 'spacer-grid correlation with default solidity in an SI input: '
           'ValueError "Cannot convert unit to itself" in check_spacergrid',
    'F1823': 'axial_mesh_size has no useful lower bound: 1e-12 m is taken '
             'over and the mesh construction needs 5e11 planes (F4\'s '
             'repair 074c855 only stops steps that round to zero)',
    'F1824': 'clad_thickness == pin radius accepted (strict "<" in '
             'check_pin): with a fuel model the clad inner radius is 0, clad '
             'temperatures are nan / the run stops after the first step',
    'F1801': 'wire_pitch = 0 with wire_diameter > 0 accepted: '
           'ZeroDivisionError in the friction / flow-split correlations',
    'F1802': 'SpacerGrid loss_coeff = 0 is treated as "not given": '
           'AssertionError in RoddedRegion._setup_spacer_grid',
    'F1803': 'nan / inf literals pass ConfigObj validation, the Assignment '
           'parser and the power CSV reader',
    'F1804': 'unreadable power CSV (non-numeric token, ragged rows, header, '
           'empty file, unknown component id): numpy/Python exception '
           'escapes power._from_file',
    'F1805': 'duplicated item index in the power CSV: reshape ValueError '
           '(one axial cell) or silently accepted (several cells)',
    'F51': 'power profile longer than Core/length accepted: the length it '
           'is compared with (Reactor.core_length) is the largest of all '
           'axial boundaries, the profile\'s own included',
    'F1806': 'power CSV axial cell with z_lo > z_hi accepted',
    'F1807': 'AxialRegion with zero height accepted: the height loop skips '
           'the first (sorted) region',
    'F1808': 'AxialRegion overlap across the pin bundle accepted (sign-blind '
           'count in _check_reg_bnds); no bundle left: IndexError',
    'F1809': 'nested ducts that touch or overlap (bypass gap <= 0) accepted',
    'F1810': 'unknown AxialRegion model name: NotImplementedError traceback '
           'instead of an input error',
    'F1811': 'template key bypass_gap_loss_coeff: every value raises '
           'NotImplementedError at set-up',
    'F1812': 'dummy_pin input: KeyError "n_ring" in check_dummy_pin',
    'F1813': 'spacer-grid correlation with a MIT/NOV/SE2 flow split: '
             'TypeError (unexpected keyword "grid"); repaired upstream in '
             'd92e2aa, rule kept for older trees',
    'F1814': 'bypass_fraction = 1 accepted: ZeroDivisionError in '
           'Reactor._calculate_total_fr',
    'F1815': 'bypass_gap_flow_fraction has no bounds: >= 1 hangs set-up or '
           'gives nan temperatures',
    'F1816': 'outlet temperature <= inlet (or a temperature-rise condition '
           'with zero power): ValueError / TypeError / no progress',
    'F1817': 'conv_approx with an unrodded region limiting the step of a pin '
           'assembly: TypeError ("int" not subscriptable) - valid inputs',
    'F1818': 'non-numeric token in an Assignment line: ValueError traceback',
    'F1819': 'user coolant with zero thermal conductivity accepted: '
           'ZeroDivisionError (Prandtl number)',
    'F1820': 'assembly without rows in the user power CSV: KeyError "dif3d"',
    'F1821': 'pin_pitch == pin_diameter accepted: nan step requirement',
    'F1822': 'AxialRegion vf_coolant = 0 accepted: no progress / nan / '
           'TypeError',
}

# Known mechanisms. Each rule is (finding id, predicate on the violation key).
# Rules are tried in order; a violation that matches none stays unclassified
# (= new). Ids: F4 (C05's req_dz_floors_to_zero), F12c (C17's check_spacergrid
# unit conversion) and F51 (C05's core_length_from_max_boundary) are shared
# with other checks; F18nn were found by this check.

_NONRUN = ('non_progress', 'nonfinite')


def _bad(out, *kinds):
    return any(out.startswith(k) for k in kinds)


def _rules():
    R = []

    def rule(fid, fn):
        R.append((fid, fn))

    # --- valid inputs (Part A)
    rule('F12c', lambda k, o, w: k.get('variant') ==
         'opt:grid_corr_default_solidity' and o == 'exception:ValueError'
         and w == 'utils.py:_preprocess_units')
    rule('F1812', lambda k, o, w: k.get('variant') == 'opt:dummy_pin'
         and o == 'exception:KeyError'
         and w == 'read_input.py:check_dummy_pin')
    rule('F1813', lambda k, o, w: k.get('variant') ==
         'opt:grid_corr_non_CT_flowsplit' and o == 'exception:TypeError'
         and w == 'region_rodded.py:_init_static_correlated_params')
    rule('F1811', lambda k, o, w: (k.get('variant') ==
                                 'opt:bypass_gap_loss_coeff'
                                 or k.get('key') ==
                                 'Assembly/bypass_gap_loss_coeff')
         and o == 'exception:NotImplementedError'
         and w == 'region_rodded.py:_setup_flowrate')
    rule('F1817', lambda k, o, w: o == 'exception:TypeError'
         and w == 'reactor.py:_setup_asm_axial_mesh_req'
         and (k.get('part') == 'A'
              or k.get('mutator') == 'AxialRegion/vf_coolant=tiny'))
    # --- literals that are not numbers
    rule('F1803', lambda k, o, w: k.get('fault') in (
        'nan', 'inf', 'neg_inf', 'nan literal', 'inf literal'))
    # --- step requirement not positive
    rule('F1823', lambda k, o, w: k.get('mutator') ==
         'Setup/axial_mesh_size=tiny' and o == 'non_progress:>2e5_steps')
    rule('F4', lambda k, o, w: k.get('mutator') in (
        'Core/bypass_fraction=tiny', 'Assignment/flowrate=tiny',
        'Assembly/bypass_gap_flow_fraction=tiny',
        'Assembly/wire_pitch=tiny', 'AxialRegion/vf_coolant=tiny',
        'Setup/axial_mesh_size=zero', 'Setup/axial_mesh_size=tiny')
        and _bad(o, 'non_progress'))
    rule('F1801', lambda k, o, w: k.get('mutator') in (
        'Assembly/wire_pitch=zero', 'Assembly/wire_pitch=zero:CT_friction')
        and o == 'exception:ZeroDivisionError')
    rule('F1802', lambda k, o, w: k.get('mutator') == 'SpacerGrid/loss_coeff=zero'
         and o == 'exception:AssertionError'
         and w == 'region_rodded.py:_setup_spacer_grid')
    rule('F1804', lambda k, o, w: k.get('mutator') in (
        'power_csv:nonnumeric_token', 'power_csv:row_too_long',
        'power_csv:row_too_short', 'power_csv:empty_field',
        'power_csv:header_line', 'power_csv:empty_file',
        'power_csv:unknown_component_id')
        and o.startswith('exception:') and (w or '').startswith('power.py:'))
    rule('F1805', lambda k, o, w: k.get('mutator') == 'power_csv:item_duplicated'
         and (o == 'ran' or (o == 'exception:ValueError'
                             and w == 'power.py:_from_file')))
    rule('F51', lambda k, o, w: k.get('mutator') == 'power_csv:z_too_long'
         and o == 'ran')
    rule('F1806', lambda k, o, w: k.get('mutator') == 'power_csv:z_cell_inverted'
         and o == 'ran')
    rule('F1807', lambda k, o, w: k.get('mutator') in (
        'AxialRegion/z_hi=zero', 'region_zero_height:upper_at_top')
        and o == 'ran')
    rule('F1808', lambda k, o, w: (k.get('mutator') ==
                                 'region_overlap:across_bundle'
                                 and o == 'ran')
         or (k.get('mutator') in ('region_all_unrodded',
                                  'AxialRegion/z_lo=zero')
             and o == 'exception:IndexError'
             and w == 'read_input.py:_get_rodded_reg_bnds'))
    rule('F1809', lambda k, o, w: (k.get('mutator') == 'duct_overlap'
                                 and o == 'ran')
         or (k.get('mutator') == 'duct_zero_bypass_gap'
             and _bad(o, *_NONRUN)))
    rule('F1810', lambda k, o, w: k.get('mutator') == 'name:region_model'
         and o == 'exception:NotImplementedError'
         and w == 'region_unrodded.py:make_axialregion')
    rule('F1814', lambda k, o, w: k.get('mutator') == 'core:bypass_fraction=one'
         and o == 'exception:ZeroDivisionError'
         and w == 'reactor.py:_calculate_total_fr')
    rule('F1815', lambda k, o, w: k.get('mutator') in (
        'assembly:bypass_gap_flow_fraction=one',
        'assembly:bypass_gap_flow_fraction=above_one')
        and _bad(o, *_NONRUN))
    rule('F1816', lambda k, o, w: k.get('mutator') in (
        'assignment:outlet_below_inlet', 'assignment:outlet_equals_inlet',
        'assignment:temperature_bc_with_zero_power')
        and (_bad(o, *_NONRUN)
             or (o == 'exception:ValueError'
                 and w == 'utils.py:Q_equals_mCdT')
             or (o == 'exception:TypeError'
                 and w == 'reactor.py:_setup_asm_axial_mesh_req')))
    rule('F1818', lambda k, o, w: k.get('mutator') in (
        'assignment:nonnumeric_ring', 'assignment:nonnumeric_bc')
        and o == 'exception:ValueError'
        and w == 'read_input.py:_split_positions')
    rule('F1819', lambda k, o, w: k.get('mutator') ==
         'Materials/coolant/thermal_conductivity=zero'
         and o == 'exception:ZeroDivisionError')
    rule('F1820', lambda k, o, w: k.get('mutator') ==
         'power_csv:assembly_without_power' and o == 'exception:KeyError'
         and w == 'reactor.py:_setup_asm_power')
    rule('F1821', lambda k, o, w: k.get('mutator') == 'pitch_eq_diameter'
         and _bad(o, *_NONRUN))
    rule('F1822', lambda k, o, w: k.get('mutator') == 'AxialRegion/vf_coolant=zero'
         and (_bad(o, *_NONRUN)
             or (o == 'exception:TypeError'
                 and w == 'reactor.py:_setup_asm_axial_mesh_req')))
    rule('F1824', lambda k, o, w: k.get('mutator') ==
         'clad_eq_radius:fuel_model'
         and o in ('nonfinite', 'rejected_late'))
    # any other accepted input (valid ones included) whose step requirement
    # is not positive: same missing guard in the mesh construction
    rule('F4', lambda k, o, w: o == 'non_progress:dz<=0')
    return R


RULES = _rules()


def classify(v, case):
    k = v.get('key', {}) or {}
    o = k.get('outcome') or ''
    w = k.get('where')
    for fid, fn in RULES:
        try:
            if fn(k, o, w):
                return fid
        except Exception:
            continue
    return None
