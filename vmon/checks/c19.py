"""C19 - hot-spot temperatures reduce to nominal and grow with uncertainty.

Runtime monitors on the real dassh.hotspot code:

* contract cases call the real ``hotspot.calculate_temps`` on generated
  rise / subfactor arrays (monitors A*);
* stub cases call the real ``hotspot.analyze`` on a generated reactor-like
  object (generated peak profiles, built-in and generated CSV tables,
  exhaustive sigma levels) (monitors E*);
* e2e cases build generated single/multi-assembly problems with a FuelModel
  or PinModel and [[[Hotspot]]] sections, run the real sweep with a hook at
  ``Assembly.calculate`` exit that folds an independent running maximum over
  the pin_temps rows, run the real ``Reactor.postprocess`` and compare what
  ``hotspot.analyze`` returned (and what dassh.out prints) with the
  semi-statistical horizontal method re-implemented in
  vmon/oracle/c19_hcf.py (monitors E*);
* edge cases are e2e cases whose table / options hit a specific corner of the
  quantifier (monitors E0*): an expression in a column the requested
  location does not use (F191), an expression without dT (F192), a table
  without Direct or without Statistical rows (F193), a coolant hot spot for a
  type without pin model (F194), input_sigma = 0 (F195), a type with hot-spot
  requests that is assigned to no position (F196). The random cases avoid
  these corners so that the relations are exercised everywhere else.
"""
import os
import re
import math
import types as _types
import numpy as np

from vmon import gen, drive, workloads as wl
from vmon.harness import Result
from vmon.probe import Hooks
from vmon.oracle import c19_hcf as orc

dassh = drive.dassh
import dassh.hotspot as hs              # noqa: E402
from dassh.assembly import Assembly     # noqa: E402

PROPERTY = 'C19'
LEVEL = 'exploration'
TECHNIQUE = ('runtime monitoring: contracts on the real hotspot.calculate_temps'
             ' and hotspot.analyze (generated tables, exhaustive sigma levels)'
             '; end-to-end sweeps with an independent running-maximum fold at '
             'Assembly.calculate exit and an independent re-implementation of '
             'the semi-statistical horizontal method as value oracle')
LEVEL_TEXT = ('Every hot-spot temperature returned by the real analyze() in '
              'generated single/multi-assembly sweeps and stub reactors is '
              'compared with an independent oracle and with the relational '
              'statements of the property (unity, >= nominal, monotone in '
              'output sigma, inverse in input sigma, cumulative); held on the '
              'executions observed, not proved.')
LEVEL_NOTE = ('Trusts numpy/float arithmetic and the pin_temps rows DASSH '
              'holds at Assembly.calculate exit (their physics is not part of '
              'C19). Conventions taken from the documentation: the Cladding '
              'column applies to both cladding halves, an expression sees the '
              'nominal rise of the component it is applied to; value '
              'comparison is skipped where an expression is non-finite '
              '(zero rise).')
DESIGN_REF = 'DESIGN.md section 3, C19'
RULE = ('contract: random rise arrays (1-6 assemblies, 1-6 terms, zeros '
        'included) and subfactor arrays (0-8 direct, 0-14 statistical, factors'
        ' >= 1 or in [0.6, 2.5]), all input sigma 1-4 x output sigma 0-4; '
        'stub: 1-3 types x 1-8 assemblies with generated peak profiles, all '
        'five built-in tables and generated CSV tables (3-5 value columns, '
        'with/without dT expressions, BOM, lower-case type), all six '
        'locations; e2e: random pin bundles (2-5 rings, thorough 2-7; FuelModel '
        'or PinModel, with/without gap, constant and T-dependent materials, '
        'axial regions, 1-3 types on 7 positions, thorough up to 19) with '
        '1-6 hot-spot sections per type (sigma from the input file, then all '
        'input sigma 1-4 x output sigma 0-4 and a unity table through the '
        'reactor options); edge: one e2e case per corner F191-F196; '
        'a case is non-trivial when a '
        'hot-spot temperature exceeds the nominal one by > 0.5 K with a '
        'non-zero statistical part; distinct by (kind, locations, tables, '
        'assemblies)')
DECIDING = ['A1_value', 'A2_unity_is_nominal', 'A4_monotone_out_sigma',
            'A5_inverse_in_sigma', 'A6_cumulative_prefix',
            'E1_rises_at_nominal_peak', 'E2_value', 'E3_unity_is_nominal',
            'E4_ge_nominal', 'E5_monotone_out_sigma', 'E6_inverse_in_sigma',
            'E7_cumulative_own_rise']
CASE_TIMEOUT = {'quick': 150, 'thorough': 600}
BUDGET = {'quick': 600, 'thorough': 3000}
EXHAUSTIVE = {'quick': False, 'thorough': False}
ASSUMPTIONS = ['numpy float64 arithmetic',
               'pin_temps rows held by the rodded region at '
               'Assembly.calculate exit are the nominal temperatures',
               'an expression subfactor is a function of the nominal rise of '
               'the component its column applies to']

BUILTINS = ['crbr_blanket_clad_mw', 'crbr_fuel_clad_mw',
            'ebrii_markv_fuel_cl', 'fftf_clad_mw', 'fftf_fuel_cl']
LOCS = orc.LOCS
IN_SIG = [1, 2, 3, 4]
OUT_SIG = [0, 1, 2, 3, 4]
TOL = 1e-10          # algebraically identical quantities (measured ~1e-15)
EDGES = ['expr_in_unused_column', 'constant_expression', 'no_direct_rows',
         'no_statistical_rows', 'coolant_without_pin_model',
         'input_sigma_zero', 'type_without_assemblies']
FINDING = {'expr_in_unused_column': 'F191',
           'constant_expression': 'F192',
           'no_direct_rows': 'F193',
           'no_statistical_rows': 'F193',
           'coolant_without_pin_model': 'F194',
           'input_sigma_zero': 'F195',
           'type_without_assemblies': 'F196'}


def cases(tier, seed):
    q = tier == 'quick'
    out = []
    for i in range(30 if q else 600):
        out.append({'name': 'contract-%d' % i, 'kind': 'contract',
                    'seed': [seed, 1, i]})
    for i in range(5):
        out.append({'name': 'stub-builtin-%s' % BUILTINS[i], 'kind': 'stub',
                    'builtin': BUILTINS[i], 'seed': [seed, 2, i]})
    for i in range(30 if q else 600):
        out.append({'name': 'stub-%d' % i, 'kind': 'stub', 'builtin': None,
                    'seed': [seed, 3, i]})
    for i in range(60 if q else 1000):
        out.append({'name': 'single-%d' % i, 'kind': 'single',
                    'deep': not q, 'seed': [seed, 4, i]})
    for i in range(14 if q else 200):
        out.append({'name': 'core-%d' % i, 'kind': 'core',
                    'deep': not q, 'seed': [seed, 5, i]})
    for j in range(1 if q else 4):
        for e in EDGES:
            out.append({'name': 'edge-%s-%d' % (e, j), 'kind': 'edge',
                        'edge': e, 'seed': [seed, 6, j]})
    return out


# ----------------------------------------------------------------------
# contract cases: the real calculate_temps on generated arrays


def _rand_rises(rng, n_asm, m):
    dT = rng.uniform(0.0, 300.0, (n_asm, m))
    small = rng.random((n_asm, m)) < 0.2
    dT[small] *= 1e-3
    dT[rng.random((n_asm, m)) < 0.1] = 0.0
    return dT


def _rand_factors(rng, n_asm, n_sf, m, ge1, per_asm):
    shape = (n_asm if per_asm else 1, n_sf, m)
    if ge1:
        f = 1.0 + rng.random(shape) * rng.choice([0.05, 0.3, 1.5], shape)
    else:
        f = rng.uniform(0.6, 2.5, shape)
    f[rng.random(shape) < 0.4] = 1.0
    return np.ones((n_asm, n_sf, m)) * f


def _oracle_rows(T_in, dT, hcf, n_in, n_out):
    out = []
    for a in range(dT.shape[0]):
        d = [list(map(float, r)) for r in hcf['direct'][a]]
        s = [list(map(float, r)) for r in hcf['statistical'][a]]
        t, r0, u = orc.horizontal(T_in, [float(x) for x in dT[a]], d, s,
                                  n_in, n_out)
        out.append((t, r0, u))
    return out


def run_contract(case, res):
    rng = np.random.default_rng(case['seed'])
    n_rep = 6
    for rep in range(n_rep):
        n_asm = int(rng.integers(1, 7))
        m = int(rng.integers(1, 7))
        nd = int(rng.integers(0, 9))
        ns = int(rng.integers(0, 15))
        ge1 = bool(rng.random() < 0.7)
        per_asm = bool(rng.random() < 0.5)
        T_in = float(rng.uniform(500.0, 750.0))
        dT = _rand_rises(rng, n_asm, m)
        hcf = {'direct': _rand_factors(rng, n_asm, nd, m, ge1, per_asm),
               'statistical': _rand_factors(rng, n_asm, ns, m, ge1, per_asm)}
        key = {'fn': 'calculate_temps', 'ge1': ge1}
        nominal = T_in + np.cumsum(dT, axis=1)
        scale = float(np.max(nominal)) + float(np.max(dT)) * 10.0
        res.tag('contract_terms=%d' % m)
        res.tag('contract_nd=%s' % ('0' if nd == 0 else '>0'))
        res.tag('contract_ns=%s' % ('0' if ns == 0 else '>0'))
        R = {}
        for a in IN_SIG:
            for o in OUT_SIG:
                dT_c = dT.copy()
                h_c = {k: v.copy() for k, v in hcf.items()}
                T = np.array(hs.calculate_temps(T_in, dT_c, h_c, IN_sigma=a,
                                                OUT_sigma=o), dtype=float)
                R[(a, o)] = T
                res.check('A0_shape', T.shape == (n_asm, m),
                          'result shape %r != (n_asm, n_terms) %r'
                          % (T.shape, (n_asm, m)), key)
                if T.shape != (n_asm, m):
                    return
                exp = _oracle_rows(T_in, dT, hcf, a, o)
                E = np.array([e[0] for e in exp])
                sc = float(np.max(np.abs(E)))
                res.close('A1_value', float(np.max(np.abs(T - E))), sc, TOL,
                          'calculate_temps differs from the horizontal-method'
                          ' oracle', dict(key, n_in=a, n_out=o),
                          {'T': T[0].tolist(), 'oracle': E[0].tolist()})
                if ge1:
                    res.check('A3_ge_nominal',
                              bool(np.all(T >= nominal - 1e-9 * scale)),
                              'hot-spot temperature below nominal with all '
                              'subfactors >= 1', dict(key, n_in=a, n_out=o),
                              {'min_margin': float(np.min(T - nominal))})
        # the caller's arrays are inputs, not scratch space: a series of
        # calls with the same table (sigma sweep) must see the same table
        dT_s = dT.copy()
        h_s = {k: v.copy() for k, v in hcf.items()}
        seq = []
        for (a, o) in ((3, 2), (3, 0), (1, 4), (3, 2)):
            seq.append(np.array(hs.calculate_temps(
                T_in, dT_s, h_s, IN_sigma=a, OUT_sigma=o), dtype=float))
            same = np.array_equal(dT_s, dT) and all(
                np.array_equal(h_s[k], hcf[k]) for k in hcf)
            res.check('A8_arguments_unchanged', same,
                      'calculate_temps changed the rise or subfactor arrays '
                      'it was given', dict(key, n_in=a, n_out=o))
        res.check('A8_repeated_call_same_result',
                  np.array_equal(seq[0], seq[-1]) and
                  np.array_equal(seq[0], R[(3, 2)]) and
                  np.array_equal(seq[2], R[(1, 4)]),
                  'a call repeated with the same table after other calls '
                  'gives another result', key,
                  {'first': seq[0][0].tolist(), 'again': seq[-1][0].tolist()})
        ustat = np.array([e[2] for e in exp])       # statistical part (in=out)
        # unity table: nominal, at every sigma level
        ones = {'direct': np.ones((n_asm, max(nd, 1), m)),
                'statistical': np.ones((n_asm, max(ns, 1), m))}
        for a in IN_SIG:
            for o in OUT_SIG:
                T1 = np.array(hs.calculate_temps(
                    T_in, dT.copy(), {k: v.copy() for k, v in ones.items()},
                    IN_sigma=a, OUT_sigma=o))
                res.close('A2_unity_is_nominal',
                          float(np.max(np.abs(T1 - nominal))), scale, 1e-13,
                          'all subfactors one but hot-spot != nominal',
                          dict(key, n_in=a, n_out=o))
        for a in IN_SIG:
            for o in OUT_SIG[:-1]:
                d = R[(a, o + 1)] - R[(a, o)]
                ok = bool(np.all(d >= -1e-12 * scale))
                # strictly larger where there is any statistical uncertainty
                strict = ustat > 1e-9 * scale
                ok2 = bool(np.all(d[strict] > 0.0))
                res.check('A4_monotone_out_sigma', ok and ok2,
                          'hot-spot temperature does not increase with the '
                          'output sigma', dict(key, n_in=a, n_out=o),
                          {'min_step': float(np.min(d))})
        for o in OUT_SIG[1:]:
            x1 = (R[(1, o)] - R[(1, 0)])
            for a in IN_SIG[1:]:
                xa = (R[(a, o)] - R[(a, 0)]) * a
                res.close('A5_inverse_in_sigma',
                          float(np.max(np.abs(xa - x1))),
                          float(np.max(np.abs(x1))) + scale * 1e-3, 1e-9,
                          'statistical part not inversely proportional to '
                          'the input sigma', dict(key, n_in=a, n_out=o))
        for a in IN_SIG[1:]:
            res.close('A5_zero_sigma_indep_of_in',
                      float(np.max(np.abs(R[(a, 0)] - R[(1, 0)]))), scale,
                      1e-13, '0-sigma result depends on the input sigma',
                      dict(key, n_in=a))
        # cumulative: column l is what a request for location l returns,
        # and at 0 sigma each location adds its own rise x direct product
        full = R[(3, 2)]
        for l in range(m):
            sub = {k: v[:, :, :l + 1].copy() for k, v in hcf.items()}
            Tl = np.array(hs.calculate_temps(T_in, dT[:, :l + 1].copy(), sub,
                                             IN_sigma=3, OUT_sigma=2))
            res.close('A6_cumulative_prefix',
                      float(np.max(np.abs(Tl[:, -1] - full[:, l]))), scale,
                      TOL, 'entry l of the sequence differs from the hot-spot'
                      ' temperature requested for location l',
                      dict(key, l=l))
        z = R[(3, 0)]
        own = np.diff(np.concatenate([np.full((n_asm, 1), T_in), z], axis=1),
                      axis=1)
        exp_own = np.array([e[1] for e in exp])
        res.close('A6_own_rise', float(np.max(np.abs(own - exp_own))), scale,
                  TOL, '0-sigma sequence does not add each component\'s own '
                  'rise times its direct factors', key)
        # assemblies are independent rows
        i = int(rng.integers(n_asm))
        Ti = np.array(hs.calculate_temps(
            T_in, dT[i:i + 1].copy(),
            {k: v[i:i + 1].copy() for k, v in hcf.items()},
            IN_sigma=3, OUT_sigma=2))
        res.close('A7_rows_independent',
                  float(np.max(np.abs(Ti[0] - full[i]))), scale, TOL,
                  'row of one assembly changes with the other assemblies',
                  key)
        if ge1 and ns > 0 and float(np.max(ustat)) > 0.5:
            res.nontrivial('contract/m=%d/nd=%d/ns=%d/n=%d/%s'
                           % (m, nd, ns, n_asm, per_asm))
    res.sample({'case': case, 'last': {'n_asm': n_asm, 'terms': m,
                                       'n_direct': nd, 'n_stat': ns}})


# ----------------------------------------------------------------------
# analysis battery shared by stub and e2e cases


class Capture(object):
    """Pairs every real _get_peak_dt call with the calculate_temps call
    that follows it inside analyze()."""

    def __init__(self, hk):
        self.calls = []
        self._pend = None
        hk.wrap(hs, '_get_peak_dt', post=self._dt_post)
        hk.wrap(hs, 'calculate_temps', post=self._ct_post)

    def _dt_post(self, args, kwargs, result, tok):
        self._pend = (args[1], args[2], np.array(result, dtype=float,
                                                 copy=True))

    def _ct_post(self, args, kwargs, result, tok):
        if self._pend is None:
            return
        name, loc, dT = self._pend
        self._pend = None
        self.calls.append({'type': name, 'loc': loc, 'dT': dT,
                           'dT_used': np.array(args[1], dtype=float,
                                               copy=True),
                           'in': kwargs.get('IN_sigma'),
                           'out': kwargs.get('OUT_sigma')})

    def take(self):
        c, self.calls = self.calls, []
        return c


def _load_builtin(name):
    p = os.path.join(os.path.dirname(hs.__file__), 'data',
                     'hcf_%s.csv' % name)
    with open(p, encoding='utf-8') as f:
        return orc.parse_csv(f.read())


def _table_of(spec, builtin_cache):
    if spec.get('builtin'):
        b = spec['builtin']
        if b not in builtin_cache:
            builtin_cache[b] = _load_builtin(b)
        return builtin_cache[b]
    return spec['tab']


def _cands(truth, aid, loc):
    """Candidate nominal profiles (tuple of temperatures from the coolant up
    to the location) for assembly id / location."""
    return truth[aid][loc]


def _match_cand(cands, T_in, loc, used):
    """The candidate whose rises equal the rises DASSH used (ties in the
    running maximum leave more than one admissible pin/height)."""
    best, bd = None, None
    for c in cands:
        r = orc.rises_from_profile(T_in, c, loc)
        d = max(abs(a - b) for a, b in zip(r, used)) if len(r) == len(used) \
            else float('inf')
        if bd is None or d < bd:
            best, bd = c, d
    return best, bd


def _run_analyze(robj):
    with drive.quiet():
        return hs.analyze(robj)


def battery(res, robj, specs, truth, T_in, cap, key0, first=None,
            sig_pairs_unity=((3, 2), (1, 4), (4, 0), (2, 1))):
    """All E* monitors on one swept reactor (or stub).

    specs: {type: {loc: {'builtin'|'tab', 'path', 'in', 'out'}}}
    truth: {asm id: {loc: [candidate nominal profiles]}}
    first: (result, captured calls) of the analysis DASSH ran itself."""
    cache = {}
    opts = robj._options['hotspot']
    asm_by_type = {}
    for a in robj.assemblies:
        asm_by_type.setdefault(a.name, []).append(a)
    info = {'max_excess': 0.0, 'max_stat': 0.0}

    def analyze_cfg(n_in=None, n_out=None, unity_path=None):
        """Run the real analyze with sigma levels / table path overridden
        in the reactor's option dictionary; returns (result, calls)."""
        saved = {}
        for tn, d in specs.items():
            for loc, sp in d.items():
                o = opts[tn][loc]
                saved[(tn, loc)] = dict(o)
                if n_in is not None:
                    o['input_sigma'] = n_in
                if n_out is not None:
                    o['output_sigma'] = n_out
                if unity_path is not None:
                    o['subfactors'] = unity_path
        cap.take()
        try:
            out = _run_analyze(robj)
        finally:
            for (tn, loc), o in saved.items():
                opts[tn][loc].clear()
                opts[tn][loc].update(o)
        return out, cap.take()

    def rows_of(out, calls):
        """{(type, loc, asm id): (result row, rises used)}"""
        temps, ids = out
        d = {}
        for c in calls:
            tn, loc = c['type'], c['loc']
            if tn not in specs or loc not in specs[tn]:
                continue
            for i, a in enumerate(asm_by_type.get(tn, [])):
                j = ids[loc].index(a.id)
                d[(tn, loc, a.id)] = (np.array(temps[loc][j], dtype=float),
                                      c['dT'][i], c['dT_used'][i])
        return d

    # ---- the analysis as configured ---------------------------------
    if first is None:
        first = analyze_cfg()
    out0, calls0 = first
    res.check('E0_analysis_returns', out0 is not None and len(calls0) > 0,
              'analyze returned nothing although hot-spot sections exist',
              key0)
    if out0 is None:
        return info
    base = rows_of(out0, calls0)
    n_expected = sum(len(asm_by_type.get(tn, [])) * len(d)
                     for tn, d in specs.items())
    res.check('E0_all_requested_present', len(base) == n_expected,
              '%d of %d requested (assembly, location) hot-spot rows present'
              % (len(base), n_expected), key0)
    # ids reported sorted and unique
    for loc, ids in out0[1].items():
        res.check('E0_ids_sorted', list(ids) == sorted(set(ids)),
                  'assembly ids of the hot-spot rows not sorted/unique',
                  dict(key0, loc=loc))

    chosen = {}       # (tn, loc, aid) -> matched nominal profile
    facs = {}
    for (tn, loc, aid), (row, dT, dT_used) in sorted(base.items()):
        sp = specs[tn][loc]
        key = dict(key0, loc=loc, table=('builtin' if sp.get('builtin')
                                         else 'generated'))
        tab = _table_of(sp, cache)
        m = len(orc.COLMAP[loc])
        res.check('E0_finite', bool(np.all(np.isfinite(row))),
                  'non-finite hot-spot temperature',
                  dict(key, mech=('input_sigma_zero' if sp['in'] == 0
                                  else 'nonfinite')),
                  {'row': row.tolist()})
        res.check('E7_sequence_length', len(row) == m,
                  'sequence has %d entries, location needs %d'
                  % (len(row), m), key)
        if len(row) != m or not np.all(np.isfinite(row)):
            continue
        cand, dev = _match_cand(_cands(truth, aid, loc), T_in, loc, dT)
        scale = float(max(abs(x) for x in cand)) if cand else 1.0
        res.close('E1_rises_at_nominal_peak', dev, scale, 1e-12,
                  'temperature rises used are not those of the pin and '
                  'height of the nominal peak (independent fold)', key,
                  {'used': list(map(float, dT)),
                   'fold': orc.rises_from_profile(T_in, cand, loc),
                   'asm': aid})
        res.close('E1_rises_passed_on',
                  float(np.max(np.abs(np.asarray(dT) - dT_used))), scale,
                  1e-15, 'rises handed to calculate_temps differ from '
                  '_get_peak_dt', key)
        chosen[(tn, loc, aid)] = cand
        rises = orc.rises_from_profile(T_in, cand, loc)
        d, s = orc.factors_for(tab, loc, rises)
        finite = all(math.isfinite(x) for r in d + s for x in r)
        facs[(tn, loc, aid)] = (rises, d, s, finite)
        res.tag('loc=' + loc)
        res.tag('table=' + (sp.get('builtin') or 'generated'))
        if orc.has_expr(tab, set(orc.COLMAP[loc])):
            res.tag('table_with_expr_in_used_column')
        else:
            res.tag('table_without_expr_in_used_column')
        if not finite:
            res.count('value_skipped_nonfinite_factor')
        else:
            exp, r0, u = orc.horizontal(T_in, rises, d, s, sp['in'],
                                        sp['out'])
            res.close('E2_value', float(np.max(np.abs(row - exp))), scale,
                      TOL, 'hot-spot temperatures differ from the '
                      'horizontal-method oracle', dict(key, n_in=sp['in'],
                                                       n_out=sp['out']),
                      {'row': row.tolist(), 'oracle': exp, 'rises': rises,
                       'asm': aid})
            if sp['in']:
                info['max_stat'] = max(info['max_stat'],
                                       u[-1] * sp['out'] / sp['in'])
        # >= nominal for every prefix whose factors are all >= 1
        if all(x >= 0.0 for x in rises):
            for l in range(m):
                cols = [[r[j] for j in range(l + 1)] for r in d + s]
                # non-finite factors only arise from a zero rise (0 * f)
                if all((x >= 1.0) or (not math.isfinite(x) and x == x
                                      and x > 0) for c in cols for x in c):
                    res.check('E4_ge_nominal',
                              row[l] >= cand[l] - 1e-10 * scale,
                              'hot-spot temperature below nominal with all '
                              'subfactors >= 1', dict(key, l=l),
                              {'hot': float(row[l]), 'nominal': cand[l]})
                    info['max_excess'] = max(info['max_excess'],
                                             float(row[l] - cand[l]))
                else:
                    res.count('E4_precondition_not_met')
        else:
            res.count('E4_negative_rise_skipped')

    # ---- sigma levels (exhaustive 1..4 x 0..4) ------------------------
    R = {}
    for a in IN_SIG:
        for o in OUT_SIG:
            out, calls = analyze_cfg(n_in=a, n_out=o)
            R[(a, o)] = rows_of(out, calls)
    for k3, cand in chosen.items():
        tn, loc, aid = k3
        key = dict(key0, loc=loc, table=('builtin' if specs[tn][loc].get(
            'builtin') else 'generated'))
        scale = float(max(abs(x) for x in cand))
        rises, d, s, finite = facs[k3]
        if not all(k3 in R[p] and np.all(np.isfinite(R[p][k3][0]))
                   for p in R):
            res.check('E0_finite', False, 'non-finite or missing hot-spot '
                      'row at some sigma level', dict(key, mech='nonfinite'))
            continue
        for a in IN_SIG:
            for o in OUT_SIG:
                row = R[(a, o)][k3][0]
                if finite:
                    exp, r0, u = orc.horizontal(T_in, rises, d, s, a, o)
                    res.close('E2_value', float(np.max(np.abs(row - exp))),
                              scale, TOL, 'hot-spot temperatures differ from '
                              'the horizontal-method oracle',
                              dict(key, n_in=a, n_out=o),
                              {'row': row.tolist(), 'oracle': exp})
            for o in OUT_SIG[:-1]:
                dlt = R[(a, o + 1)][k3][0] - R[(a, o)][k3][0]
                ok = bool(np.all(dlt >= -1e-12 * scale))
                if finite:
                    u = np.array(orc.horizontal(T_in, rises, d, s, a, o)[2])
                    ok = ok and bool(np.all(dlt[u > 1e-9 * scale] > 0.0))
                res.check('E5_monotone_out_sigma', ok,
                          'hot-spot temperature does not increase with the '
                          'output sigma', dict(key, n_in=a, n_out=o),
                          {'step': dlt.tolist()})
        for o in OUT_SIG[1:]:
            x1 = R[(1, o)][k3][0] - R[(1, 0)][k3][0]
            for a in IN_SIG[1:]:
                xa = (R[(a, o)][k3][0] - R[(a, 0)][k3][0]) * a
                res.close('E6_inverse_in_sigma',
                          float(np.max(np.abs(xa - x1))),
                          float(np.max(np.abs(x1))) + 1e-3 * scale, 1e-9,
                          'statistical part not inversely proportional to '
                          'the input sigma', dict(key, n_in=a, n_out=o))
        # 0 sigma: cumulative, each location adds its own rise x direct
        z = R[(3, 0)][k3][0]
        own = np.diff(np.concatenate([[T_in], z]))
        if finite:
            r0 = orc.horizontal(T_in, rises, d, s, 3, 0)[1]
            res.close('E7_cumulative_own_rise',
                      float(np.max(np.abs(own - np.array(r0)))), scale, TOL,
                      '0-sigma sequence does not add each component\'s own '
                      'rise times its direct factors', key,
                      {'own': own.tolist(), 'oracle': r0})
        if all(x >= 0 for x in rises) and all(
                x >= 1.0 or not math.isfinite(x) for r in d for x in r):
            res.check('E7_sequence_nondecreasing',
                      bool(np.all(own >= -1e-10 * scale)),
                      '0-sigma coolant, clad, fuel sequence not cumulative '
                      '(an entry is below the previous one)', key,
                      {'own': own.tolist()})

    # ---- unity tables => nominal ----------------------------------------
    upath = specs_unity_path(specs)
    if upath is not None:
        for (a, o) in sig_pairs_unity:
            out, calls = analyze_cfg(n_in=a, n_out=o, unity_path=upath)
            rows = rows_of(out, calls)
            for k3, cand in chosen.items():
                tn, loc, aid = k3
                if k3 not in rows:
                    res.check('E3_unity_is_nominal', False,
                              'row missing with unity table',
                              dict(key0, loc=loc))
                    continue
                row = rows[k3][0]
                nom = np.array(cand[:len(row)])
                res.close('E3_unity_is_nominal',
                          float(np.max(np.abs(row - nom))),
                          float(np.max(np.abs(nom))), 1e-13,
                          'all subfactors one but hot-spot temperatures '
                          'differ from the nominal peak profile',
                          dict(key0, loc=loc, n_in=a, n_out=o),
                          {'row': row.tolist(), 'nominal': nom.tolist()})
        # the same, with a generated table REWRITTEN IN PLACE to all ones
        # (same path as the analysis before): what a path held earlier in
        # this process must not stand in for what the file holds now
        gen_paths = sorted(set(
            sp['path'] for d_ in specs.values() for sp in d_.values()
            if sp.get('path') and not sp.get('builtin')
            and os.path.isfile(str(sp.get('path')))))
        if gen_paths:
            keep = {}
            try:
                uni = open(upath).read()
                for gp in gen_paths:
                    keep[gp] = open(gp).read()
                    with open(gp, 'w') as f:
                        f.write(uni)
                out, calls = analyze_cfg()
                rows = rows_of(out, calls)
                for k3, cand in chosen.items():
                    tn, loc, aid = k3
                    sp = specs[tn][loc]
                    if sp.get('builtin') or sp.get('path') not in keep \
                            or k3 not in rows:
                        continue
                    row = rows[k3][0]
                    nom = np.array(cand[:len(row)])
                    res.close('E3b_table_rewritten_in_place_is_read_again',
                              float(np.max(np.abs(row - nom))),
                              float(np.max(np.abs(nom))), 1e-13,
                              'table file rewritten to all ones at the same '
                              'path, but the analysis still gives other than '
                              'the nominal profile', dict(key0, loc=loc),
                              {'row': row.tolist(), 'nominal': nom.tolist()})
            finally:
                for gp, txt in keep.items():
                    with open(gp, 'w') as f:
                        f.write(txt)
    return info


def specs_unity_path(specs):
    for d in specs.values():
        for sp in d.values():
            if sp.get('unity_path'):
                return sp['unity_path']
    return None


# ----------------------------------------------------------------------
# hot-spot section generator


def needed_cols(loc):
    return max(orc.COLMAP[loc]) + 1


def make_spec(rng, loc, idx, builtin=None, edge=None):
    """One [[[[Hotspot]]]] entry: (spec, file name or None, file text)."""
    need = needed_cols(loc)
    sp = {'in': int(rng.integers(1, 5)), 'out': int(rng.integers(0, 5))}
    if rng.random() < 0.25:
        sp['in'], sp['out'] = 3, 2          # the defaults, left implicit
        sp['implicit_sigma'] = True
    if builtin is None and edge is None and rng.random() < 0.4:
        ok = [b for b in BUILTINS if need <= (5 if b.endswith('fuel_cl') else 3)]
        builtin = wl.choose(rng, ok)
    if builtin:
        sp['builtin'] = builtin
        return sp, None, None
    ncol = int(rng.integers(need, 6))
    used = sorted(set(orc.COLMAP[loc]))
    with_expr = rng.random() < 0.5
    tab = orc.random_table(rng, ncol, p_expr=(0.3 if with_expr else 0.0),
                           expr_cols=used, lower_case=(rng.random() < 0.2),
                           lo=(1.0 if rng.random() < 0.8 else 0.7))
    if edge == 'expr_in_unused_column':
        # a table with more columns than the location needs, carrying an
        # expression in a column that the location does not use
        ncol = 5
        tab = orc.random_table(rng, ncol, p_expr=0.0)
        tab['rows'][0][2][ncol - 1] = ['inv', 2.5]
    elif edge == 'constant_expression':
        tab['rows'][0][2][0] = {'text': '1 + 0.1 / 2'}
    elif edge == 'no_direct_rows':
        tab = orc.random_table(rng, ncol, n_direct=0)
    elif edge == 'no_statistical_rows':
        tab = orc.random_table(rng, ncol, n_stat=0)
    elif edge == 'input_sigma_zero':
        sp['in'] = 0
        sp.pop('implicit_sigma', None)
    sp['tab'] = tab
    fname = 'hcf_%s_%d.csv' % (loc, idx)
    return sp, fname, orc.render_csv(tab, bom=(rng.random() < 0.3))


def section_of(sp, fname):
    d = {'temperature': None, 'subfactors': sp.get('builtin') or fname}
    if not sp.get('implicit_sigma'):
        d['input_sigma'] = sp['in']
        d['output_sigma'] = sp['out']
    return d


def choose_locs(rng, pin_model=True):
    if not pin_model:
        return ['coolant']
    n = wl.choose(rng, [1, 2, 2, 3, 4, 6])
    return [LOCS[int(i)] for i in sorted(rng.choice(6, n, replace=False))]


# ----------------------------------------------------------------------
# stub cases: real analyze on a generated reactor-like object


def run_stub(case, res):
    rng = np.random.default_rng(case['seed'])
    T_in = float(rng.uniform(550.0, 700.0))
    n_types = 1 if case.get('builtin') else int(rng.integers(1, 4))
    with drive.scratch() as d, Hooks() as hk:
        cap = Capture(hk)
        upath = os.path.join(d, 'unity.csv')
        with open(upath, 'w') as f:
            f.write(orc.render_csv(orc.unity_table(5)))
        specs, opts, asms, truth = {}, {}, [], {}
        ids = [int(i) for i in rng.permutation(40)[:24]]
        for t in range(n_types):
            tn = 'typ%d' % t
            if case.get('builtin'):
                b = case['builtin']
                nc = 5 if b.endswith('fuel_cl') else 3
                locs = [l for l in LOCS if needed_cols(l) <= nc]
            else:
                locs = choose_locs(rng)
            specs[tn], opts[tn] = {}, {}
            for i, loc in enumerate(locs):
                sp, fname, text = make_spec(rng, loc, i,
                                            builtin=case.get('builtin'))
                if fname:
                    path = os.path.join(d, tn + '_' + fname)
                    with open(path, 'w', encoding='utf-8') as f:
                        f.write(text)
                else:
                    path = os.path.join(os.path.dirname(hs.__file__), 'data',
                                        'hcf_%s.csv' % sp['builtin'])
                sp['path'] = path
                sp['unity_path'] = upath
                specs[tn][loc] = sp
                opts[tn][loc] = {'input_sigma': sp['in'],
                                 'output_sigma': sp['out'],
                                 'subfactors': path}
            for k in range(int(rng.integers(1, 9))):
                aid = ids.pop()
                truth[aid] = {}
                peak = {'cool': (0.0, 0.0), 'pin': {}}
                zero_power = rng.random() < 0.1
                for li, loc in enumerate(LOCS):
                    # a different pin/height for every location
                    steps = rng.uniform(0.0, 1.0, 6) * np.array(
                        [250.0, 30.0, 25.0, 25.0, 40.0, 600.0])
                    if zero_power:
                        steps[1:] = 0.0
                    if rng.random() < 0.3:
                        steps[4] = 0.0                  # no gap
                    prof = T_in + np.cumsum(steps)
                    if loc == 'coolant':
                        tc = float(T_in + rng.uniform(0.0, 300.0))
                        peak['cool'] = (tc, float(rng.random()))
                        truth[aid][loc] = [(tc,)]
                    else:
                        row = [float(aid), float(rng.random()),
                               float(rng.integers(0, 60))] + \
                            [float(x) for x in prof]
                        peak['pin'][loc] = [row[3 + li], li + 3, row]
                        truth[aid][loc] = [tuple(row[3:3 + li + 1])]
                asms.append(_types.SimpleNamespace(id=aid, name=tn,
                                                   _peak=peak))
        order = rng.permutation(len(asms))
        robj = _types.SimpleNamespace(
            _options={'hotspot': opts}, inlet_temp=T_in,
            assemblies=[asms[int(i)] for i in order])
        key0 = {'kind': 'stub'}
        try:
            info = battery(res, robj, specs, truth, T_in, cap, key0)
        except drive.Rejected as e:       # pragma: no cover
            res.status('rejected', str(e))
            return
        res.tag('stub_types=%d' % n_types)
        res.tag('stub_asm=%d' % len(asms))
        if info['max_excess'] > 0.5 and info['max_stat'] > 0.0:
            res.nontrivial('stub/%s/%s/%d' % (
                case.get('builtin'),
                sorted((tn, sorted(v)) for tn, v in specs.items()),
                len(asms)))
        res.sample({'case': case, 'types': {tn: {l: (sp.get('builtin') or
                                                     'generated')
                                                 for l, sp in v.items()}
                                            for tn, v in specs.items()},
                    'n_asm': len(asms)})


# ----------------------------------------------------------------------
# e2e cases


def add_pin_model(rng, P, tname, kind):
    t = P['types'][tname]
    P['materials'].setdefault('pin_k20', {'thermal_conductivity': [20.0]})
    P['materials'].setdefault('pin_k3', {'thermal_conductivity': [3.0]})
    P['materials'].setdefault('clad_k22', {'thermal_conductivity': [22.0]})
    gap = 0.0 if rng.random() < 0.35 else float(
        rng.uniform(0.01, 0.06) * t['pin_diameter'])
    clad = wl.choose(rng, ['ht9', 'clad_k22', 'steel_const'])
    gmat = wl.choose(rng, ['sodium', 'na_const'])
    nn = int(rng.integers(1, 4))
    rf = [0.0, 0.4, 0.75][:nn]
    if rng.random() < 0.2:
        rf[0] = 0.15                                   # annular pellet
    if kind == 'fuel':
        d = {'clad_material': clad, 'r_frac': rf,
             'pu_frac': [float(rng.uniform(0.0, 0.3))] * nn,
             'zr_frac': [0.1] * nn,
             'porosity': [float(rng.uniform(0.0, 0.2))] * nn}
        sec = 'FuelModel'
    else:
        d = {'clad_material': clad, 'r_frac': rf,
             'pin_material': [wl.choose(rng, ['pin_k20', 'pin_k3'])
                              for _ in range(nn)]}
        sec = 'PinModel'
    if gap > 0.0:
        d['gap_thickness'] = gap
        d['gap_material'] = gmat
    t[sec] = d
    return sec, gap > 0.0


def add_hotspots(rng, P, tname, pin_model, edge=None, all_locs=False):
    locs = LOCS[:] if all_locs else choose_locs(rng, pin_model)
    if edge == 'expr_in_unused_column':
        locs = [wl.choose(rng, ['coolant', 'clad_od', 'clad_mw', 'clad_id',
                                'fuel_od'])]
    elif edge == 'coolant_without_pin_model':
        locs = ['coolant']
    elif edge:
        locs = locs[:2]
    d, specs = {}, {}
    for i, loc in enumerate(locs):
        sp, fname, text = make_spec(
            rng, loc, i, edge=(edge if edge not in (
                None, 'coolant_without_pin_model') else None))
        if fname:
            fname = tname + '_' + fname
            P.setdefault('extra_files', {})[fname] = text
        sec = section_of(sp, fname)
        sec['temperature'] = loc
        d['hs_' + loc] = sec
        specs[loc] = sp
    P['types'][tname]['Hotspot'] = d
    return specs


class Fold(object):
    """Independent running maximum over the pin_temps rows (and the coolant
    subchannel temperatures) at Assembly.calculate exit."""

    def __init__(self, hk):
        self.best = {}     # asm id -> {loc: [value, [candidate profiles]]}
        self.n = 0
        hk.wrap(Assembly, 'calculate', post=self._post)

    def _post(self, args, kwargs, result, tok):
        asm = args[0]
        st = self.best.setdefault(asm.id, {})
        self.n += 1
        tc = float(np.max(asm.active_region.temp['coolant_int']))
        reg = asm.active_region
        c = st.setdefault('coolant', [-np.inf, []])
        if tc > c[0]:
            c[0], c[1] = tc, [(tc,)]
        pt = getattr(reg, 'pin_temps', None)
        if pt is None or not hasattr(reg, 'pin_model'):
            return
        rows = np.array(pt[:, 3:9], dtype=float, copy=True)
        z = float(asm.z)
        for li, loc in enumerate(LOCS[1:], start=1):
            col = rows[:, li]
            mx = float(np.max(col))
            b = st.setdefault(loc, [-np.inf, []])
            if mx > b[0]:
                b[0], b[1] = mx, []
            if mx == b[0] and len(b[1]) < 8:
                for p in np.nonzero(col == mx)[0][:4]:
                    b[1].append(tuple(float(x) for x in rows[p, :li + 1])
                                + (('pin', int(p), 'z', z, 'full',
                                    tuple(float(x) for x in rows[p])),))

    def truth(self):
        out = {}
        for aid, st in self.best.items():
            out[aid] = {}
            for loc, (v, cands) in st.items():
                out[aid][loc] = [tuple(x for x in c
                                       if not isinstance(x, tuple))
                                 for c in cands]
        return out

    def where(self, aid, loc):
        c = self.best[aid][loc][1]
        return [x[-1] for x in c if isinstance(x[-1], tuple)]


def build_e2e(case):
    rng = np.random.default_rng(case['seed'])
    edge = case.get('edge')
    feats = {}
    if case['kind'] in ('single', 'edge'):
        P, f0 = wl.single_assembly(
            rng, lf=False,
            max_rings=(3 if edge else 7 if case.get('deep') else 5),
            vel=wl.loguniform(rng, 0.3, 6.0),
            tdep=(rng.random() < 0.3),
            gap=wl.choose(rng, ['none', 'none', 'flow']),
            regions=(None if not edge else False))
        pw = P['power']['asm']['0']
        if rng.random() < 0.85:
            pw['comps'] = [1, 2, 3]
            if pw.get('shape') == 'zero':
                pw['shape'] = 'rand'
        elif 1 not in pw['comps']:
            # dassh.out cannot be written for a pin model without a pin
            # power component (table.py indexes power['pins'] = None)
            pw['comps'] = [1] + list(pw['comps'])
            pw['frac'] = [0.0] + list(pw.get('frac', [0.9, 0.06, 0.04]))[1:]
        names = ['a']
        feats.update({k: f0[k] for k in ('nr', 'n_duct', 'gap', 'tdep',
                                         'regions')})
    else:
        nring = wl.choose(rng, [2, 2, 3]) if case.get('deep') else 2
        P, f0 = wl.core_problem(rng, n_ring=nring,
                                tdep=(rng.random() < 0.25),
                                gap=wl.choose(rng, ['flow', 'flow', 'none',
                                                    'no_flow']),
                                empty_frac=0.15, max_rings=4, lf_frac=0.1,
                                regions_frac=0.25, vel_range=(0.3, 6.0))
        names = list(P['types'])
        feats.update({'types': f0['types'], 'gap': f0['gap'],
                      'n_asm': f0['n_asm']})
    for sp in P['power']['asm'].values():
        # one pin carrying most of the assembly power gives linear powers for
        # which DASSH's own pin-model iteration aborts (not C19's subject)
        if sp.get('shape') == 'hotpin':
            sp['shape'] = 'rand'
    for q in P['positions']:
        # keep the mean linear pin power below 25 kW/m (few-ring bundles
        # would otherwise run into the same abort)
        k0 = str(gen.pos_index0(q['ring'], q['pos']))
        cap = 2.5e4 * gen.n_pin(P['types'][q['type']]['num_rings']) \
            * P['length']
        if k0 in P['power']['asm']:
            sp = P['power']['asm'][k0]
            sp['total'] = float(min(sp['total'], cap))
    P.setdefault('extra_files', {})['unity.csv'] = orc.render_csv(
        orc.unity_table(5))
    specs = {}
    kinds = {}
    if edge == 'type_without_assemblies':
        # a second assembly type with hot-spot requests that is not
        # assigned to any position ("any number of assemblies per type")
        import copy
        P['types']['b'] = copy.deepcopy(P['types']['a'])
        names = ['a', 'b']
    used = set(q['type'] for q in P['positions'])
    for tn in names:
        t = P['types'][tn]
        if t.get('use_low_fidelity_model'):
            kinds[tn] = 'low_fidelity'
            continue
        if edge == 'coolant_without_pin_model':
            kinds[tn] = 'none'
            specs[tn] = add_hotspots(rng, P, tn, False, edge=edge)
            continue
        kind = wl.choose(rng, ['fuel', 'fuel', 'pin'])
        sec, has_gap = add_pin_model(rng, P, tn, kind)
        kinds[tn] = sec + ('+gap' if has_gap else '')
        if len(names) > 1 and not edge and rng.random() < 0.15:
            continue                  # a pin-model type without hot spots
        if tn not in used and edge != 'type_without_assemblies':
            continue                  # (analyze aborts on those: edge case)
        specs[tn] = add_hotspots(
            rng, P, tn, True,
            edge=(None if edge == 'type_without_assemblies' else edge),
            all_locs=(rng.random() < 0.15))
    feats['pin_models'] = kinds
    feats['locs'] = {tn: sorted(v) for tn, v in specs.items()}
    feats['tables'] = {tn: sorted(set(sp.get('builtin') or 'generated'
                                      for sp in v.values()))
                       for tn, v in specs.items()}
    return P, specs, feats


_NUM = re.compile(r'^-?\d+\.?\d*(?:[eE][-+]?\d+)?$')


def check_output_tables(res, text, robj, out0, fold, key0):
    """The numbers printed in dassh.out (K, one decimal) are those analyze
    returned, on the row of the right assembly."""
    temps, ids = out0
    lookup = {'CLAD OD': 'clad_od', 'CLAD MW': 'clad_mw', 'CLAD ID':
              'clad_id', 'FUEL OD': 'fuel_od', 'FUEL CL': 'fuel_cl'}
    for m in re.finditer(r'PEAK (CLAD|FUEL) (OD|MW|ID|CL) TEMPERATURES',
                         text):
        loc = lookup['%s %s' % (m.group(1), m.group(2))]
        body = text[m.end():]
        h = re.search(r'\n\s*ID\s+Name\s+Pin[^\n]*\n-+\n', body)
        if not h:
            res.count('table_unparsed')
            continue
        j = body.find('\n\n', h.end())
        rows = [ln.split() for ln in body[h.end():j].splitlines()
                if ln.split()]
        for tok in rows:
            if len(tok) < 11 or not tok[0].isdigit():
                res.count('table_row_unparsed')
                continue
            a = robj.assemblies[int(tok[0]) - 1]
            hot = tok[11:]
            # nominal part of the row: pin, height and radial profile of the
            # nominal peak (any of the fold's tied candidates)
            try:
                pin, hgt = int(tok[2]), float(tok[3])
                nomp = [float(x) for x in tok[5:11]]
                ok = any(w[1] == pin and abs(w[3] - hgt) <= 0.05 + 1e-6 and
                         all(abs(x - y) <= 0.05 + 1e-6
                             for x, y in zip(nomp, w[5]))
                         for w in fold.where(a.id, loc))
                res.check('E8_output_nominal_row', ok,
                          'dassh.out nominal peak row is not the pin/height/'
                          'profile of the nominal peak (independent fold)',
                          dict(key0, loc=loc),
                          {'printed': tok[2:11], 'asm': a.id,
                           'fold': [list(w[:4]) + list(w[5])
                                    for w in fold.where(a.id, loc)][:3]})
            except (ValueError, KeyError):
                res.count('table_row_unparsed')
            if loc in temps and a.id in ids[loc]:
                row = temps[loc][ids[loc].index(a.id)]
                if not np.all(np.isfinite(row)):
                    continue                 # reported by E0_finite
                if np.max(np.abs(row)) >= 99999.0:
                    res.count('table_value_wider_than_column')
                    continue
                n_show = min(len(hot), len(row))
                ok = all(_NUM.match(h) and abs(float(h) - row[k])
                         <= 0.05 + 1e-6 for k, h in enumerate(hot[:n_show]))
                res.check('E8_output_table', ok and n_show == len(row),
                          'dassh.out does not print the hot-spot sequence '
                          'analyze returned for this assembly',
                          dict(key0, loc=loc),
                          {'printed': hot, 'returned': list(map(float, row)),
                           'asm': a.id})
            else:
                res.check('E8_output_table_blank',
                          all(h == '-----' for h in hot),
                          'hot-spot numbers printed for an assembly without '
                          'that hot-spot request', dict(key0, loc=loc),
                          {'printed': hot, 'asm': a.id})
    m = re.search(r'Peak \+ Unc\.\s+Peak height\n.*\n-+\n', text)
    if m and 'coolant' in temps:
        for ln in text[m.end():].splitlines():
            tok = ln.split()
            if len(tok) < 9 or not tok[0].isdigit():
                break
            a = robj.assemblies[int(tok[0]) - 1]
            if a.id in ids['coolant']:
                v = temps['coolant'][ids['coolant'].index(a.id)][0]
                if not np.isfinite(v):
                    continue
                res.check('E8_output_table', bool(_NUM.match(tok[7])) and
                          abs(float(tok[7]) - v) <= 0.005 + 1e-6,
                          'dassh.out coolant "Peak + Unc." differs from '
                          'analyze', dict(key0, loc='coolant'),
                          {'printed': tok[7], 'returned': float(v)})
            else:
                res.check('E8_output_table_blank', tok[7] == '-----',
                          'coolant hot-spot printed without a request',
                          dict(key0, loc='coolant'))


def run_e2e(case, res):
    P, specs, feats = build_e2e(case)
    edge = case.get('edge')
    key0 = {'kind': case['kind']}
    if edge:
        key0['mech'] = edge
    T_in = float(P['inlet'])
    with drive.scratch() as d, Hooks() as hk:
        try:
            inp, r = drive.build(P, d, max_steps=5000, write_output=True)
        except drive.Rejected as e:
            res.status('rejected', str(e))
            res.tag('rejected:' + e.stage)
            return
        if len(r.z) > 5000:
            res.status('rejected', 'too many steps (%d)' % len(r.z))
            res.tag('skipped_too_many_steps')
            return
        if not specs:
            res.tag('no_hotspot_types')
            return
        for tn in specs:
            for loc, sp in specs[tn].items():
                sp['unity_path'] = os.path.join(d, 'unity.csv')
        fold = Fold(hk)
        cap = Capture(hk)
        got = {}

        def an_post(args, kwargs, result, tok):
            if 'out' not in got:          # only DASSH's own call
                got['out'] = result
                got['calls'] = cap.take()
        hk.wrap(hs, 'analyze', post=an_post)
        drive.sweep(r)
        cap.take()
        # the analysis DASSH runs itself after the sweep
        try:
            with drive.quiet():
                r.postprocess()
        except SystemExit:
            res.status('rejected', 'postprocess: error exit')
            res.tag('rejected:postprocess')
            return
        except (IndexError, TypeError, AssertionError, ValueError,
                KeyError, ZeroDivisionError, AttributeError) as e:
            import traceback
            tb = traceback.extract_tb(e.__traceback__)
            inside = [f for f in tb if f.filename.endswith('hotspot.py')]
            if not inside:
                raise
            res.check('E0_analysis_completes', False,
                      'hotspot.analyze raised %s: %s (in %s)'
                      % (type(e).__name__, e, inside[-1].name),
                      dict(key0, exc=type(e).__name__,
                           where=inside[-1].name,
                           mech=(edge or 'unexpected')),
                      {'features': feats})
            return
        res.check('E0_analysis_completes', 'out' in got,
                  'Reactor.postprocess did not run hotspot.analyze', key0)
        if 'out' not in got:
            return
        truth = fold.truth()
        # the fold's own sanity: the recorded profile's own entry is the
        # maximum found (so E1 compares against a genuine nominal peak)
        for a in r.assemblies:
            if a.name not in specs:
                continue
            for loc in specs[a.name]:
                cands = truth.get(a.id, {}).get(loc, [])
                res.check('E1_fold_profile_is_peak', len(cands) > 0 and all(
                    c[-1] == fold.best[a.id][loc][0] for c in cands),
                    'fold has no peak for a requested location',
                    dict(key0, loc=loc))
        info = battery(res, r, specs, truth, T_in, cap, key0,
                       first=(got['out'], got['calls']))
        try:
            with open(os.path.join(d, 'dassh.out')) as f:
                txt = f.read()
            check_output_tables(res, txt, r, got['out'], fold, key0)
        except OSError:
            res.count('no_dassh_out')
        n_by_type = {}
        for a in r.assemblies:
            n_by_type[a.name] = n_by_type.get(a.name, 0) + 1
        for tn in specs:
            res.tag('asm_per_type=%d' % n_by_type.get(tn, 0))
        for tn, k in feats['pin_models'].items():
            res.tag('pin_model=' + k)
        res.stat('hot_minus_nominal_K', info['max_excess'])
        res.stat('statistical_part_K', info['max_stat'])
        if info['max_excess'] > 0.5 and info['max_stat'] > 0.0:
            res.nontrivial('%s/%s/%s/%s' % (case['kind'], feats['locs'],
                                            feats['tables'],
                                            feats['pin_models']))
        res.sample({'case': case, 'features': feats,
                    'fold_calls': fold.n, 'steps': len(r.z)})


def run_case(case):
    res = Result(case)
    if case['kind'] == 'contract':
        run_contract(case, res)
    elif case['kind'] == 'stub':
        run_stub(case, res)
    else:
        try:
            run_e2e(case, res)
        except drive.Rejected as e:
            res.status('rejected', str(e))
            res.tag('rejected:' + e.stage)
    return res


def classify(v, case):
    k = v.get('key', {}) or {}
    mech = k.get('mech')
    if v['monitor'] == 'E0_analysis_completes':
        exc = {'expr_in_unused_column': 'IndexError',
               'constant_expression': 'TypeError',
               'no_direct_rows': 'IndexError',
               'no_statistical_rows': 'IndexError',
               'coolant_without_pin_model': 'AssertionError',
               'type_without_assemblies': 'IndexError'}
        if mech in exc and k.get('exc') == exc[mech]:
            return FINDING[mech]
    if v['monitor'] == 'E0_finite' and mech == 'input_sigma_zero':
        return FINDING[mech]
    return None
