"""C04 - the selected axial step keeps the explicit march positive."""
import numpy as np
from vmon import gen, drive, workloads as wl, env
from vmon.harness import Result

dassh = env.import_dassh()

PROPERTY = 'C04'
LEVEL = 'exploration'
TECHNIQUE = ('runtime monitoring: linear probing of the real update methods '
             '(unit perturbations about a uniform state in, operator weights '
             'out) at the step the real Reactor selected, at several states '
             'of real sweeps; maximum-principle monitors on real sweeps')
LEVEL_TEXT = ('For generated problems aimed at the limiting cells (low flow, '
              'gap-limited, conv-approx, low-fidelity convection factors, '
              'T-dependent coolant) every weight of the discrete update '
              'operators is read off the real methods and required to be '
              '>= 0 with unit row sums; zero-power and non-negative-power '
              'sweeps are checked against the maximum principle. Held on the '
              'executions observed.')
LEVEL_NOTE = ('Probes save and restore region/core state; about a uniform '
              'state a temperature-dependent wall conductivity enters only '
              'at second order, so T-dependent cases use a 1e-6 row-sum '
              'tolerance; walls are inputs only if they have another side.')
DESIGN_REF = 'DESIGN.md section 3, C04'
RULE = ('random single assemblies (2-7 rings, 1-3 ducts, flowing/stagnant '
        'bypass, velocity 0.003-6 m/s, all gap models, conv-approx on/off, '
        'user step above/below the limit, low-fidelity simple/6node with '
        'convection factor 0.05-1 or calculated, T-dependent coolant) and '
        '7-position cores with gap flow fraction 1e-3..0.2; operators probed '
        'at inlet, middle and outlet states; non-trivial when >= 50 operator '
        'rows were probed; distinct by (rings, ducts, gap, options)')
RULE += (' Later rounds added kinds sevenpin (two-ring bundles at low flow), lfcore (driver among starved low-fidelity assemblies with six-node regions, every assembly and every region probed), ptol (param_update_tol > 0: requirement only), and power written as distribution x scaling factor.')
DECIDING = ['W_nonneg_weights', 'W_row_sums_one', 'M_zero_power_stays_inlet']
CASE_TIMEOUT = {'quick': 240, 'thorough': 900}
BUDGET = {'quick': 800, 'thorough': 3300}
ASSUMPTIONS = ['probing about a uniform base state (materials reject T<=0)']
WTOL = 1e-10

MAX_STEPS = 8000


def cases(tier, seed):
    out = []
    n = 56 if tier == 'quick' else 1500
    for i in range(n):
        out.append({'name': 'asm-%d' % i, 'kind': 'asm',
                    'seed': [seed, 41, i]})
    n = 10 if tier == 'quick' else 300
    for i in range(n):
        out.append({'name': 'core-%d' % i, 'kind': 'core',
                    'seed': [seed, 42, i]})
    n = 16 if tier == 'quick' else 400
    for i in range(n):
        out.append({'name': 'maxp-%d' % i, 'kind': 'maxp',
                    'seed': [seed, 43, i]})
    n = 24 if tier == 'quick' else 600
    for i in range(n):
        out.append({'name': 'lowfi-%d' % i, 'kind': 'lowfi',
                    'seed': [seed, 44, i]})
    n = 16 if tier == 'quick' else 400
    for i in range(n):
        out.append({'name': 'approx-%d' % i, 'kind': 'approx',
                    'seed': [seed, 45, i]})
    n = 14 if tier == 'quick' else 400
    for i in range(n):
        out.append({'name': 'bypass-%d' % i, 'kind': 'bypass',
                    'seed': [seed, 46, i]})
    n = 14 if tier == 'quick' else 400
    for i in range(n):
        out.append({'name': 'ddcore-%d' % i, 'kind': 'ddcore',
                    'seed': [seed, 47, i]})
    n = 12 if tier == 'quick' else 300
    for i in range(n):
        out.append({'name': 'sevenpin-%d' % i, 'kind': 'sevenpin',
                    'seed': [seed, 48, i]})
    n = 12 if tier == 'quick' else 300
    for i in range(n):
        out.append({'name': 'lfcore-%d' % i, 'kind': 'lfcore',
                    'seed': [seed, 49, i]})
    n = 10 if tier == 'quick' else 200
    for i in range(n):
        # lazy correlated-parameter updates switched on: only the step
        # REQUIREMENT is judged (it must not go through the update tracker)
        out.append({'name': 'ptol-%d' % i, 'kind': 'ptol',
                    'seed': [seed, 50, i]})
    return out


# ----------------------------------------------------------------------
# state handling


class Saved(object):
    def __init__(self, reg):
        self.reg = reg
        self.temp = {k: v.copy() for k, v in reg.temp.items()}
        self.tc = float(reg.coolant.temperature)
        self.td = float(reg.duct.temperature)

    def restore(self):
        for k, v in self.temp.items():
            self.reg.temp[k][...] = v
        self.reg.coolant.update(self.tc)
        self.reg.duct.update(self.td)


def _set_uniform(reg, T0):
    for k in reg.temp:
        reg.temp[k][...] = T0


# ----------------------------------------------------------------------
# rodded region probe


def probe_rodded(res, reg, dz, h_gap, t_gap, adiabatic, key, tdep,
                 frozen=True, limits=None, eval_temps=None):
    """Read the weights of [T_int, T_byp, walls/gap] -> new [T_int, T_byp].

    frozen=True : walls that have another side are independent inputs
                  (the reading under which DASSH's own step limits are
                  written); the outermost wall under the adiabatic option is
                  slaved to its cell, so the real wall solve is re-run.
    frozen=False: composite map, all walls re-solved with the real
                  _calc_duct_temp from the perturbed coolant/gap temperatures.
    """
    sv = Saved(reg)
    n = reg.subchannel.n_sc['coolant']['total']
    nd = reg.subchannel.n_sc['duct']['total']
    nb = reg.n_bypass
    flowing = nb > 0 and np.sum(reg.byp_flow_rate) > 0
    T0 = float(np.sum(sv.temp['coolant_int']) / n)
    t_int_mean = float(reg.avg_coolant_int_temp)
    t_gap0 = np.array(t_gap, dtype=float, copy=True)
    hg = np.array(h_gap, dtype=float, copy=True)
    if adiabatic:
        hg = np.ones(nd)
        t_gap0 = np.ones(nd)

    eps = 1.0 if not tdep else 1e-3
    # which walls are independent inputs: a wall is slaved to its cell(s)
    # when nothing on its far side can carry heat away - the outermost wall
    # under the adiabatic option, and every wall when the option is adiabatic
    # and no bypass gap flows (a chain of walls and stagnant gaps ending in an
    # adiabatic boundary). This is also how DASSH's own limits are written.
    wall_frozen = []
    for d in range(reg.n_duct):
        outer = (d == reg.n_duct - 1)
        slaved = adiabatic and (outer or not flowing)
        wall_frozen.append(frozen and not slaved)

    all_frozen = all(wall_frozen)
    cache = {}

    # Property evaluation temperatures as in the real step: the methods
    # re-evaluate materials at region averages, which a uniform probe state
    # would move; feed them the recorded averages instead.
    act_duct = [float(x) for x in np.atleast_1d(reg.avg_duct_mw_temp)]
    act_byp = ([float(x) for x in np.atleast_1d(reg.avg_coolant_byp_temp)]
               if nb > 0 else [])
    cq, dq = [], []

    def _fake_cool(temp):
        if cq:
            reg.coolant.update(cq.pop(0))

    def _fake_duct(temp):
        if dq:
            reg.duct.update(dq.pop(0))

    def evaluate(kind=None, idx=None, uniform=True):
        _set_uniform(reg, T0)
        t_gap = np.full(nd, T0) if not adiabatic else np.ones(nd)
        need_int = need_byp = True
        if kind == 'int':
            reg.temp['coolant_int'][idx] += eps
            need_byp = not all_frozen
        elif kind == 'byp':
            reg.temp['coolant_byp'][idx] += eps
            need_int = not all_frozen
        elif kind == 'gap':
            t_gap[idx] += eps
        elif kind == 'wall':
            need_int = (idx[0] == 0) or not all_frozen
            need_byp = (nb > 0)
        with drive.quiet():
            dq[:] = list(act_duct)
            reg._calc_duct_temp(None, t_gap, hg, adiabatic)
            for d in range(reg.n_duct):
                if wall_frozen[d]:
                    reg.temp['duct_mw'][d] = T0
                    reg.temp['duct_surf'][d] = T0
            # interior update: properties at the interior mean
            reg.coolant.update(t_int_mean)
            dq[:] = [act_duct[0]]
            cq[:] = []
            if kind == 'wall':
                d, c = idx
                reg.temp['duct_mw'][d, c] += eps
                reg.temp['duct_surf'][d, :, c] += eps
            if need_int or kind is None:
                new_int = reg.temp['coolant_int'] + \
                    reg._calc_coolant_int_temp(dz, None, None)
            else:
                new_int = cache['int'].copy()
            if nb > 0:
                cq[:] = list(act_byp)
                dq[:] = [act_duct[j] for b in range(nb) for j in (b, b + 1)]
                if need_byp or kind is None:
                    if flowing:
                        new_byp = reg.temp['coolant_byp'] + \
                            reg._calc_coolant_byp_temp(dz)
                    else:
                        new_byp = reg.temp['coolant_byp'] + \
                            reg._calc_coolant_byp_temp_stagnant(dz)
                else:
                    new_byp = cache['byp'].copy()
                    if kind == 'byp':
                        new_byp[idx] += eps
                if kind is None:
                    cache['int'] = np.array(new_int, copy=True)
                    cache['byp'] = np.array(new_byp, copy=True)
                if not need_int and kind == 'int':
                    pass
                return np.concatenate([new_int, new_byp.ravel()])
        if kind is None:
            cache['int'] = np.array(new_int, copy=True)
        return np.array(new_int, copy=True)

    try:
        reg._update_coolant = _fake_cool
        reg._update_duct = _fake_duct
        inputs = [('int', i) for i in range(n)]
        for b in range(nb):
            inputs += [('byp', (b, c)) for c in range(nd)]
        if not adiabatic:
            all_slaved_outer = not wall_frozen[-1]
            if all_slaved_outer:
                inputs += [('gap', c) for c in range(nd)]
        for d in range(reg.n_duct):
            if wall_frozen[d]:
                inputs += [('wall', (d, c)) for c in range(nd)]

        def scan():
            cache.clear()
            base = evaluate()
            nrow = base.size
            rowsum = np.zeros(nrow)
            diag = np.full(nrow, np.nan)
            minw = 0.0
            worst = None
            for kind, idx in inputs:
                col = (evaluate(kind, idx) - base) / eps
                rowsum += col
                if kind == 'int':
                    diag[idx] = col[idx]
                elif kind == 'byp':
                    diag[n + idx[0] * nd + idx[1]] = \
                        col[n + idx[0] * nd + idx[1]]
                m = float(np.min(col))
                if m < minw:
                    minw = m
                    worst = (kind, idx, int(np.argmin(col)))
            return base, nrow, rowsum, diag, minw, worst

        base, nrow, rowsum, diag, minw, worst = scan()
        res.close('W_zero_power_invariance', float(np.max(np.abs(base - T0))),
                  T0, 1e-12, 'uniform state is not a fixed point of the '
                  'update without power', key)
        tol = WTOL if not tdep else 1e-7
        # The same operator with every material and correlated parameter at
        # one of the two temperatures at which DASSH evaluates its limits:
        # there the selected step must keep all weights non-negative. A
        # negative weight that appears only with the properties of the actual
        # state is the recorded finding F22; one that is already there at an
        # evaluation temperature is not.
        minw_ev = []
        if minw < -tol and tdep and eval_temps:
            keep = (t_int_mean, act_byp, act_duct)
            fakes = {}
            try:
                for T_ev in eval_temps:
                    for nm in ('_update_coolant', '_update_duct'):
                        if nm in reg.__dict__:
                            fakes[nm] = reg.__dict__.pop(nm)
                    with drive.quiet():
                        reg._update_coolant_int_params(
                            T_ev, use_mat_tracker=False)
                        if nb > 0:
                            reg._update_coolant_byp_params([T_ev] * nb)
                    for nm, f in fakes.items():
                        reg.__dict__[nm] = f
                    t_int_mean = float(T_ev)
                    act_byp = [float(T_ev)] * nb
                    act_duct = ([float(T_ev)] * reg.n_duct
                                if reg._conv_approx else keep[2])
                    minw_ev.append(float(scan()[4]))
            finally:
                t_int_mean, act_byp, act_duct = keep
                for nm in ('_update_coolant', '_update_duct'):
                    if nm in reg.__dict__:
                        fakes[nm] = reg.__dict__.pop(nm)
                with drive.quiet():
                    reg._update_coolant_int_params(t_int_mean,
                                                   use_mat_tracker=False)
                    if nb > 0:
                        reg._update_coolant_byp_params(act_byp)
                for nm, f in fakes.items():
                    reg.__dict__[nm] = f
        st = reg.subchannel.type
        typ = None
        if worst is not None:
            row = worst[2]
            typ = int(st[row]) if row < n else 5 + int(reg._duct_idx[
                (row - n) % nd])
        mode = 'frozen' if frozen else 'composite'
        k2 = dict(key, region='rodded', mode=mode, row_type=typ,
                  adiabatic=bool(adiabatic), nbyp=nb,
                  byp_flowing=bool(flowing),
                  conv_approx=bool(reg._conv_approx))
        if minw < -tol and tdep and limits is not None:
            # is the witness explained by DASSH's own limit being lower at
            # this state's temperature than at both evaluation temperatures?
            for nm in ('_update_coolant', '_update_duct'):
                if nm in reg.__dict__:
                    del reg.__dict__[nm]
            sv.restore()
            import dassh.region_rodded as _rr
            with drive.quiet():
                # DASSH's own limit formulas with the properties of this
                # state: coolant at the interior mean, duct at its mid-wall
                # average, correlated parameters as the sweep left them
                which = None
                if adiabatic:
                    which = 'outer_byp' if flowing else 'outer'
                reg.coolant.update(t_int_mean)
                reg.duct.update(act_duct[0])
                lim_here = float(_rr._calculate_int_dz(reg, which)[0])
                if flowing:
                    reg.coolant.update(act_byp[0])
                    lim_here = min(lim_here, float(
                        _rr._calculate_byp_dz(reg, which)[0]))
                # ... and at the two temperatures DASSH is meant to
                # evaluate (inlet, estimated outlet), recomputed here rather
                # than read from Reactor.min_dz
                lim_ends = []
                for T_ev in eval_temps or []:
                    reg.duct.update(T_ev if reg._conv_approx else sv.td)
                    reg._update_coolant_int_params(T_ev, use_mat_tracker=False)
                    le = float(_rr._calculate_int_dz(reg, which)[0])
                    if flowing:
                        reg._update_coolant_byp_params([T_ev] * nb)
                        le = min(le, float(_rr._calculate_byp_dz(reg,
                                                                 which)[0]))
                    lim_ends.append(le)
                # put the correlated parameters back as the sweep left them
                reg._update_coolant_int_params(t_int_mean,
                                               use_mat_tracker=False)
                if nb > 0:
                    reg._update_coolant_byp_params(act_byp)
                sv.restore()
            deficit = (dz - lim_here) / dz
            # property temperatures of this state outside the two
            # evaluation temperatures (e.g. a starved bypass gap far hotter
            # than the estimated mixed-mean outlet)
            t_state = [t_int_mean] + list(act_byp) + (
                list(act_duct) if reg._conv_approx else [])
            beyond = bool(eval_temps) and (
                max(t_state) > max(eval_temps) + 0.5 or
                min(t_state) < min(eval_temps) - 0.5)
            if minw_ev and min(minw_ev) >= -tol:
                k2['mech'] = 'limit_lower_at_actual_state_than_at_evaluation_temps'
            data_extra = {'limit_at_state': lim_here,
                          'min_weight_at_evaluation_temps': minw_ev,
                          'state_temps': t_state,
                          'evaluation_temps': list(eval_temps or []),
                          'state_beyond_evaluation_range': beyond,
                          'limit_at_evaluation_temps': lim_ends,
                          'limit_reported': limits, 'deficit': deficit}
        else:
            data_extra = {}
        res.check('W_nonneg_weights', minw >= -tol,
                  'negative weight %.3e in the %s operator of a pin bundle '
                  '(input %r -> row %r)' % (minw, mode, worst and worst[:2],
                                            worst and worst[2]), k2,
                  dict({'min_weight': minw, 'dz': dz}, **data_extra))
        res.stat('W_min_weight_rodded_' + mode, minw)
        res.stat('W_min_selfweight_rodded_' + mode, float(np.nanmin(diag)))
        res.close('W_row_sums_one', float(np.max(np.abs(rowsum - 1.0))), 1.0,
                  1e-9 if not tdep else 1e-6,
                  'weights of a pin-bundle row do not sum to one', k2)
        res.count('W_rows_probed', nrow)
        return nrow
    finally:
        for nm in ('_update_coolant', '_update_duct'):
            if nm in reg.__dict__:
                del reg.__dict__[nm]
        sv.restore()


def probe_unrodded(res, reg, dz, h_gap, adiabatic, key, tdep,
                   eval_temps=None):
    sv = Saved(reg)
    six = (reg.model == '6node')
    T0 = float(np.mean(sv.temp['coolant_int']))
    T_state = T0
    nn = 6 if six else 1
    hg = np.array(h_gap, dtype=float, copy=True)
    eps = 1.0 if not tdep else 1e-3

    def evaluate(kind=None, idx=None):
        _set_uniform(reg, T0)
        if kind == 'node':
            reg.temp['coolant_int'][idx] += eps
        if adiabatic:
            with drive.quiet():
                reg._calc_duct_temp(np.ones(6), np.ones(6), True)
        if kind == 'wall':
            reg.temp['duct_mw'][0, idx] += eps
            reg.temp['duct_surf'][0, :, idx] += eps
        with drive.quiet():
            dT = reg._calc_coolant_temp(dz, {'refl': 0.0}, adiabatic)
        return reg.temp['coolant_int'] + dT

    inputs = [('node', i) for i in range(nn)]
    if not adiabatic:
        inputs += [('wall', c) for c in range(6)]

    def scan():
        base = np.array(evaluate(), copy=True)
        rowsum = np.zeros(nn)
        minw = 0.0
        diag = []
        for kind, idx in inputs:
            col = (np.array(evaluate(kind, idx), copy=True) - base) / eps
            rowsum += col
            if kind == 'node':
                diag.append(col[idx])
            minw = min(minw, float(np.min(col)))
        return base, rowsum, minw, diag

    try:
        # six-node model refreshes its own parameters inside the update
        base, rowsum, minw, diag = scan()
        res.close('W_zero_power_invariance', float(np.max(np.abs(base - T0))),
                  T0, 1e-12, 'uniform state is not a fixed point', key)
        k2 = dict(key, region=reg.model, adiabatic=bool(adiabatic),
                  mratio=float(reg.mratio),
                  conv_approx=bool(reg._conv_approx))
        tol = WTOL if not tdep else 1e-7
        minw_ev = []
        if minw < -tol and tdep and eval_temps:
            # the same operator with coolant (and, under the low-flow
            # approximation, wall) properties at the two temperatures at
            # which DASSH evaluates this region's limit (see probe_rodded)
            td_now = float(reg.duct.temperature)
            try:
                for T_ev in eval_temps:
                    T0 = float(T_ev)
                    with drive.quiet():
                        reg._update_coolant_params(T0,
                                                   use_mat_tracker=False)
                        if reg._conv_approx:
                            reg.duct.update(T0)
                    minw_ev.append(float(scan()[2]))
            finally:
                T0 = T_state
                with drive.quiet():
                    reg.duct.update(td_now)
            if min(minw_ev) >= -tol:
                k2['mech'] = ('lowfid_limit_lower_at_actual_state_than_at_'
                              'evaluation_temps')
        res.check('W_nonneg_weights', minw >= -tol,
                  'negative weight %.3e in the %s low-fidelity operator'
                  % (minw, reg.model), k2,
                  {'min_weight': minw, 'dz': dz,
                   'selfweight': float(min(diag)),
                   'state_temperature': T_state,
                   'evaluation_temps': list(eval_temps or []),
                   'min_weight_at_evaluation_temps': minw_ev})
        res.stat('W_min_selfweight_' + reg.model, float(min(diag)))
        res.close('W_row_sums_one', float(np.max(np.abs(rowsum - 1.0))), 1.0,
                  1e-9 if not tdep else 1e-6,
                  'weights of a low-fidelity row do not sum to one', k2)
        res.count('W_rows_probed', nn)
        return nn
    finally:
        sv.restore()
        with drive.quiet():
            reg._update_coolant_params(sv.temp['coolant_int'].mean()
                                       if six else sv.temp['coolant_int'][0])
            reg.coolant.update(sv.tc)


def probe_gap(res, core, dz, key, tdep, t_duct, eval_temps=None):
    """Weights of [T_gap, T_duct] -> new T_gap for the active gap model."""
    if core.model is None:
        return 0
    T_saved = core.coolant_gap_temp.copy()
    n = core.n_sc
    T0 = float(np.mean(T_saved))
    adj = core._asm_sc_adj
    shape = adj.shape
    eps = 1.0 if not tdep else 1e-3

    def evaluate(gap_idx=None, duct_idx=None):
        core.coolant_gap_temp = np.full(n, T0)
        td = np.full(shape, T0)
        if gap_idx is not None:
            core.coolant_gap_temp[gap_idx] += eps
        if duct_idx is not None:
            td[duct_idx] += eps
        if core.model == 'flow':
            return core.coolant_gap_temp + core._flow_model(dz, td)
        if core.model == 'no_flow':
            return core._noflow_model(td)
        return core._duct_average_model(td)

    def scan():
        base = np.array(evaluate(), copy=True)
        rowsum = np.zeros(n)
        minw = 0.0
        diag = np.zeros(n)
        worst = None
        for j in range(n):
            col = (np.array(evaluate(gap_idx=j), copy=True) - base) / eps
            rowsum += col
            diag[j] = col[j]
            if float(np.min(col)) < minw:
                minw = float(np.min(col))
                worst = ('gap', j, int(np.argmin(col)))
        for a in range(shape[0]):
            for c in range(shape[1]):
                if adj[a, c] <= 0:
                    continue
                col = (np.array(evaluate(duct_idx=(a, c)), copy=True)
                       - base) / eps
                rowsum += col
                if float(np.min(col)) < minw:
                    minw = float(np.min(col))
                    worst = ('duct', (a, c), int(np.argmin(col)))
        return base, rowsum, diag, minw, worst

    try:
        base, rowsum, diag, minw, worst = scan()
        res.close('W_zero_power_invariance', float(np.max(np.abs(base - T0))),
                  T0, 1e-12, 'uniform gap state is not a fixed point', key)
        k2 = dict(key, region='gap', model=core.model)
        tol = WTOL if not tdep else 1e-7
        minw_ev = []
        if minw < -tol and tdep and eval_temps and core.model == 'flow':
            # the same operator with the gap coolant at the two temperatures
            # at which DASSH evaluates the gap step limit (see probe_rodded)
            t_now = float(core.gap_coolant.temperature)
            try:
                for T_ev in eval_temps:
                    with drive.quiet():
                        core._update_coolant_gap_params(float(T_ev))
                    minw_ev.append(float(scan()[3]))
            finally:
                with drive.quiet():
                    core._update_coolant_gap_params(t_now)
            if min(minw_ev) >= -tol:
                k2['mech'] = ('gap_limit_lower_at_actual_state_than_at_'
                              'evaluation_temps')
        res.check('W_nonneg_weights', minw >= -tol,
                  'negative weight %.3e in the inter-assembly gap operator '
                  '(%s model; %r)' % (minw, core.model, worst), k2,
                  {'min_weight': minw, 'dz': dz,
                   'min_selfweight': float(np.min(diag)),
                   'min_weight_at_evaluation_temps': minw_ev,
                   'evaluation_temps': list(eval_temps or []),
                   'gap_coolant_temperature':
                       float(core.gap_coolant.temperature)})
        res.stat('W_min_selfweight_gap_' + core.model, float(np.min(diag)))
        res.close('W_row_sums_one', float(np.max(np.abs(rowsum - 1.0))), 1.0,
                  1e-9 if not tdep else 1e-6,
                  'weights of a gap row do not sum to one', k2)
        res.count('W_rows_probed', n)
        res.count('W_gap_rows_probed', n)
        return n
    finally:
        core.coolant_gap_temp = T_saved


# ----------------------------------------------------------------------


def _water(P):
    """Water-like constant-property coolant: low conductivity, so the film
    coefficient (not conduction) dominates every wall coupling term."""
    P['materials']['water_const'] = {
        'thermal_conductivity': [0.6], 'density': [1000.0],
        'viscosity': [1.0e-3], 'heat_capacity': [4180.0]}
    P['coolant'] = 'water_const'
    P['coolant_rho_cp'] = (1000.0, 4180.0)
    return False


def build_problem(case):
    rng = np.random.default_rng(case['seed'])
    if case['kind'] == 'asm':
        tdep = rng.random() < 0.3
        P, feats = wl.single_assembly(
            rng, coolant_pool=True, tdep=tdep, max_rings=5, length=0.25,
            vel=wl.loguniform(rng, 0.008, 6.0),
            lf=(rng.random() < 0.2), regions=(rng.random() < 0.3))
        t = P['types']['a']
        if t.get('use_low_fidelity_model'):
            t['convection_factor'] = wl.choose(
                rng, ['calculate', 1.0, 0.6, 0.2, 0.05])
            feats['lf_cf'] = t['convection_factor']
        for nm, rg in t.get('AxialRegion', {}).items():
            rg['convection_factor'] = float(wl.choose(
                rng, [1.0, 0.5, 0.2, 0.05]))
        if P['gap_model'] != 'none':
            P['bypass_fraction'] = wl.loguniform(rng, 1e-3, 0.2)
        feats['bypass_fraction'] = P['bypass_fraction']
        if rng.random() < 0.3:
            feats['user_dz'] = float(wl.choose(rng, [1e-4, 1e-3, 0.005,
                                                     0.05]))
            P['setup']['axial_mesh_size'] = feats['user_dz']
    elif case['kind'] == 'lowfi':
        # low-fidelity regions made the limiting ones: low flow, gap-coupled
        tdep = rng.random() < 0.3
        whole = rng.random() < 0.5
        P, feats = wl.single_assembly(
            rng, tdep=tdep, max_rings=4, length=0.25, n_duct=1,
            gap=wl.choose(rng, ['flow', 'no_flow', 'no_flow',
                                'duct_average', 'duct_average']),
            vel=(wl.loguniform(rng, 1e-4, 2e-3) if (whole and
                                                    rng.random() < 0.5)
                 else wl.loguniform(rng, 0.002, 0.1)), lf=whole,
            regions=(not whole), conv_approx=(rng.random() < 0.3))
        t = P['types']['a']
        if whole:
            t['convection_factor'] = wl.choose(
                rng, ['calculate', 1.0, 0.5, 0.2, 0.1, 0.05])
            feats['lf_cf'] = t['convection_factor']
        else:
            if not t.get('AxialRegion'):
                wl.add_axial_regions(rng, P, 'a', n_lower=1, n_upper=1)
            for nm, rg in t.get('AxialRegion', {}).items():
                rg['convection_factor'] = float(wl.choose(
                    rng, [1.0, 0.5, 0.2, 0.05]))
            feats['regions'] = [rg['model'] for rg in
                                t.get('AxialRegion', {}).values()]
        P['bypass_fraction'] = wl.loguniform(rng, 0.01, 0.2)
    elif case['kind'] == 'bypass':
        # flowing bypass gap made the limiting region, T-dependent coolant
        # with a real temperature rise (limit differs inlet vs outlet)
        tdep = True
        P, feats = wl.single_assembly(
            rng, coolant_pool=True, tdep=True, max_rings=4, length=0.3,
            n_duct=int(wl.choose(rng, [2, 3, 3])),
            gap=wl.choose(rng, ['none', 'none', 'no_flow', 'duct_average',
                                'flow']),
            vel=wl.loguniform(rng, 0.3, 4.0), lf=False, regions=False,
            conv_approx=False, byp=wl.loguniform(rng, 2e-4, 0.05))
        sp = P['power']['asm']['0']
        sp['total'] = sp['total'] * 2.0
        sp['comps'] = [1, 2, 3]
        if P['gap_model'] != 'none':
            P['bypass_fraction'] = wl.loguniform(rng, 0.02, 0.2)
        if rng.random() < 0.3:
            tdep = _water(P)
    elif case['kind'] == 'ddcore':
        # several assemblies of ONE double/triple-duct type with very
        # different flows (one of them starved): the bypass gap of the
        # starved one limits the step; sodium, T-dependent sodium or a
        # water-like coolant (film coefficients dominate the wall coupling)
        nd = int(wl.choose(rng, [2, 2, 3, 3]))
        ck = wl.choose(rng, ['na', 'tdep', 'water'])
        tdep = (ck == 'tdep')
        gapm = wl.choose(rng, ['none', 'none', 'no_flow', 'flow',
                               'duct_average'])
        P = gen.base_problem(length=0.25, asm_pitch=0.12, gap_model=gapm,
                             coolant=(wl.TDEP_NA if tdep else 'na_const'),
                             bypass_fraction=(0.0 if gapm == 'none' else
                                              wl.loguniform(rng, 0.02, 0.2)))
        if ck == 'water':
            _water(P)
        P['types']['a'] = wl.random_type(
            rng, 0.1175, nr=int(wl.choose(rng, [2, 3, 4])), n_duct=nd,
            tdep=tdep, allow_bare=False,
            byp=wl.loguniform(rng, 2e-4, 0.05))
        wl.random_power(rng, P, max_cells=2, max_order=1)
        n_asm = int(rng.integers(1, 5))
        spots = [0] + [int(x) for x in rng.permutation(np.arange(1, 7))[
            :n_asm - 1]]
        for j, k0 in enumerate(sorted(spots)):
            ring, pos = gen.ring_pos(k0)
            v = wl.loguniform(rng, 0.01, 0.2) if j == 0 else \
                wl.loguniform(rng, 0.3, 6.0)
            gen.add_position(P, 'a', ring, pos, velocity=v,
                             dT=float(rng.uniform(5, 60)),
                             shape=wl.choose(rng, ['rand', 'flat']),
                             comps=[1, 2, 3])
        feats = {'n_duct': nd, 'coolant_kind': ck, 'gap': gapm,
                 'n_asm': n_asm, 'nr': P['types']['a']['num_rings'],
                 'byp': P['types']['a'].get('bypass_gap_flow_fraction')}
    elif case['kind'] == 'sevenpin':
        # two-ring (7-pin) bundles with little flow and a weak or absent
        # wall term: the six interior cells (each next to two interior cells
        # and one edge cell) are the ones that limit the step
        tdep = rng.random() < 0.3
        P, feats = wl.single_assembly(
            rng, coolant_pool=True, tdep=tdep, nr=2, length=0.25,
            gap=wl.choose(rng, ['none', 'none', 'none', 'flow',
                                'duct_average']),
            vel=wl.loguniform(rng, 0.001, 0.06), lf=False, regions=False,
            conv_approx=(rng.random() < 0.3),
            n_duct=int(wl.choose(rng, [1, 1, 2])))
        if P['gap_model'] != 'none':
            P['bypass_fraction'] = wl.loguniform(rng, 0.02, 0.2)
    elif case['kind'] == 'lfcore':
        # a driver surrounded by low-fidelity reflector/shield assemblies
        # with very little flow, some of their axial regions six-node: the
        # low-fidelity nodes are the cells that limit the step of the core
        tdep = rng.random() < 0.3
        gapm = wl.choose(rng, ['flow', 'flow', 'no_flow', 'duct_average'])
        P = gen.base_problem(length=0.3, asm_pitch=0.12, gap_model=gapm,
                             coolant=(wl.TDEP_NA if tdep else 'na_const'),
                             bypass_fraction=wl.loguniform(rng, 0.02, 0.2))
        P['types']['drv'] = wl.random_type(
            rng, 0.1175, nr=int(wl.choose(rng, [2, 3, 4])), n_duct=1,
            tdep=tdep, allow_bare=False)
        t = wl.random_type(rng, 0.1175, nr=int(wl.choose(rng, [2, 3, 4])),
                           n_duct=1, tdep=tdep, allow_bare=False)
        t['use_low_fidelity_model'] = True
        t['convection_factor'] = wl.choose(rng, ['calculate', 1.0, 0.5, 0.2])
        P['types']['refl'] = t
        regs = wl.add_axial_regions(
            rng, P, 'refl', n_lower=1, n_upper=int(rng.integers(0, 2)),
            models=('6node', '6node', 'simple'))
        for rg in t.get('AxialRegion', {}).values():
            rg.pop('convection_factor', None)
            if rng.random() < 0.4:
                rg['convection_factor'] = float(wl.choose(rng, [1.0, 0.5,
                                                                0.2]))
        wl.random_power(rng, P, max_cells=2, max_order=1)
        gen.add_position(P, 'drv', 1, 1, velocity=wl.loguniform(rng, 1.0, 5.0),
                         dT=float(rng.uniform(20, 100)), shape='rand')
        n_refl = int(rng.integers(1, 7))
        for k0 in sorted(int(x) for x in rng.permutation(
                np.arange(1, 7))[:n_refl]):
            ring, pos = gen.ring_pos(k0)
            gen.add_position(P, 'refl', ring, pos,
                             velocity=wl.loguniform(rng, 5e-4, 2e-2),
                             dT=float(rng.uniform(2, 30)), shape='flat')
        if rng.random() < 0.4:
            P['setup']['conv_approx'] = True
            P['setup']['conv_approx_dz_cutoff'] = float(
                wl.choose(rng, [0.001, 0.01, 0.1]))
        feats = {'gap': gapm, 'n_refl': n_refl,
                 'regions': [t['AxialRegion'][n]['model'] for n in regs],
                 'conv_approx': bool(P['setup'].get('conv_approx'))}
    elif case['kind'] == 'approx':
        # low-flow convection approximation with T-dependent wall/coolant
        tdep = True
        nd = int(wl.choose(rng, [1, 2, 2, 3]))
        gapm = wl.choose(rng, ['flow', 'no_flow', 'duct_average'])
        byp = wl.choose(rng, [0.0, wl.loguniform(rng, 0.2, 0.6),
                              wl.loguniform(rng, 0.02, 0.2)])
        tkw = None
        if nd > 1 and rng.random() < 0.5:
            # designs in which the pin bundle, not a gap, sets the step:
            # wide, well-fed bypass gaps, no inter-assembly gap limit, and
            # walls of clearly different thickness (outermost first)
            w_in = float(rng.uniform(0.0007, 0.0015))
            ws = [w_in * float(rng.uniform(1.5, 4.0)) for _ in range(nd - 1)]
            tkw = {'wall': ws + [w_in],
                   'byp_gap': [float(rng.uniform(0.0025, 0.005))
                               for _ in range(nd)]}
            byp = float(rng.uniform(0.4, 0.7))
            gapm = wl.choose(rng, ['none', 'duct_average'])
        P, feats = wl.single_assembly(
            rng, coolant_pool=True, tdep=True, max_rings=4, length=0.25, gap=gapm,
            vel=wl.loguniform(rng, 0.005, 0.1), lf=False, regions=False,
            conv_approx=True, n_duct=nd, byp=byp, type_kw=tkw)
        feats['bundle_limited_design'] = tkw is not None
        P['setup']['conv_approx_dz_cutoff'] = 0.1
        P['types']['a']['duct_material'] = 'ht9'
        P['bypass_fraction'] = wl.loguniform(rng, 0.02, 0.2)
    elif case['kind'] == 'core':
        tdep = rng.random() < 0.3
        P, feats = wl.core_problem(
            rng, n_ring=2, tdep=tdep,
            gap=wl.choose(rng, ['flow', 'flow', 'no_flow', 'duct_average']),
            empty_frac=0.2, max_rings=4, length=0.3,
            vel_range=(0.02, 5.0), coolant_pool=True, shared_flow=0.5,
            n_types=int(wl.choose(rng, [1, 1, 2, 3])))
        P['bypass_fraction'] = wl.loguniform(rng, 1e-3, 0.2)
        feats['bypass_fraction'] = P['bypass_fraction']
    else:
        tdep = rng.random() < 0.3
        P, feats = wl.single_assembly(
            rng, coolant_pool=True, tdep=tdep, max_rings=5, length=0.4,
            vel=wl.loguniform(rng, 0.01, 5.0), lf=(rng.random() < 0.15),
            regions=(rng.random() < 0.3))
        feats['maxp'] = wl.choose(rng, ['zero', 'nonneg', 'bottom'])
    feats['tdep'] = tdep
    feats['power_scaling'] = None
    if case['kind'] != 'maxp' and rng.random() < 0.3:
        # the same power written as a smaller distribution times a scaling
        # factor (the hot end of the step criterion follows the scaled power)
        sc = float(wl.choose(rng, [2.0, 3.0, 5.0]))
        P['power']['scaling'] = sc
        for sp in P['power']['asm'].values():
            sp['total'] = sp['total'] / sc
        feats['power_scaling'] = sc
    # the correlation-update tolerance is outside this property's quantifier
    # (stale correlated parameters are an accepted approximation; C01 covers
    # it for energy conservation): always update
    P['setup'].pop('param_update_tol', None)
    feats['ptol'] = 0.0
    return P, feats


def steps_ok(r, res, limit=4000):
    if len(r.z) > limit:
        res.status('rejected', 'too many steps (%d)' % len(r.z))
        res.tag('skipped_too_many_steps')
        return False
    return True


def check_own_limits(res, r, dzmax, key, P=None, inp=None):
    """The step requirement recorded for every assembly is the one its own
    regions give between the inlet and its own estimated outlet temperature
    (DASSH's limit functions re-run on the live assembly), and the selected
    step does not exceed any of them. The estimated outlet temperature is
    the one the power of the INPUT (after normalisation and scaling) gives
    with the assembly's flow."""
    lims = []
    if P is not None and inp is not None:
        from vmon.checks.c03 import expected_assigned
        exp, _tot = expected_assigned(P)
        cm = inp.data['Core']['coolant_material'].lower()
        for a in r.assemblies:
            if a.id not in exp or not exp[a.id] > 0.0:
                continue
            with drive.quiet():
                t_exp = float(dassh.utils.Q_equals_mCdT(
                    exp[a.id], r.inlet_temp, r.materials[cm].clone(),
                    mfr=a.flow_rate))
            rise = max(t_exp - float(r.inlet_temp), 1e-9)
            res.close('L0_estimated_outlet_follows_input_power',
                      float(a._estimated_T_out) - t_exp, rise, 1e-6,
                      'estimated outlet temperature of assembly %d (hot end '
                      'of the step criterion) is not the one its input '
                      'power and flow give' % a.id,
                      dict(key, scaling=P['power'].get('scaling')),
                      {'got': float(a._estimated_T_out), 'exp': t_exp,
                       'power_expected': exp[a.id],
                       'total_power': float(a.total_power)})
    with drive.quiet():
        for ai, a in enumerate(r.assemblies):
            own = float(dassh.assembly.calculate_min_dz(
                a, r.inlet_temp, a._estimated_T_out, r._is_adiabatic)[0])
            lims.append(own)
            res.close('L_recorded_limit_is_own_limit',
                      float(r.min_dz['dz'][ai]) - own, own, 1e-10,
                      'step requirement recorded for an assembly differs '
                      'from the limit of its own regions at its own '
                      'temperatures', key,
                      {'asm': a.id, 'recorded': float(r.min_dz['dz'][ai]),
                       'own': own, 'T_out_est': float(a._estimated_T_out),
                       'flow': float(a.flow_rate), 'type': a.name})
    res.check('L_step_within_every_assembly_limit',
              dzmax <= min(lims) * (1 + 1e-9),
              'selected step %.6e exceeds the limit %.6e of assembly %d'
              % (dzmax, min(lims), int(np.argmin(lims))), key,
              {'dz': dzmax, 'limits': lims})
    if len(set(np.round(lims, 14))) > 1:
        res.count('L_cores_with_distinct_limits')


def run_probe_case(case, res):
    P, feats = build_problem(case)
    tdep = feats['tdep']
    key = {'gap': P['gap_model'], 'tdep': tdep}
    with drive.scratch() as d:
        inp, r = drive.build(P, d, max_steps=MAX_STEPS)
        if not steps_ok(r, res):
            return feats
        dzmax = float(np.max(r.dz))
        feats['dz'] = dzmax
        feats['limit'] = [float(x) for x in r.min_dz['dz']]
        check_own_limits(res, r, dzmax, key, P=P, inp=inp)
        res.tag('power_scaling=%s' % feats.get('power_scaling'))
        pts = set([1, len(r.z) - 1])
        # ... and one step inside every axial region of the assemblies that
        # are probed
        for a in (r.assemblies if case['kind'] == 'lfcore'
                  else r.assemblies[:3]):
            for reg in a.region[:4]:
                zm = 0.5 * (float(reg.z[0]) + float(reg.z[1]))
                i = int(np.argmin(np.abs(np.asarray(r.z) - zm)))
                pts.add(min(max(i, 1), len(r.z) - 1))
        pts = sorted(pts)
        rows = [0]

        def probe_all(i):
            if i not in pts:
                return
            for ai, a in enumerate(r.assemblies):
                if case['kind'] == 'core' and ai > 2:
                    continue
                reg = a.active_region
                if r.core.model is None:
                    hg = np.ones(reg.temp['duct_mw'].shape[-1])
                    tg = np.ones(reg.temp['duct_mw'].shape[-1])
                else:
                    hg = dassh.mesh_functions.map_across_gap(
                        r.core.adjacent_coolant_gap_htc(ai),
                        reg._map['gap2duct'])
                    tg = dassh.mesh_functions.map_across_gap(
                        r.core.adjacent_coolant_gap_htc(ai)
                        * r.core.adjacent_coolant_gap_temp(ai),
                        reg._map['gap2duct']) / hg
                if reg.is_rodded:
                    if reg.subchannel.n_sc['coolant']['total'] > 700:
                        continue
                    rows[0] += probe_rodded(res, reg, dzmax, hg, tg,
                                            r._is_adiabatic, key, tdep,
                                            frozen=True,
                                            limits=float(r.min_dz['dz'][ai]),
                                            eval_temps=[
                                                float(r.inlet_temp),
                                                float(a._estimated_T_out)])
                    if i == pts[-1]:
                        rows[0] += probe_rodded(res, reg, dzmax, hg, tg,
                                                r._is_adiabatic, key, tdep,
                                                frozen=False)
                else:
                    rows[0] += probe_unrodded(res, reg, dzmax, hg,
                                              r._is_adiabatic, key, tdep,
                                              eval_temps=[
                                                  float(r.inlet_temp),
                                                  float(a._estimated_T_out)])
            if r.core.model is not None:
                t_duct = np.array([dassh.mesh_functions.map_across_gap(
                    a.duct_outer_surf_temp, a.active_region._map['duct2gap'])
                    for a in r.assemblies])
                cm = inp.data['Core']['coolant_material'].lower()
                with drive.quiet():
                    # on a clone: the helper moves the material it is given
                    t_out_core = float(dassh.utils.Q_equals_mCdT(
                        r.total_power, r.inlet_temp,
                        r.materials[cm].clone(), mfr=r.flow_rate))
                rows[0] += probe_gap(res, r.core, dzmax, key, tdep, t_duct,
                                     eval_temps=[float(r.inlet_temp),
                                                 t_out_core])

        # estimated-outlet state used by the step criterion
        drive.sweep(r, on_step=probe_all)
        T = np.concatenate([a.temp_coolant for a in r.assemblies])
        res.check('M_finite', bool(np.all(np.isfinite(T))),
                  'non-finite temperatures at the outlet', key)
        for k in ('gap', 'conv_approx', 'lf'):
            if k in feats:
                res.tag('%s=%s' % (k, feats[k]))
        res.tag('tdep=%s' % tdep)
        res.tag('limiting:' + str(r.min_dz['sc'][int(np.argmin(
            r.min_dz['dz']))]))
        if dzmax < 0.9 * float(np.min(r.min_dz['dz'])):
            res.tag('step_below_every_limit(cap_or_user)')
        for a in r.assemblies[:3]:
            for reg in a.region:
                res.tag('region:' + ('rodded' if reg.is_rodded
                                     else reg.model))
        if 'user_dz' in feats:
            res.tag('user_dz:' + ('honoured' if abs(r.req_dz - feats[
                'user_dz']) < 1e-12 else 'ignored'))
        if rows[0] >= 50:
            res.nontrivial(repr(sorted(feats.items(), key=str)))
    return feats


def run_ptol(case, res):
    """param_update_tol > 0: the stale correlated parameters of the march
    are outside this property, the step requirement is not - it is the
    limit formula with everything evaluated afresh at the inlet and at the
    estimated outlet temperature."""
    import dassh.region_rodded as _rr
    rng = np.random.default_rng(case['seed'])
    P, feats = wl.single_assembly(
        rng, coolant_pool=True, tdep=True, max_rings=4, length=0.25,
        gap=wl.choose(rng, ['none', 'none', 'flow']),
        vel=wl.loguniform(rng, 0.01, 0.3), lf=False, regions=False,
        conv_approx=False, n_duct=int(wl.choose(rng, [1, 1, 2])))
    P['setup']['param_update_tol'] = float(wl.choose(rng, [0.01, 0.05, 0.2]))
    sp = P['power']['asm']['0']
    if rng.random() < 0.5:
        sp['total'] *= 0.05          # small rise: both evaluations "close"
    key = {'gap': P['gap_model'], 'ptol': P['setup']['param_update_tol']}
    with drive.scratch() as d:
        inp, r = drive.build(P, d, max_steps=MAX_STEPS)
        a = r.assemblies[0]
        reg = a.rodded
        flowing = reg.n_bypass > 0 and np.sum(reg.byp_flow_rate) > 0
        which = None
        if r._is_adiabatic:
            which = 'outer_byp' if flowing else (
                'outer' if reg.n_bypass == 0 else None)
        t_now = float(reg.coolant.temperature)
        lims = []
        with drive.quiet():
            for T in (float(r.inlet_temp), float(a._estimated_T_out)):
                reg._update_coolant_int_params(T, use_mat_tracker=False)
                lims.append(float(_rr._calculate_int_dz(reg, which)[0]))
                if flowing:
                    reg._update_coolant_byp_params([T] * reg.n_bypass)
                    lims.append(float(_rr._calculate_byp_dz(reg, which)[0]))
            reg._update_coolant_int_params(t_now, use_mat_tracker=False)
            if reg.n_bypass:
                reg._update_coolant_byp_params([t_now] * reg.n_bypass)
        want = min(lims)
        got = float(r.min_dz['dz'][0])
        res.close('L2_requirement_is_formula_at_evaluation_temps',
                  got - want, want, 1e-9,
                  'step requirement recorded for the bundle (%.6e) is not '
                  'the limit formula evaluated afresh at the inlet and the '
                  'estimated outlet temperature (%.6e)' % (got, want), key,
                  {'recorded': got, 'formula': lims,
                   'T_out_est': float(a._estimated_T_out)})
        res.check('L_step_within_every_assembly_limit',
                  float(np.max(r.dz)) <= want * (1 + 1e-9),
                  'selected step %.6e exceeds the requirement %.6e'
                  % (float(np.max(r.dz)), want), key)
        res.tag('ptol=%g' % P['setup']['param_update_tol'])
        res.tag('limiting:' + str(r.min_dz['sc'][0]))
        if want < 0.01:
            res.nontrivial('ptol/%s/%s' % (feats['nr'], case['seed'][-1]))
    return feats


def run_maxp(case, res):
    P, feats = build_problem(case)
    mode = feats['maxp']
    sp = P['power']['asm']['0']
    if mode == 'zero':
        sp['total'] = 0.0
    elif mode == 'bottom':
        L = P['length']
        P['power']['zb'] = [0.0, round(0.25 * L, 4), L]
        sp['axial'] = [1.0, 0.0]
        sp['zero_cells'] = [1]
        P['gap_model'] = 'none'
        P['bypass_fraction'] = 0.0
        t = P['types']['a']
        t.pop('AxialRegion', None)
        feats['regions'] = []
    key = {'gap': P['gap_model'], 'tdep': feats['tdep'], 'mode': mode}
    T_in = P['inlet']
    with drive.scratch() as d:
        inp, r = drive.build(P, d, max_steps=MAX_STEPS)
        if not steps_ok(r, res):
            return feats
        track = {'mx': [], 'mn': [], 'z': []}

        def all_temps():
            out = []
            for a in r.assemblies:
                reg = a.active_region
                out.append(reg.temp['coolant_int'].ravel())
                if 'coolant_byp' in reg.temp:
                    out.append(reg.temp['coolant_byp'].ravel())
            if r.core.model is not None:
                out.append(r.core.coolant_gap_temp.ravel())
            return np.concatenate(out)

        def after(i):
            T = all_temps()
            track['mx'].append(float(np.max(T)))
            track['mn'].append(float(np.min(T)))
            track['z'].append(float(r.z[i]))

        drive.sweep(r, on_step=after)
        mx = np.array(track['mx'])
        mn = np.array(track['mn'])
        if not np.all(np.isfinite(mx)):
            res.check('M_finite', False, 'non-finite temperatures', key)
            return feats
        if mode == 'zero':
            res.check('M_zero_power_stays_inlet',
                      float(np.max(np.abs(mx - T_in))) < 1e-9 and
                      float(np.max(np.abs(mn - T_in))) < 1e-9,
                      'without power temperatures leave the inlet value '
                      '(max dev %.3e K)' % max(np.max(np.abs(mx - T_in)),
                                               np.max(np.abs(mn - T_in))),
                      key)
        else:
            res.check('M_nonneg_power_min_above_inlet',
                      float(np.min(mn)) >= T_in - 1e-9,
                      'with non-negative power a temperature dropped below '
                      'the inlet (%.3e K)' % (np.min(mn) - T_in), key,
                      {'min': float(np.min(mn))})
        if mode == 'bottom':
            z = np.array(track['z'])
            after_heat = z > P['power']['zb'][1] + 1e-9
            if np.sum(after_heat) > 3:
                m1 = mx[after_heat]
                m2 = mn[after_heat]
                res.check('M_no_new_extremum',
                          bool(np.all(np.diff(m1) <= 1e-9)) and
                          bool(np.all(np.diff(m2) >= -1e-9)),
                          'after heating stops (adiabatic walls) the '
                          'temperature range widens: max rises by %.3e K / '
                          'min falls by %.3e K' % (float(np.max(np.diff(m1))),
                                                   float(-np.min(np.diff(m2))
                                                         )), key)
        res.tag('maxp:' + mode)
        res.nontrivial('maxp/%s/%s/%s/%s' % (mode, feats['nr'],
                                             feats['n_duct'], feats['gap']))
    return feats


def run_case(case):
    res = Result(case)
    try:
        if case['kind'] == 'maxp':
            feats = run_maxp(case, res)
        elif case['kind'] == 'ptol':
            feats = run_ptol(case, res)
        else:
            feats = run_probe_case(case, res)
        res.sample({'case': case, 'features': feats})
    except drive.Rejected as e:
        res.status('rejected', str(e))
        res.tag('rejected:' + e.stage)
    return res


def classify(v, case):
    k = v.get('key', {})
    if v['monitor'] == 'W_nonneg_weights' and k.get('mech') == \
            'limit_lower_at_actual_state_than_at_evaluation_temps':
        return 'F22'
    if v['monitor'] == 'W_nonneg_weights' and k.get('mech') == \
            'gap_limit_lower_at_actual_state_than_at_evaluation_temps':
        return 'F25'
    if v['monitor'] == 'W_nonneg_weights' and k.get('mech') == \
            'lowfid_limit_lower_at_actual_state_than_at_evaluation_temps':
        return 'F28'
    return None
