"""C08 - bundle topology and geometry are well-formed for every ring count.

Contracts on the real PinLattice / Subchannel / RoddedRegion objects that a
one-assembly DASSH problem builds, compared with a bundle constructed from
scratch on a triangular lattice (vmon/oracle/c08_lattice.py).
"""
import math
import traceback
import collections
import numpy as np
from vmon import gen, drive, env
from vmon.harness import Result, CaseTimeout
from vmon.probe import Hooks
from vmon.oracle import c08_lattice as lat

dassh = env.import_dassh()
import dassh.region_rodded as rr_mod  # noqa: E402
from dassh.reactor import Reactor  # noqa: E402

PROPERTY = 'C08'
LEVEL = 'exploration'
TECHNIQUE = ('runtime monitoring: post-construction contracts on the real '
             'PinLattice/Subchannel/RoddedRegion built through the input '
             'reader, compared with an independently generated hexagonal '
             'lattice bundle; probes of the real pin-to-subchannel power '
             'routine; hook on calculate_geometry')
LEVEL_TEXT = ('Every ring count 2..20 x 1..3 ducts x SE2 flag is built '
              '(exhaustively in the thorough tier) with random admissible '
              'dimensions; counts, adjacency, pin incidence, centroids and '
              'area tilings are compared with independent geometry to '
              'round-off. Held on the bundles observed, not proved for all '
              'dimensions.')
LEVEL_NOTE = ('Trusts numpy and the orientation convention documented in '
              'dassh/pin.py (first pin of a ring straight above the centre). '
              'The location of the corner-cell centroid is a convention: only '
              'its symmetry axis and containment in the cell are assumed. '
              'Centroid distance == tabulated L is asserted where that is a '
              'geometric identity (interior-interior, interior-edge, '
              'edge-edge, bypass edge-edge, bypass edge-corner); the coolant '
              'edge-corner entry L[1][2] is the Cheng-Todreas conduction '
              'length, a modelling convention, so there only "the listed '
              'neighbours are the nearest centroids" is asserted and the '
              'xy/L ratio (1.12-1.19) is recorded.')
DESIGN_REF = 'DESIGN.md section 3, C08'
RULE = ('one case = (ring count, duct count, se2geo flag, draw); dimensions '
        'drawn at random within the admissible set of the input checks: '
        'outer flat-to-flat 0.04-0.3 m, P/D 1.02-1.5, wire 0.55-0.95 of the '
        'pin gap or bare, wire lead 6-50 D, slack to the wall 0.3-60 % of D, '
        'independent wall and bypass-gap thickness per duct; built through '
        'the real input reader and Reactor. A case is non-trivial when the '
        'bundle was built and all monitors were evaluated; distinct by '
        '(rings, ducts, se2geo, wire/bare)')
DECIDING = ['B0_constructs', 'T1_counts', 'T2_adjacency_symmetric',
            'T3_neighbour_count', 'T4_pin_fractions_sum_to_one',
            'T5_rev_pin_adj_inverse', 'T6_matches_independent_lattice',
            'T7_centroid_distance_equals_L',
            'T7_corner_neighbours_are_nearest', 'T8_sixfold_symmetry',
            'A1_flow_area_tiles_hexagon', 'A2_duct_cells_tile_annulus',
            'A3_bypass_cells_tile_annulus']
CASE_TIMEOUT = {'quick': 120, 'thorough': 300}
BUDGET = {'quick': 600, 'thorough': 3000}
EXHAUSTIVE = {'quick': False, 'thorough': True}
ASSUMPTIONS = ['numpy float64 arithmetic',
               'hexagon orientation as documented in dassh/pin.py',
               'ring counts 2..20 (both tiers; quick with fewer draws above 10 rings), 1..3 ducts']
TOL_XY = 1e-9       # x flat-to-flat, absolute position tolerance
TOL_L = 1e-9        # relative, centroid distances
TOL_A = 1e-11       # relative to the tiled area
TOL_Q = 1e-12       # pin power fractions

DRAWS = {'quick': 12, 'thorough': 40}
RINGS = {'quick': range(2, 21), 'thorough': range(2, 21)}
# quick: fewer draws for the large bundles (every ring count is still built)
DRAWS_BIG = {'quick': 2, 'thorough': 40}
TYPE_NAMES = ['interior', 'edge', 'corner', 'duct-edge', 'duct-corner',
              'bypass-edge', 'bypass-corner']


def cases(tier, seed):
    out = []
    for nr in RINGS[tier]:
        for nd in (1, 2, 3):
            for se2 in (False, True):
                for k in range(DRAWS[tier] if nr <= 10
                               else DRAWS_BIG[tier]):
                    out.append({'name': 'r%02d-d%d-se2%d-%d'
                                % (nr, nd, int(se2), k),
                                'nr': nr, 'nd': nd, 'se2': se2,
                                'seed': [seed, 8, nr, nd, int(se2), k]})
    # large cases first: better load balance
    out.sort(key=lambda c: -c['nr'])
    return out


def _loguniform(rng, lo, hi):
    return float(math.exp(rng.uniform(math.log(lo), math.log(hi))))


def build_problem(case):
    rng = np.random.default_rng(case['seed'])
    nr, nd = case['nr'], case['nd']
    f_out = _loguniform(rng, 0.04, 0.30)
    # walls / gaps from the outside in, each with its own thickness
    walls = [f_out * rng.uniform(0.008, 0.04) for _ in range(nd)]
    gaps = [f_out * rng.uniform(0.006, 0.03) for _ in range(nd - 1)]
    ftf = []
    o = f_out
    for i in range(nd):
        ftf = [o - 2 * walls[i], o] + ftf
        if i < nd - 1:
            o = o - 2 * walls[i] - 2 * gaps[i]
    wire = bool(rng.random() < 0.8)
    # pins sized by gen.make_type for the innermost duct
    t = gen.make_type(rng, nr, ftf[1], n_duct=1,
                      wall=0.5 * (ftf[1] - ftf[0]),
                      pd=float(rng.uniform(1.02, 1.5)), wire=wire,
                      slack=_loguniform(rng, 0.003, 0.6),
                      hd=float(rng.uniform(6.0, 50.0)))
    t['duct_ftf'] = [float(x) for x in ftf]
    # the input format takes the two flat-to-flat values of a duct in either
    # order: write some pairs as (outer, inner); the oracle keeps the sorted
    # list
    pairs_reversed = []
    if rng.random() < 0.3:
        w = list(t['duct_ftf'])
        for i in range(nd):
            if rng.random() < 0.6:
                w[2 * i], w[2 * i + 1] = w[2 * i + 1], w[2 * i]
                pairs_reversed.append(i)
        t['duct_ftf'] = w
    t['duct_material'] = 'steel_const'
    # The input reader refuses Cheng-Todreas correlations for a wide wall
    # gap, (F_in + D - sqrt3 (n-1) P)/D > 3.33 (documented correlation
    # range, not a geometry limit): such bundles get another family.
    w2d = (ftf[0] + t['pin_diameter'] - math.sqrt(3.0) * (nr - 1)
           * t['pin_pitch']) / t['pin_diameter']
    if w2d > 3.25 and wire:
        t['corr_mixing'], t['corr_friction'], t['corr_flowsplit'] = \
            ('MIT', 'NOV', 'NOV')
    if nd > 1:
        t['bypass_gap_flow_fraction'] = float(rng.uniform(0.01, 0.2))
    if rng.random() < 0.5:
        t['wire_direction'] = 'clockwise'
    P = gen.base_problem(length=0.2, asm_pitch=f_out * 1.03,
                         gap_model='none')
    P['types']['a'] = t
    gen.add_position(P, 'a', 1, 1, velocity=1.0, dT=20.0, shape='flat')
    if case['se2']:
        P['setup']['se2geo'] = True
    elif rng.random() < 0.5:
        P['setup']['se2geo'] = False      # explicit False and default
    dims = {'nr': nr, 'nd': nd, 'P': t['pin_pitch'], 'D': t['pin_diameter'],
            'Dw': t['wire_diameter'], 'H': t['wire_pitch'],
            'ftf': [float(x) for x in ftf], 'wire': wire,
            'se2': bool(case['se2']),
            'corr': t.get('corr_friction', 'CTD')}
    return P, dims


# ----------------------------------------------------------------------
# helpers


class _Halt(Exception):
    """Leaves Reactor.__init__ once the assemblies have been built."""


def _in_dassh(tb):
    """Innermost frame of a traceback that lies in the dassh tree."""
    hit = None
    for fr in traceback.extract_tb(tb):
        if fr.filename.startswith(env.SRC):
            hit = fr
    return hit


def _neighbours(sc_adj, i):
    return [int(j) for j in sc_adj[i] if j >= 0]


def _tname(t):
    t = int(t)
    return TYPE_NAMES[t] if 0 <= t < 7 else 'type%d' % t


# ----------------------------------------------------------------------
# monitors


def check_counts(res, reg, B, dims):
    sc = reg.subchannel
    pl = reg.pin_lattice
    nd = dims['nd']
    n_int, n_edge, n_cor = B.n_interior, B.n_edge, B.n_corner
    n_cool = n_int + n_edge + n_cor
    n_ring_cells = n_edge + n_cor
    n_tot = n_cool + (2 * nd - 1) * n_ring_cells
    exp = {('pins',): len(B.pins),
           ('coolant', 'interior'): n_int, ('coolant', 'edge'): n_edge,
           ('coolant', 'corner'): n_cor, ('coolant', 'total'): n_cool,
           ('duct', 'edge'): n_edge, ('duct', 'corner'): n_cor,
           ('duct', 'total'): n_ring_cells,
           ('bypass', 'edge'): n_edge if nd > 1 else 0,
           ('bypass', 'corner'): n_cor if nd > 1 else 0,
           ('bypass', 'total'): n_ring_cells if nd > 1 else 0,
           ('total',): n_tot}
    for k, v in exp.items():
        if k == ('pins',):
            got = [int(pl.n_pin), int(reg.n_pin), int(len(pl.xy))]
            ok = all(g == v for g in got)
        else:
            got = sc.n_sc
            for kk in k:
                got = got[kk]
            ok = int(got) == v
        res.check('T1_counts', ok, 'count %s: dassh %r, lattice %d'
                  % ('/'.join(k), got, v), {'what': '/'.join(k)})
    # interior + edge + corner
    res.check('T1_counts',
              sc.n_sc['coolant']['interior'] + sc.n_sc['coolant']['edge']
              + sc.n_sc['coolant']['corner'] == sc.n_sc['coolant']['total'],
              'interior+edge+corner != total coolant subchannels',
              {'what': 'coolant-sum'})
    # pin map: a permutation of 1..n_pin
    ids = np.sort(np.asarray(pl.map)[np.asarray(pl.map) != 0])
    res.check('T1_counts', len(ids) == len(B.pins) and
              np.array_equal(ids, np.arange(1, len(B.pins) + 1)),
              'pin map is not a permutation of 1..n_pin', {'what': 'pin-map'})
    # type vector
    typ = np.asarray(sc.type)
    exp_bins = [n_int, n_edge, n_cor, nd * n_edge, nd * n_cor,
                (nd - 1) * n_edge, (nd - 1) * n_cor]
    ok = (len(typ) == n_tot and typ.min() >= 0 and typ.max() <= 6 and
          list(np.bincount(typ, minlength=7)) == exp_bins)
    res.check('T1_counts', ok, 'type vector: %r cells per type, expected %r'
              % (list(np.bincount(np.clip(typ, 0, 6), minlength=7)),
                 exp_bins), {'what': 'type-vector'})
    # block layout the solver relies on: coolant, wall 0, gap 0, wall 1, ...
    ok = bool(len(typ) == n_tot and np.all(typ[:n_cool] <= 2))
    if ok:
        for k in range(2 * nd - 1):
            blk = typ[n_cool + k * n_ring_cells:
                      n_cool + (k + 1) * n_ring_cells]
            want = (3, 4) if k % 2 == 0 else (5, 6)
            ok = ok and bool(np.all((blk == want[0]) | (blk == want[1])))
    res.check('T1_counts', ok, 'type vector is not laid out as coolant, '
              'wall, gap, wall, ...', {'what': 'type-blocks'})
    # array shapes
    shapes = {'sc_adj': (np.asarray(sc.sc_adj).shape[0], n_tot),
              'pin_adj': (np.asarray(sc.pin_adj).shape, (len(B.pins), 6)),
              'rev_pin_adj': (np.asarray(sc.rev_pin_adj).shape, (n_cool, 3)),
              'xy': (np.asarray(sc.xy).shape, (n_tot, 2)),
              'area.coolant_int': (np.asarray(
                  reg.area['coolant_int']).shape, (n_cool,)),
              'area.duct_mw': (np.asarray(reg.area['duct_mw']).shape,
                               (nd, n_ring_cells))}
    if nd > 1:
        shapes['area.coolant_byp'] = (np.asarray(
            reg.area['coolant_byp']).shape, (nd - 1, n_ring_cells))
    for k, (got, want) in shapes.items():
        res.check('T1_counts', got == want, 'shape of %s: %r, expected %r'
                  % (k, got, want), {'what': 'shape:' + k})
    return n_cool, n_ring_cells, n_tot


def check_adjacency(res, reg, dims, n_cool, n_rc, n_tot):
    """T2 symmetric / well-formed, T3 neighbour count per type."""
    sc = reg.subchannel
    adj = np.asarray(sc.sc_adj)
    typ = np.asarray(sc.type)
    nd = dims['nd']
    nb = [_neighbours(adj, i) for i in range(n_tot)]
    bad_range = [i for i in range(n_tot) if any(j >= n_tot for j in nb[i])]
    res.check('T2_adjacency_symmetric', not bad_range,
              'neighbour index out of range for %d cell(s)' % len(bad_range),
              {'what': 'range'}, {'first': bad_range[:3]})
    if bad_range:
        return None
    bad = [i for i in range(n_tot)
           if i in nb[i] or len(set(nb[i])) != len(nb[i])]
    res.check('T2_adjacency_symmetric', not bad,
              '%d cell(s) list themselves or a neighbour twice' % len(bad),
              {'what': 'self-or-duplicate',
               'type': _tname(typ[bad[0]]) if bad else None},
              {'first': bad[:3]})
    sets = [set(x) for x in nb]
    asym = [(i, j) for i in range(n_tot) for j in nb[i] if i not in sets[j]]
    res.count('adjacent_pairs_checked', sum(len(x) for x in nb) // 2)
    res.check('T2_adjacency_symmetric', not asym,
              '%d one-way neighbour link(s), e.g. %r' % (len(asym), asym[:2]),
              {'what': 'symmetric',
               'types': ('%s->%s' % (_tname(typ[asym[0][0]]),
                                     _tname(typ[asym[0][1]])))
               if asym else None})
    # T3: number and kind of neighbours
    bad = collections.OrderedDict()
    for i in range(n_tot):
        t = int(typ[i])
        cat = [0, 0, 0, 0]          # interior, edge/corner, wall, gap
        for j in nb[i]:
            tj = int(typ[j])
            cat[0 if tj == 0 else 1 if tj <= 2 else 2 if tj <= 4 else 3] += 1
        kinds = sorted(int(typ[j]) for j in nb[i])
        if t == 0:
            ok = (cat[0] + cat[1] == 3 and cat[1] <= 1 and cat[2] == 0 and
                  cat[3] == 0 and 2 not in kinds)
        elif t == 1:
            ok = cat == [1, 2, 1, 0] and 3 in kinds
        elif t == 2:
            ok = cat == [0, 2, 1, 0] and kinds == [1, 1, 4]
        else:
            k = (i - n_cool) // n_rc          # 0 wall0, 1 gap0, 2 wall1 ...
            edge_like = t in (3, 5)
            if t in (3, 4):
                m = k // 2
                want = [0, 1 if m == 0 else 0, 2,
                        (1 if m > 0 else 0) + (1 if m < nd - 1 else 0)]
                ok = cat == want
            else:
                ok = cat == [0, 0, 2, 2]
            # radial neighbours are of the same kind (edge with edge, ...)
            for j in nb[i]:
                if (j - n_cool) // n_rc != k or j < n_cool:
                    ok = ok and ((int(typ[j]) in (1, 3, 5)) == edge_like)
        if not ok:
            bad.setdefault(_tname(t), []).append((i, kinds))
    res.count('cells_neighbour_count_checked', n_tot)
    res.check('T3_neighbour_count', not bad,
              'wrong number/kind of neighbours: %s'
              % {k: (len(v), v[0]) for k, v in bad.items()},
              {'types': sorted(bad)})
    return sets


def check_pin_incidence(res, reg, B, dims, n_cool):
    """T4 fractions, T5 inverse relation; returns the heat matrix rows."""
    sc = reg.subchannel
    typ = np.asarray(sc.type)
    pa = np.asarray(sc.pin_adj)
    rpa = np.asarray(sc.rev_pin_adj)
    n_pin = len(B.pins)
    q = np.asarray(reg._q_p2sc, dtype=float)
    ok_rng = bool(pa.max() < n_cool and pa.min() >= -1 and
                  rpa.max() < n_pin and rpa.min() >= -1 and len(q) == n_cool)
    res.check('T4_pin_fractions_sum_to_one', ok_rng,
              'pin/subchannel incidence index out of range',
              {'what': 'range'})
    if not ok_rng:
        return None
    # forward relation as used for the pin-adjacent coolant temperature
    worst = 0.0
    bad = []
    dup = []
    for p in range(n_pin):
        s = [int(j) for j in pa[p] if j >= 0]
        if len(set(s)) != len(s):
            dup.append(p)
        tot = float(np.sum(q[s]))
        worst = max(worst, abs(tot - 1.0))
        if abs(tot - 1.0) > TOL_Q:
            bad.append((p, tot, sorted(int(typ[j]) for j in s)))
    res.stat('T4_forward_sum_minus_one', worst)
    res.count('pins_checked', n_pin)
    res.check('T4_pin_fractions_sum_to_one', not bad,
              'fractions of %d pin(s) do not sum to one (pin_adj), e.g. %r'
              % (len(bad), bad[:2]), {'what': 'forward-sum',
                                      'adjacent_types': bad[0][2] if bad
                                      else None})
    res.check('T4_pin_fractions_sum_to_one', not dup,
              '%d pin(s) list a subchannel twice' % len(dup),
              {'what': 'duplicate'})
    # the real routine that hands pin power to the coolant, pin by pin
    rows = []
    worst = 0.0
    bad = []
    e = np.zeros(n_pin)
    for p in range(n_pin):
        e[p] = 1.0
        out = np.asarray(reg._calc_int_sc_power(e, None), dtype=float)
        e[p] = 0.0
        nz = np.nonzero(out)[0]
        rows.append((nz, out[nz]))
        tot = float(np.sum(out))
        worst = max(worst, abs(tot - 1.0))
        if abs(tot - 1.0) > TOL_Q or len(out) != n_cool or \
                np.any(out < 0.0):
            bad.append((p, tot, sorted(int(typ[j]) for j in nz)))
    res.stat('T4_routed_sum_minus_one', worst)
    res.check('T4_pin_fractions_sum_to_one', not bad,
              'unit power of %d pin(s) is not handed over completely '
              '(_calc_int_sc_power), e.g. %r' % (len(bad), bad[:2]),
              {'what': 'routed-sum', 'adjacent_types': bad[0][2] if bad
               else None})
    # T5 inverse relation
    fwd = set((p, int(s)) for p in range(n_pin) for s in pa[p] if s >= 0)
    rev = set((int(p), s) for s in range(n_cool) for p in rpa[s] if p >= 0)
    res.count('pin_subchannel_links_checked', len(fwd))
    res.check('T5_rev_pin_adj_inverse', fwd == rev,
              'rev_pin_adj is not the inverse of pin_adj: %d link(s) only '
              'forward, %d only reverse' % (len(fwd - rev), len(rev - fwd)),
              {'what': 'inverse',
               'only_forward_types': sorted(set(
                   _tname(typ[s]) for _, s in (fwd - rev))),
               'only_reverse_types': sorted(set(
                   _tname(typ[s]) for _, s in (rev - fwd)))},
              {'only_forward': sorted(fwd - rev)[:4],
               'only_reverse': sorted(rev - fwd)[:4]})
    cnt = np.sum(rpa >= 0, axis=1)
    want = np.array([3, 2, 1])[np.clip(typ[:n_cool], 0, 2)]
    wrong = np.nonzero(cnt != want)[0]
    res.check('T5_rev_pin_adj_inverse', len(wrong) == 0,
              '%d subchannel(s) touch the wrong number of pins '
              '(3 interior, 2 edge, 1 corner)' % len(wrong),
              {'what': 'pins-per-subchannel',
               'type': _tname(typ[wrong[0]]) if len(wrong) else None})
    n_sc_of_pin = np.sum(pa >= 0, axis=1)
    res.check('T5_rev_pin_adj_inverse',
              int(np.sum(n_sc_of_pin == 6)) == 3 * (B.n - 2) * (B.n - 1) + 1
              and int(np.sum(n_sc_of_pin == 5)) == 6 * (B.n - 1)
              and int(np.sum((n_sc_of_pin != 5) & (n_sc_of_pin != 6))) == 0,
              'pins must touch 6 subchannels (inner) or 5 (outer ring)',
              {'what': 'subchannels-per-pin'})
    return rows


def check_lattice_match(res, reg, B, dims, sets, rows, n_cool, n_rc, n_tot):
    """T6: coordinates, adjacency and pin incidence equal the independent
    bundle (after matching labels by position)."""
    sc = reg.subchannel
    typ = np.asarray(sc.type)
    xy = np.asarray(sc.xy, dtype=float)
    pxy = np.asarray(reg.pin_lattice.xy, dtype=float)
    tol = TOL_XY * dims['ftf'][-1]
    # pins
    pmap, worst = lat.match_points(pxy, B.pin_xy, tol)
    ok = bool(np.all(pmap >= 0) and len(set(pmap.tolist())) == len(pmap)
              and len(pmap) == len(B.pin_xy))
    res.stat('T6_pin_xy_error_over_ftf', worst / dims['ftf'][-1])
    res.check('T6_matches_independent_lattice', ok,
              'pin centres are not the triangular-lattice points '
              '(%d unmatched)' % int(np.sum(pmap < 0)), {'what': 'pin-xy'})
    if not ok:
        return None
    # cells with a geometric centroid
    mine = [i for i, c in enumerate(B.cells) if c['xy'] is not None]
    mxy = np.array([B.cells[i]['xy'] for i in mine])
    cmap = np.full(n_tot, -1, dtype=int)
    theirs = [i for i in range(n_tot) if typ[i] != 2]
    m, worst = lat.match_points(xy[theirs], mxy, tol)
    res.stat('T6_cell_xy_error_over_ftf', worst / dims['ftf'][-1])
    for a, b in zip(theirs, m):
        cmap[a] = mine[b] if b >= 0 else -1
    # corner cells: by their pin; centroid on the diagonal, inside the cell
    pin_of = {}                       # lattice pin label -> my corner cell
    for i, c in enumerate(B.cells):
        if c['type'] == lat.CORNER:
            pin_of[c['pins'][0]] = i
    w = B.w
    bad_corner = []
    pa = np.asarray(sc.pin_adj)
    for i in np.nonzero(typ == 2)[0]:
        ps = np.nonzero(np.any(pa == i, axis=1))[0]
        if len(ps) != 1:
            bad_corner.append((int(i), 'pins', len(ps)))
            continue
        label = B.pin_labels[pmap[ps[0]]]
        if label not in pin_of:
            bad_corner.append((int(i), 'not a corner pin', label))
            continue
        c = B.cells[pin_of[label]]
        rel = xy[i] - B.pins[label]
        along = float(rel[0] * c['dir'][0] + rel[1] * c['dir'][1])
        across = float(rel[0] * c['dir'][1] - rel[1] * c['dir'][0])
        if abs(across) > tol or not (0.5 * B.D < along < 2 * w / lat.SQ3):
            bad_corner.append((int(i), 'position', along, across))
            continue
        cmap[i] = pin_of[label]
    unmatched = [int(i) for i in range(n_tot) if cmap[i] < 0]
    wrong_type = [int(i) for i in range(n_tot)
                  if cmap[i] >= 0 and B.cells[cmap[i]]['type'] != typ[i]]
    bij = len(set(cmap.tolist())) == n_tot and n_tot == len(B.cells)
    ok = not unmatched and not wrong_type and bij and not bad_corner
    res.check('T6_matches_independent_lattice', ok,
              'centroids do not coincide with the independent bundle: '
              '%d unmatched, %d of another type, one-to-one=%s, corners %r'
              % (len(unmatched), len(wrong_type), bij, bad_corner[:2]),
              {'what': 'cell-xy',
               'types': sorted(set(_tname(typ[i])
                                   for i in unmatched + wrong_type))})
    if not ok:
        return None
    # adjacency
    theirs_adj = set()
    for i in range(n_tot):
        for j in sets[i]:
            theirs_adj.add(frozenset((int(cmap[i]), int(cmap[j]))))
    missing = B.adj - theirs_adj
    extra = theirs_adj - B.adj

    def _pairs(s):
        return sorted(set('-'.join(sorted(TYPE_NAMES[B.cells[u]['type']]
                                          for u in e)) for e in s))
    res.check('T6_matches_independent_lattice', not missing and not extra,
              'adjacency differs from the geometric one: %d missing %r, '
              '%d extra %r' % (len(missing), _pairs(missing), len(extra),
                               _pairs(extra)),
              {'what': 'adjacency', 'missing': _pairs(missing),
               'extra': _pairs(extra)})
    # pin incidence and fractions as routed by the real routine
    cells_of_pin = {}
    for i in range(B.n_coolant):
        for p in B.cells[i]['pins']:
            cells_of_pin.setdefault(p, {})[i] = B.pin_fraction(
                B.cells[i]['type'])
    bad = []
    worst = 0.0
    if rows is not None:
        for p, (nz, val) in enumerate(rows):
            want = cells_of_pin[B.pin_labels[pmap[p]]]
            got = {int(cmap[s]): float(v) for s, v in zip(nz, val)}
            if set(got) != set(want):
                bad.append((p, 'cells'))
                continue
            err = max(abs(got[k] - want[k]) for k in want)
            worst = max(worst, err)
            if err > TOL_Q:
                bad.append((p, 'fraction', err))
        res.stat('T6_fraction_error', worst)
        res.check('T6_matches_independent_lattice', not bad,
                  'pin power is not handed to the cells around the pin in '
                  'proportion to the angle they subtend: %d pin(s), e.g. %r'
                  % (len(bad), bad[:2]),
                  {'what': 'pin-incidence',
                   'kind': bad[0][1] if bad else None})
    # PinLattice.adj (supporting): pin-pin neighbours
    padj = np.asarray(reg.pin_lattice.adj)
    bad = 0
    for p in range(len(padj)):
        got = set(B.pin_labels[pmap[j - 1]] for j in padj[p] if j > 0)
        if got != set(B.pin_nb[B.pin_labels[pmap[p]]]):
            bad += 1
    res.check('P1_pin_lattice_adjacency', bad == 0,
              'PinLattice.adj differs from the lattice neighbourhood for '
              '%d pin(s)' % bad, {'what': 'pin-pin'})
    return cmap


def _L_entry(L, ta, tb, gap):
    v = L[ta][tb]
    if isinstance(v, (list, tuple, np.ndarray)):
        return float(v[gap])
    return float(v)


TABULATED = [(0, 0), (0, 1), (1, 1), (1, 2), (5, 5), (5, 6)]


def check_centroid_distances(res, reg, dims, sets, n_cool, n_rc, n_tot):
    """T7: |xy_i - xy_j| of adjacent cells == L[type_i][type_j] wherever the
    tabulated length is a geometric identity (not for coolant edge-corner)."""
    sc = reg.subchannel
    typ = np.asarray(sc.type)
    xy = np.asarray(sc.xy, dtype=float)
    L = reg.L
    acc = {}
    for i in range(n_tot):
        for j in sets[i]:
            if j < i:
                continue
            ta, tb = sorted((int(typ[i]), int(typ[j])))
            if (ta, tb) not in TABULATED:
                continue
            gap = 0
            if ta >= 5:
                gi = ((i - n_cool) // n_rc - 1) // 2
                gj = ((j - n_cool) // n_rc - 1) // 2
                if gi != gj:
                    continue
                gap = gi
            dist = float(np.hypot(*(xy[i] - xy[j])))
            tab = _L_entry(L, ta, tb, gap)
            sym = _L_entry(L, tb, ta, gap)
            a = acc.setdefault((ta, tb), {'n': 0, 'worst': 0.0, 'ex': None,
                                          'sym': 0.0})
            a['n'] += 1
            rel = abs(dist - tab) / max(dist, 1e-300)
            a['sym'] = max(a['sym'], abs(tab - sym) / max(dist, 1e-300))
            if rel >= a['worst']:
                a['worst'] = rel
                a['ex'] = (dist, tab)
    for (ta, tb), a in sorted(acc.items()):
        pair = '%s-%s' % (TYPE_NAMES[ta], TYPE_NAMES[tb])
        key = {'pair': pair}
        if (ta, tb) == (1, 2):
            # Coolant edge-corner: L[1][2] is the Cheng-Todreas conduction
            # length, a modelling convention that is not tied to where the
            # corner centroid is drawn (xy: midway between pin surface and
            # duct corner). Nothing is asserted; the ratio is recorded.
            res.stat('xy_distance_over_L[edge-corner]',
                     a['ex'][0] / max(a['ex'][1], 1e-300))
            res.count('edge_corner_pairs_recorded_not_asserted', a['n'])
            continue
        res.count('T7_pairs_checked', a['n'])
        res.close('T7_centroid_distance_equals_L', a['worst'], 1.0, TOL_L,
                  'distance between adjacent %s centroids %r differs from '
                  'tabulated L %r' % (pair, a['ex'][0], a['ex'][1]),
                  key, {'pairs': a['n'], 'xy_distance': a['ex'][0],
                        'L': a['ex'][1]})
        res.stat('T7_rel_dev[%s]' % pair, a['worst'])
        res.check('T7_L_table_symmetric', a['sym'] <= TOL_L,
                  'L[%d][%d] != L[%d][%d]' % (ta, tb, tb, ta), key)
    # Edge-corner, as the property words it (coordinates agree with the
    # adjacency): the two cells listed as neighbours of a corner cell are its
    # two nearest coolant centroids, at equal distance (mirror symmetry about
    # the diagonal). True for any corner centroid on the diagonal inside the
    # cell: (interior)^2 - (edge)^2 = P^2/12 + P r/2 + sqrt3 r w/2 - w^2/4 > 0
    # because r > w/sqrt3.
    bad = []
    worst = 0.0
    for c in np.nonzero(typ[:n_cool] == 2)[0]:
        d = np.hypot(xy[:n_cool, 0] - xy[c, 0], xy[:n_cool, 1] - xy[c, 1])
        d[c] = np.inf
        order = np.argsort(d)
        nearest = set(int(k) for k in order[:2])
        listed = set(j for j in sets[int(c)] if j < n_cool)
        gap = abs(d[order[0]] - d[order[1]]) / d[order[0]]
        worst = max(worst, gap)
        if nearest != listed or gap > TOL_L or \
                not d[order[2]] > d[order[1]] * (1.0 + 1e-6):
            bad.append((int(c), sorted(nearest), sorted(listed)))
    res.stat('T7_corner_neighbour_distance_asymmetry', worst)
    res.check('T7_corner_neighbours_are_nearest', not bad,
              'the neighbours listed for %d corner cell(s) are not its two '
              'nearest, equidistant coolant centroids, e.g. %r'
              % (len(bad), bad[:1]), {'pair': 'edge-corner'})
    return acc


def check_symmetry(res, reg, dims, sets, n_tot):
    """T8: the centroid set (with types, and the adjacency it carries) and
    the pin set map onto themselves under a 60 degree rotation."""
    sc = reg.subchannel
    typ = np.asarray(sc.type)
    xy = np.asarray(sc.xy, dtype=float)
    tol = TOL_XY * dims['ftf'][-1]
    sig, worst = lat.match_points(lat.rot60(xy), xy, tol)
    res.stat('T8_rotation_error_over_ftf', worst / dims['ftf'][-1])
    un = np.nonzero(sig < 0)[0]
    ok = len(un) == 0 and len(set(sig.tolist())) == n_tot
    res.check('T8_sixfold_symmetry', ok,
              '%d centroid(s) have no image under a 60 degree rotation'
              % len(un), {'what': 'centroids',
                          'types': sorted(set(_tname(typ[i]) for i in un))})
    if ok:
        bad = np.nonzero(typ[sig] != typ)[0]
        res.check('T8_sixfold_symmetry', len(bad) == 0,
                  'rotation maps %d cell(s) onto a cell of another type'
                  % len(bad), {'what': 'types'})
        nbad = 0
        for i in range(n_tot):
            if set(int(sig[j]) for j in sets[i]) != sets[int(sig[i])]:
                nbad += 1
        res.check('T8_sixfold_symmetry', nbad == 0,
                  'adjacency is not carried along by the rotation for %d '
                  'cell(s)' % nbad, {'what': 'adjacency'})
        # orbit length six (no fixed cell: there is no cell at the centre)
        ident = np.arange(n_tot)
        s = ident
        orbit_ok = True
        for k in range(1, 7):
            s = sig[s]
            if k < 6 and np.any(s == ident):
                orbit_ok = False       # only the centre could be fixed
        res.check('T8_sixfold_symmetry',
                  orbit_ok and np.array_equal(s, ident),
                  'rotation is not of order six on the cells',
                  {'what': 'order'})
    pxy = np.asarray(reg.pin_lattice.xy, dtype=float)
    psig, _ = lat.match_points(lat.rot60(pxy), pxy, tol)
    res.check('T8_sixfold_symmetry',
              bool(np.all(psig >= 0)) and len(set(psig.tolist())) == len(pxy),
              'pin centres are not invariant under a 60 degree rotation',
              {'what': 'pins'})


def check_areas(res, reg, B, dims, geo, n_cool, n_rc):
    nd = dims['nd']
    D, Dw, H = dims['D'], dims['Dw'], dims['H']
    ftf = dims['ftf']
    n_pin = len(B.pins)
    hexa = B.hex_area(ftf[0])
    se2 = dims['se2']
    theta_pub = float(reg.params['theta'])
    if Dw == 0.0:
        wire = 0.0
        mode = 'bare'
    elif se2:
        # SE2ANL geometry option: only what the flag claims for itself (the
        # published wire angle) is used
        wire = 0.25 * math.pi * Dw ** 2 / math.cos(theta_pub)
        mode = 'se2'
        res.tag('se2_theta_is_zero' if theta_pub == 0.0
                else 'se2_theta_nonzero')
    else:
        cos_t = H / math.sqrt(H * H + (math.pi * (D + Dw)) ** 2)
        wire = 0.25 * math.pi * Dw ** 2 / cos_t
        mode = 'wire'
        res.close('A1_wire_angle', theta_pub - math.acos(cos_t), 1.0, 1e-12,
                  'published wire angle differs from atan(pi (D+Dw)/H)',
                  {'what': 'theta'})
    solid = n_pin * (0.25 * math.pi * D * D + wire)
    n_t = np.array([B.n_interior, B.n_edge, B.n_corner], dtype=float)
    a_t = np.asarray(reg.params['area'], dtype=float)
    forms = {'n_t*params.area': float(np.sum(n_t * a_t)),
             'sum(area.coolant_int)': float(np.sum(
                 reg.area['coolant_int'])),
             'bundle_params.area': float(reg.bundle_params['area']),
             'total_area.coolant_int': float(reg.total_area['coolant_int'])}
    for name, flow in forms.items():
        res.close('A1_flow_area_tiles_hexagon', flow + solid - hexa, hexa,
                  TOL_A, 'flow area (%s) + pins + wires != inner hexagon'
                  % name, {'form': name, 'mode': mode},
                  {'flow': flow, 'solid': solid, 'hexagon': hexa})
    res.check('A1_areas_positive', bool(np.all(a_t > 0.0)) and
              bool(np.all(np.asarray(reg.area['coolant_int']) > 0.0)),
              'non-positive subchannel flow area', {'mode': mode},
              {'area': a_t.tolist()})
    # per-cell areas follow the type vector
    typ = np.asarray(reg.subchannel.type)
    res.check('A1_cell_area_by_type',
              np.array_equal(np.asarray(reg.area['coolant_int']),
                             a_t[np.clip(typ[:n_cool], 0, 2)]),
              'per-cell flow areas are not params.area[type]',
              {'mode': mode})
    # duct walls
    for i in range(nd):
        ann = B.annulus(ftf[2 * i], ftf[2 * i + 1])
        dp = reg.duct_params
        forms = {'sum(area.duct_mw)': float(np.sum(reg.area['duct_mw'][i])),
                 'n_t*duct_params.area': float(
                     B.n_edge * dp['area'][i][0]
                     + B.n_corner * dp['area'][i][1]),
                 'duct_params.total': float(dp['total area'][i]),
                 'total_area.duct_mw': float(reg.total_area['duct_mw'][i])}
        for name, a in forms.items():
            res.close('A2_duct_cells_tile_annulus', a - ann, ann, TOL_A,
                      'duct wall cells (%s) do not tile the wall annulus'
                      % name, {'form': name, 'duct': i, 'of': nd},
                      {'cells': a, 'annulus': ann})
    for i in range(nd - 1):
        ann = B.annulus(ftf[2 * i + 1], ftf[2 * i + 2])
        bp = reg.bypass_params
        forms = {'sum(area.coolant_byp)': float(np.sum(
                     reg.area['coolant_byp'][i])),
                 'n_t*bypass_params.area': float(
                     B.n_edge * bp['area'][i][0]
                     + B.n_corner * bp['area'][i][1]),
                 'bypass_params.total': float(bp['total area'][i]),
                 'total_area.coolant_byp': float(
                     reg.total_area['coolant_byp'][i])}
        for name, a in forms.items():
            res.close('A3_bypass_cells_tile_annulus', a - ann, ann, TOL_A,
                      'bypass gap cells (%s) do not tile the gap annulus'
                      % name, {'form': name, 'gap': i, 'of': nd - 1},
                      {'cells': a, 'annulus': ann})
    if nd == 1:
        # nothing to tile: counted so that single-duct runs are not silent
        res.count('A3_not_applicable_single_duct')
    # what calculate_geometry was called with (hook)
    if geo:
        g = geo[-1]
        res.check('A0_geometry_call_matches_input',
                  g['n_ring'] == dims['nr'] and g['se2'] == se2 and
                  abs(g['P'] - dims['P']) <= 1e-15 and
                  abs(g['D'] - D) <= 1e-15 and abs(g['Dw'] - Dw) <= 1e-15
                  and np.allclose(np.ravel(g['ftf']), ftf, rtol=0,
                                  atol=1e-15),
                  'calculate_geometry received other dimensions/flag than '
                  'the input states: %r' % (g,), {'what': 'args'})


# ----------------------------------------------------------------------


def run_case(case):
    res = Result(case)
    P, dims = build_problem(case)
    nr, nd, se2 = dims['nr'], dims['nd'], dims['se2']
    geo = []

    def cap(args, kwargs, out, tok):
        names = ['n_ring', 'P', 'D', 'Pw', 'Dw', 'ftf', 'n_sc', 'se2']
        g = dict(zip(names, args))
        g.update(kwargs)
        g.setdefault('se2', False)
        geo.append({'n_ring': int(g['n_ring']), 'P': float(g['P']),
                    'D': float(g['D']), 'Dw': float(g['Dw']),
                    'ftf': [[float(x) for x in f] for f in g['ftf']],
                    'se2': bool(g['se2'])})

    res.tag('nr=%02d' % nr)
    res.tag('n_duct=%d' % nd)
    res.tag('se2geo=%s' % se2)
    res.tag('wire' if dims['wire'] else 'bare')
    res.tag('corr=' + dims['corr'])
    box = {}

    def halt(reactor):
        # The bundle objects are complete once the assemblies exist. The
        # axial mesh that Reactor.__init__ sets up next is not the subject
        # here and can take minutes for stiff (tiny corner cell) bundles.
        box['reactor'] = reactor
        raise _Halt()

    with drive.scratch() as d, Hooks() as hk:
        hk.wrap(rr_mod, 'calculate_geometry', post=cap)
        hk.replace(Reactor, '_setup_asm_axial_mesh_req', halt)
        path = gen.render(P, d)
        try:
            inp = drive.read_input(path)
            try:
                r = drive.build_reactor(inp)
            except _Halt:
                r = box['reactor']
        except drive.Rejected as e:
            res.status('rejected', str(e))
            res.tag('rejected:' + e.stage)
            return res
        except CaseTimeout:
            raise
        except Exception as e:
            fr = _in_dassh(e.__traceback__)
            if fr is None:
                raise
            res.check('B0_constructs', False,
                      'construction of a %d-ring, %d-duct bundle raised '
                      '%s: %s (%s:%d %s)' % (nr, nd, type(e).__name__, e,
                                             fr.filename.split('/')[-1],
                                             fr.lineno, fr.name),
                      {'exc': type(e).__name__, 'func': fr.name,
                       'file': fr.filename.split('/')[-1]},
                      {'nr': nr, 'nd': nd, 'line': fr.lineno})
            return res
        reg = [g for g in r.assemblies[0].region if g.is_rodded]
        res.check('B0_constructs', len(reg) == 1 and len(geo) >= 1,
                  'no pin-bundle region was built', {'what': 'region'})
        if len(reg) != 1:
            return res
        reg = reg[0]
        B = lat.Bundle(nr, dims['P'], dims['D'], dims['ftf'])
        # the oracle's own closed forms (harness error if it is inconsistent)
        assert B.n_interior == 6 * (nr - 1) ** 2, 'oracle: interior count'
        assert B.n_edge == 6 * (nr - 1) and B.n_corner == 6, 'oracle: edge'
        assert len(B.pins) == 3 * nr * (nr - 1) + 1, 'oracle: pins'
        n_cool, n_rc, n_tot = check_counts(res, reg, B, dims)
        sc = reg.subchannel
        if len(np.asarray(sc.type)) != n_tot or \
                np.asarray(sc.sc_adj).shape[0] != n_tot or \
                np.asarray(sc.xy).shape != (n_tot, 2):
            return res          # counts already reported; nothing to index
        sets = check_adjacency(res, reg, dims, n_cool, n_rc, n_tot)
        rows = check_pin_incidence(res, reg, B, dims, n_cool)
        if sets is not None:
            check_lattice_match(res, reg, B, dims, sets, rows, n_cool, n_rc,
                                n_tot)
            check_centroid_distances(res, reg, dims, sets, n_cool, n_rc,
                                     n_tot)
            check_symmetry(res, reg, dims, sets, n_tot)
        check_areas(res, reg, B, dims, geo, n_cool, n_rc)
        res.stat('n_subchannels', n_tot)
        res.nontrivial('nr=%d/nd=%d/se2=%d/%s'
                       % (nr, nd, int(se2), 'wire' if dims['wire']
                          else 'bare'))
        res.sample({'case': case, 'dims': dims, 'n_cells': n_tot})
    return res


def extra_coverage(results):
    done = set()
    for r in results:
        if r['status'] == 'ok' and r.get('nontrivial'):
            done.add(r['nontrivial'].rsplit('/', 1)[0])
    rings = sorted(set(int(k.split('/')[0][3:]) for k in done))
    return {'combinations_built(nr,nd,se2)': len(done),
            'ring_counts_built': rings}


def classify(v, case):
    # no known finding is attached to C08
    return None
