"""C02 - inter-assembly heat exchange is conservative; core balance closes."""
import re
import numpy as np
from vmon import gen, drive, workloads as wl, env
from vmon.harness import Result
from vmon.probe import Hooks
from vmon.stepmon import StepMonitor, wall_widths, sc_flows, byp_flows

dassh = env.import_dassh()
from dassh.core import Core  # noqa: E402

PROPERTY = 'C02'
LEVEL = 'exploration'
TECHNIQUE = ('runtime monitoring: per-step heat-crossing identities between '
             'the assembly duct mesh and the gap mesh recorded at wrapper '
             'hooks on Assembly.calculate and Core.calculate_gap_temperatures;'
             ' core enthalpy balance per step and per sweep; output tables '
             're-parsed')
LEVEL_TEXT = ('For generated cores (1-19 positions, empty positions, mixed '
              'meshes, unrodded and double-duct types, gap flow fractions) '
              'every step is checked: heat leaving each assembly on its own '
              'mesh equals the heat credited on the gap mesh, gap conduction '
              'sums to zero, and assembly+gap enthalpy rise equals power '
              'delivered, all to 1e-9 relative. Held on the executions '
              'observed.')
LEVEL_NOTE = ('Trusts numpy; gap-cell perimeters/flows are the attributes '
              'published by Core (validated independently under C09); '
              'assembly-side widths are recomputed from input dimensions.')
DESIGN_REF = 'DESIGN.md section 3, C02'
RULE = ('random cores on 1-3 hex rings (7/19 positions, quick: up to 7), '
        'empty positions, 1-3 assembly types with different ring counts / '
        'pitches, unrodded (low-fidelity) and double-duct types, axial '
        'regions, flow and adiabatic gap options, gap flow fraction '
        '0.003-0.15, random power maps, constant properties; non-trivial '
        'when >= 2 assemblies exchange > 1 W through the gap in some step; '
        'distinct by (layout, types, gap option)')
RULE += (' Later rounds added: cores with two axial boundaries closer than one step (the lower one a region boundary).')
RULE += (' Round 12: kind adiabatic_lowflow (adiabatic cores with the low-flow wall treatment active almost everywhere, slow coolant, duct power).')
DECIDING = ['J1_asm_mesh_vs_gap_mesh', 'J2_gap_balance', 'J3_core_step']
CASE_TIMEOUT = {'quick': 200, 'thorough': 900}
BUDGET = {'quick': 700, 'thorough': 3300}
ASSUMPTIONS = ['constant coolant properties for the exact (1e-9) identities']
TOL = 1e-9
FLOOR = 1e-4

MAX_STEPS = 8000


def cases(tier, seed):
    n = 40 if tier == 'quick' else 1000
    out = []
    for i in range(n):
        out.append({'name': 'core-%d' % i, 'seed': [seed, 21, i],
                    'n_ring': (2 if (tier == 'quick' or i % 4) else 3)})
    n_ad = 10 if tier == 'quick' else 240
    for i in range(n_ad):
        out.append({'name': 'adiabatic-%d' % i, 'seed': [seed, 22, i],
                    'n_ring': 2, 'gap': 'none'})
    # adiabatic cores in which the low-flow wall treatment is (nearly always)
    # active: large cut-off, slow coolant, power in the duct walls
    n_lf = 10 if tier == 'quick' else 200
    for i in range(n_lf):
        out.append({'name': 'adiabatic_lowflow-%d' % i, 'seed': [seed, 23, i],
                    'n_ring': 2, 'gap': 'none', 'lowflow': True})
    return out


def build_problem(case):
    rng = np.random.default_rng(case['seed'])
    nring = case['n_ring']
    if rng.random() < 0.1:
        nring = 1
    gap = case.get('gap', 'flow')
    P, feats = wl.core_problem(rng, n_ring=nring, tdep=False, gap=gap,
                               empty_frac=(0.25 if rng.random() < 0.6
                                           else 0.0),
                               max_rings=(5 if nring < 3 else 4),
                               vel_range=(0.2, 6.0), length=0.5,
                               conv_approx=0.3)
    if case.get('lowflow'):
        P['setup']['conv_approx'] = True
        P['setup']['conv_approx_dz_cutoff'] = float(wl.choose(rng, [0.05,
                                                                    0.1]))
        feats['conv_approx'] = True
        for q in P['positions']:
            if 'flowrate' in q and rng.random() < 0.6:
                q['flowrate'] = q['flowrate'] * float(
                    wl.loguniform(rng, 0.02, 0.3))
        for sp in P['power']['asm'].values():
            sp['comps'] = [1, 2, 3]
    feats['n_ring'] = nring
    feats['near_bounds'] = None
    if rng.random() < 0.3:
        # two boundaries inside one axial step, the lower one the start of
        # an upper axial region
        feats['near_bounds'] = wl.near_region_bounds(rng, P)
    return P, feats


def outer_widths(reg, core):
    if reg.is_rodded:
        return wall_widths(reg)[-1]
    return np.full(6, float(reg.duct_ftf[1]) / np.sqrt(3.0))


def asm_enthalpy(reg, temp, cp):
    """sum mdot*cp*T over all flowing coolant of a region."""
    if reg.is_rodded:
        h = float(np.sum(sc_flows(reg) * temp['coolant_int'])) * cp
        if reg.n_bypass > 0 and np.sum(reg.byp_flow_rate) > 0:
            for i in range(reg.n_bypass):
                mb, _, _ = byp_flows(reg, i)
                h += float(np.sum(mb * temp['coolant_byp'][i])) * cp
        return h
    if reg.model == '6node':
        return float(np.sum(reg.flow_rate / 6.0 * temp['coolant_int'])) * cp
    return float(reg.flow_rate * temp['coolant_int'][0]) * cp


def run_case(case):
    res = Result(case)
    P, feats = build_problem(case)
    cp = gen.CP
    key = {'gap': feats['gap'], 'n_ring': feats['n_ring']}
    step = {'recs': [], 'gap': None}
    tot = {'dH': 0.0, 'P': 0.0, 'max_exchange': 0.0, 'n_exch': 0}
    tally = {}
    gap_tally = {}

    def on_asm(rec):
        step['recs'].append(rec)

    def gap_pre(args, kwargs):
        core = args[0]
        return {'core': core, 'dz': float(args[1]),
                't_duct': np.array(args[2], dtype=float, copy=True),
                'T0': core.coolant_gap_temp.copy(),
                'ebal0': core.ebal['asm'].copy()}

    def gap_post(args, kwargs, r_, tok):
        core = tok['core']
        tok['T1'] = core.coolant_gap_temp.copy()
        tok['h'] = np.array(core.coolant_gap_params['htc'], copy=True)
        tok['cp'] = float(core.gap_coolant.heat_capacity)
        tok['ebal1'] = core.ebal['asm'].copy()
        step['gap'] = tok

    try:
        with drive.scratch() as d, Hooks() as hk:
            inp, r = drive.build(P, d, max_steps=MAX_STEPS)
            if len(r.z) > 3000:
                res.status('rejected', 'too many steps')
                res.tag('skipped_too_many_steps')
                return res
            StepMonitor(hk, on_asm)
            hk.wrap(Core, 'calculate_gap_temperatures', pre=gap_pre,
                    post=gap_post)
            core = r.core
            adiabatic = r._is_adiabatic
            asm_index = {id(a): i for i, a in enumerate(r.assemblies)}
            has_lag = any((not reg.is_rodded and reg.model == '6node')
                          for a in r.assemblies for reg in a.region)
            has_stag = any(reg.is_rodded and reg.n_bypass > 0 and
                           np.sum(reg.byp_flow_rate) == 0
                           for a in r.assemblies for reg in a.region)
            for a in r.assemblies:
                tally[id(a)] = {'A': 0.0, 'B': 0.0, 'C': 0.0, 'D': 0.0}
            prev6 = {}

            def after(i):
                recs, g = step['recs'], step['gap']
                step['recs'], step['gap'] = [], None
                dz = recs[0]['dz']
                dH_asm = 0.0
                p_step = 0.0
                q_to_gap_total = 0.0
                any6 = False
                anystag = False
                for rec in recs:
                    reg = rec['reg']
                    a = rec['asm']
                    ai = asm_index[id(a)]
                    dH_asm += (asm_enthalpy(reg, rec['post'], cp)
                               - asm_enthalpy(reg, rec['pre'], cp))
                    pw = rec['pow'] or {}
                    pj = sum(float(np.sum(v)) for v in pw.values()
                             if v is not None)
                    p_step += dz * pj
                    six = (not reg.is_rodded and reg.model == '6node')
                    any6 = any6 or six
                    if reg.is_rodded and reg.n_bypass > 0 and \
                            np.sum(reg.byp_flow_rate) == 0:
                        anystag = True
                    if adiabatic:
                        # J4: all power of the step ends up in the coolant
                        scale = dz * abs(pj) + FLOOR * abs(
                            asm_enthalpy(reg, rec['pre'], cp))
                        if not (reg.is_rodded and reg.n_bypass > 0 and
                                np.sum(reg.byp_flow_rate) == 0):
                            res.close('J4_adiabatic_asm_balance',
                                      (asm_enthalpy(reg, rec['post'], cp)
                                       - asm_enthalpy(reg, rec['pre'], cp))
                                      - dz * pj, scale, TOL,
                                      'adiabatic assembly: enthalpy change '
                                      '!= power of the step',
                                      dict(key, region=(
                                          'rodded' if reg.is_rodded
                                          else reg.model)),
                                      {'asm': a.id, 'z': rec['z1']})
                        continue
                    # ---- J1: heat through the outer wall, two meshes ------
                    w = outer_widths(reg, core)
                    ts = rec['post']['duct_surf'][-1, 1]
                    h_d = rec['h_gap']
                    if h_d.shape[0] == 2 and reg.is_rodded:
                        h_d = h_d[np.asarray(reg._duct_idx)]
                    q_asm = dz * float(np.sum(w * h_d * (ts - rec['t_gap'])))
                    adj = core._asm_sc_adj[ai]
                    nz = adj > 0
                    wp = core.gap_params['asm wp'][ai]
                    hg = g['h'][adj - 1]
                    q_gap = dz * float(np.sum(
                        (hg * wp * (g['t_duct'][ai] - g['T0'][adj - 1]))[nz]))
                    sc = dz * float(np.sum(np.abs(w * h_d * (ts - rec['t_gap']
                                                             )))) \
                        + 1e-6 * dz * float(np.sum(w * h_d)) * float(
                            np.mean(np.abs(ts)))
                    res.close('J1_asm_mesh_vs_gap_mesh', q_asm - q_gap, sc,
                              TOL, 'heat leaving the assembly on its duct '
                              'mesh != heat credited on the gap mesh',
                              dict(key, region=('rodded' if reg.is_rodded
                                                else reg.model),
                                   same_mesh=bool(len(w) == int(np.sum(nz)))),
                              {'asm': a.id, 'z': rec['z1'], 'q_asm': q_asm,
                               'q_gap': q_gap})
                    res.close('J1p_perimeter', float(np.sum(wp[nz]))
                              - 6 * core.duct_oftf / np.sqrt(3.0),
                              core.duct_oftf, 1e-10,
                              'gap cells do not cover the duct perimeter',
                              key)
                    d_eb = float(np.sum((g['ebal1'] - g['ebal0'])[ai][nz]))
                    res.close('J1b_core_tally', d_eb - q_gap, sc, TOL,
                              'Core.ebal increment != recomputed gap-side '
                              'heat', key)
                    q_to_gap_total += q_gap
                    gap_tally[ai] = gap_tally.get(ai, 0.0) + q_gap
                    tot['max_exchange'] = max(tot['max_exchange'],
                                              abs(q_gap))
                    if abs(q_gap) > 1.0:
                        tot['n_exch'] += 1
                    # six-node lag identity
                    if six:
                        sub = rec['sub'].get('_calc_coolant_temp')
                        if sub and id(a) in prev6 and \
                                prev6[id(a)]['reg'] is reg:
                            s = sub[0]
                            hh = s['htc_post']
                            perim6 = float(reg.duct_ftf[1]) / np.sqrt(3.0)
                            qc = float(np.sum(hh * perim6 * (
                                rec['pre']['duct_surf'][0, 0]
                                - rec['pre']['coolant_int'])))
                            pg = prev6[id(a)]['q_gap_per_m']
                            res.close('J1c_sixnode_lagged', qc + pg,
                                      abs(qc) + abs(pg) + 1e-9, 1e-6,
                                      'six-node: coolant-side wall heat per '
                                      'metre != previous gap-side heat per '
                                      'metre', dict(key, region='6node'),
                                      {'qc': qc, 'prev_gap': pg})
                        prev6[id(a)] = {'reg': reg,
                                        'q_gap_per_m': q_gap / dz}
                if g is not None and core.model == 'flow':
                    m = core._sc_mfr
                    dHg = float(np.sum(m * g['cp'] * (g['T1'] - g['T0'])))
                    res.close('J2m_gap_flows_sum', float(np.sum(m))
                              - core.gap_flow_rate, core.gap_flow_rate, 1e-10,
                              'gap cell flows do not sum to gap flow', key)
                    sc = abs(dHg) + abs(q_to_gap_total) + FLOOR * float(
                        np.sum(m * g['cp'] * g['T0'])) * 1e-3 + 1e-12
                    res.close('J2_gap_balance', dHg - q_to_gap_total, sc, TOL,
                              'gap enthalpy change != heat received from '
                              'ducts (conduction must only move heat)', key,
                              {'dHg': dHg, 'q': q_to_gap_total,
                               'z': recs[0]['z1']})
                    if not adiabatic:
                        lagged = any6 or anystag
                        name = 'J3_core_step' if not lagged else \
                            'J3_core_step_lagged_models'
                        sc3 = abs(p_step) + abs(dH_asm) + abs(dHg) + 1e-12
                        if not lagged:
                            res.close(name, dH_asm + dHg - p_step, sc3, TOL,
                                      'assembly + gap enthalpy rise of the '
                                      'step != power delivered', key,
                                      {'z': recs[0]['z1']})
                        else:
                            res.count(name)
                        tot['dH'] += dH_asm + dHg
                        tot['P'] += p_step

            drive.sweep(r, on_step=after)
            # ---- sweep totals ------------------------------------------------
            if not adiabatic and core.model == 'flow' and tot['P'] > 0:
                res.close('J3s_core_sweep', tot['dH'] - tot['P'], tot['P'],
                          (TOL * 100 if not (has_lag or has_stag) else 1.0),
                          'sweep: assembly + gap enthalpy rise != power '
                          'delivered', dict(key, lag=bool(has_lag),
                                            stagnant_bypass=bool(has_stag)))
                res.stat('J3s_rel_all', abs(tot['dH'] - tot['P']) / tot['P'])
                if has_stag:
                    res.check('J3s_stagnant_bypass_conservative',
                              abs(tot['dH'] - tot['P']) / tot['P'] < 1e-7,
                              'core with a stagnant bypass gap: sweep energy '
                              'balance does not close (rel %.3e)'
                              % (abs(tot['dH'] - tot['P']) / tot['P']),
                              dict(key, mech='stagnant_bypass'))
                elif has_lag:
                    res.stat('J3s_rel_with_sixnode_lag',
                             abs(tot['dH'] - tot['P']) / tot['P'])
            # ---- output table ---------------------------------------------------
            try:
                with drive.quiet():
                    txt = dassh.table.AssemblyEnergyBalanceTable().generate(r)
                rows = [ln.split() for ln in txt.splitlines()
                        if re.match(r'^\s*\d+\s', ln)]
                for i, a in enumerate(r.assemblies):
                    row = [x for x in rows if int(x[0]) == i + 1]
                    if not row:
                        continue
                    vals = [float(x) for x in row[0][1:]]
                    A = (a._power_delivered['pins'] + a._power_delivered[
                        'cool'] + a._power_delivered['refl'])
                    res.close('T1_table_power', vals[0] - A, abs(A) + 1e-9,
                              2e-4, 'energy-balance table column A != power '
                              'tallied', key)
                    res.close('T1_table_flow', vals[4] - a.flow_rate,
                              a.flow_rate, 2e-4, 'table flow rate', key)
                    # the other columns against independent quantities:
                    # duct heating tallied, heat capacity of the constant
                    # coolant, mixed-mean rise rebuilt from subchannel flows
                    B = a._power_delivered['duct']
                    res.close('T1_table_columns', vals[1] - B,
                              abs(B) + 1e-9 * (abs(A) + 1.0), 2e-4,
                              'energy-balance table column B != duct power '
                              'tallied', dict(key, column='B'))
                    res.close('T1_table_columns', vals[5] - cp, cp, 2e-4,
                              'energy-balance table column F != heat '
                              'capacity of the coolant', dict(key, column='F'))
                    rise = asm_enthalpy(a.active_region,
                                        a.active_region.temp, cp) \
                        / (a.flow_rate * cp) - P['inlet']
                    if not (a.active_region.is_rodded and
                            a.active_region.n_bypass > 0 and not
                            np.sum(a.active_region.byp_flow_rate) > 0):
                        res.close('T1_table_columns', vals[6] - rise,
                                  abs(rise) + 1e-3, 5e-4,
                                  'energy-balance table column G != '
                                  'mixed-mean coolant temperature rise',
                                  dict(key, column='G'),
                                  {'table': vals[6], 'own': rise})
                    s_exp = vals[0] + vals[2] + vals[3] \
                        - vals[4] * vals[5] * vals[6]
                    res.check('T1_table_columns',
                              abs(vals[7] - s_exp) <= 5e-4 * (
                                  abs(vals[0]) + abs(vals[2]) + abs(vals[3])
                                  + abs(vals[4] * vals[5] * vals[6])) + 1e-6,
                              'energy-balance table SUM %.4e != A + C + D - '
                              'E F G of the same row (%.4e)'
                              % (vals[7], s_exp), dict(key, column='SUM'))
                    if not (has_lag or has_stag):
                        res.check('T3_reported_balance_closes',
                                  abs(vals[8]) <= 1e-8,
                                  'energy-balance table reports an error of '
                                  '%.3e for assembly %d' % (vals[8], i + 1),
                                  dict(key, row='assembly'))
                # GAP and CORE rows
                for ln in txt.splitlines():
                    w = ln.split()
                    if not w or w[0] not in ('GAP', 'CORE'):
                        continue
                    nums = [float(x) if x != '---' else None for x in w[1:]]
                    if w[0] == 'GAP' and core.model == 'flow':
                        res.close('T1_table_columns',
                                  nums[4] - core.gap_flow_rate,
                                  core.gap_flow_rate, 2e-4,
                                  'GAP row flow rate', dict(key, column='E',
                                                            row='gap'))
                    if w[0] == 'CORE':
                        tot_flow = sum(a.flow_rate for a in r.assemblies) + (
                            core.gap_flow_rate if core.model == 'flow'
                            else 0.0)
                        res.close('T1_table_columns', nums[4] - tot_flow,
                                  tot_flow, 2e-4, 'CORE row flow rate',
                                  dict(key, column='E', row='core'))
                        ptot = sum(sum(a._power_delivered.values())
                                   for a in r.assemblies)
                        res.close('T1_table_columns',
                                  nums[0] + nums[1] - ptot, ptot + 1e-9,
                                  2e-4, 'CORE row power', dict(
                                      key, column='A+B', row='core'))
                    if not (has_lag or has_stag) and not adiabatic and \
                            core.model == 'flow' and nums[-1] is not None:
                        res.check('T3_reported_balance_closes',
                                  abs(nums[-1]) <= 1e-8,
                                  'energy-balance table reports an error of '
                                  '%.3e in its %s row' % (nums[-1], w[0]),
                                  dict(key, row=w[0].lower()))
            except Exception as e:  # table parse problems are not verdicts
                res.tag('table_parse_failed:' + type(e).__name__)
            # inter-assembly heat transfer table: the six face values of an
            # assembly add up to (minus) the heat it gave to the gap
            if not adiabatic and core.model == 'flow':
                try:
                    with drive.quiet():
                        txt = dassh.table.InterasmEnergyXferTable().generate(r)
                    for ln in txt.splitlines():
                        if not re.match(r'^\s*\d+\s', ln):
                            continue
                        i = int(ln.split()[0]) - 1
                        vals = [float(x) for x in re.findall(
                            r'(-?\d\.\d{3}E[+-]\d+) \(', ln)]
                        if len(vals) != 6 or i not in gap_tally:
                            continue
                        tol = 6 * 6e-4 * max(abs(v) for v in vals) + 1e-6
                        res.check('T2_interasm_table_row',
                                  abs(sum(vals) + gap_tally[i]) <= tol,
                                  'inter-assembly table row %d sums to %.5e, '
                                  'heat given to the gap tallied as %.5e'
                                  % (i + 1, sum(vals), gap_tally[i]), key)
                except Exception as e:
                    res.tag('xfer_table_parse_failed:' + type(e).__name__)
            for k in ('gap',):
                res.tag('%s=%s' % (k, feats[k]))
            res.tag('conv_approx_active=%s' % any(getattr(a.active_region, '_conv_approx', False) for a in r.assemblies))
            res.tag('n_asm=%d' % feats['n_asm'])
            res.tag('near_bounds=%s' % feats.get('near_bounds'))
            res.tag('n_pos=%d' % feats['n_pos'])
            if has_lag:
                res.tag('has_sixnode')
            if has_stag:
                res.tag('has_stagnant_bypass')
            meshes = sorted(set(len(a._finest_xpts) for a in r.assemblies))
            res.tag('distinct_meshes=%d' % len(meshes))
            if adiabatic or (feats['n_asm'] >= 2 and tot['n_exch'] >= 2) or \
                    (feats['n_asm'] == 1 and tot['n_exch'] >= 1):
                res.nontrivial(repr((feats['types'], feats['n_asm'],
                                     feats['gap'], case['seed'][-1])))
            res.stat('max_heat_exchanged_W_per_step', tot['max_exchange'])
            res.sample({'case': case, 'features': feats,
                        'steps': int(len(r.z) - 1)})
    except drive.Rejected as e:
        res.status('rejected', str(e))
        res.tag('rejected:' + e.stage)
    return res


def classify(v, case):
    k = v.get('key', {})
    if v['monitor'] == 'J3s_stagnant_bypass_conservative' and \
            k.get('mech') == 'stagnant_bypass':
        return 'F11'
    return None
