"""C09 - the inter-assembly gap mesh is well-formed for every core layout.

Contracts evaluated on the real dassh ``Core`` object at the exit of the real
``Core.load(assemblies)`` (reached through ``Reactor._setup_core`` on generated
input files), against a gap mesh derived from hexagonal geometry alone
(vmon/oracle/c09_hexgap.py), plus a metamorphic relation over builds of one
layout with different assembly types.
"""
import math
import traceback
import numpy as np
from vmon import gen, drive, workloads as wl
from vmon.harness import Result
from vmon.probe import Hooks
from vmon.oracle import c09_hexgap as hx

PROPERTY = 'C09'
LEVEL = 'exploration'
TECHNIQUE = ('runtime monitoring: structural and geometric contracts on the '
             'Core attributes captured at the exit of the real Core.load, '
             'against a gap mesh derived independently from the hexagonal '
             'lattice; metamorphic total-area relation across assembly-type '
             'assignments of one layout')
LEVEL_TEXT = ('All 127 non-empty layouts of the 7-position core (thorough: '
              'with every assignment of a 3-type pool, 16383 builds) and '
              'sampled 19-/37-position layouts are built through the real '
              'input reader and Reactor; every gap cell, adjacency row, '
              'width, area and flow of every build is compared with the '
              'independent model to 1e-12. Exhaustive over the finite '
              '7-position layout space, sampled beyond; held on the '
              'executions observed, not proved.')
LEVEL_NOTE = ('The oracle knows the position numbering (spiral, one '
              'rotational sense) and hexagon geometry; which lattice '
              'direction dassh calls "side 0" and the sense of its side '
              'numbering are NOT assumed: one of the 12 possible conventions '
              'must fit every assembly of a build. The outer boundary of '
              'the gap (a wall at one gap width from every free duct face) '
              'is the model stated in core.py and is reproduced '
              'independently by inclusion-exclusion of enlarged hexagons '
              '(cross-checked once by Monte-Carlo integration).')
DESIGN_REF = 'DESIGN.md section 3, C09'
RULE = ('layouts: every non-empty subset of the 7 positions (centre may be '
        'empty; the reader accepts it), random subsets of 19- and '
        '37-position cores (fill 15-100 %, incl. disconnected groups and '
        'empty centre); types: pools of 3 with different ring counts (2-9), '
        'equal ring count with different pitch, no pins (low-fidelity), '
        '1-3 ducts, axial regions; random duct size, gap width, flows. A '
        'case is non-trivial when at least two assemblies share a face '
        'whose two sides have different meshes; distinct by (positions, '
        'layout mask, pool kind).')
RULE += (' Round 11: the gap model (flow / no_flow / duct_average) is drawn per case; geometry and flow split contracts are the same for all.')
DECIDING = ['asm_adj_is_lattice_neighbourhood', 'count_once_partition',
            'cell_borders_1_to_3', 'sc_adj_symmetric',
            'perimeter_covered_once', 'shared_cell_seen_identically',
            'finer_mesh_per_side', 'total_area_formula',
            'total_area_metamorphic', 'flow_split_proportional',
            'flow_split_sums_to_gap_flow']
CASE_TIMEOUT = {'quick': 150, 'thorough': 900}
BUDGET = {'quick': 600, 'thorough': 3000}
EXHAUSTIVE = {'quick': False, 'thorough': True}
ASSUMPTIONS = ['numpy float64 arithmetic',
               'position numbering: ring r position p on a spiral whose '
               'rings all start on one diagonal (DASSH user convention)',
               'assemblies are passed to Core.load in position order '
               '(asserted)']
TOL = 1e-12
G_REF = (-1, 1)       # side s faces lattice direction (1 - s) mod 6 (observed)
SQ3 = math.sqrt(3.0)


# ----------------------------------------------------------------------
# cases


def _chunks(n_total, size):
    return [(i, min(i + size, n_total)) for i in range(0, n_total, size)]


def cases(tier, seed):
    out = []
    quick = (tier == 'quick')
    for mask in range(1, 128):
        n = bin(mask).count('1')
        if quick:
            out.append({'name': 'sub7-%03d' % mask, 'kind': 'sub7',
                        'mask': mask, 'n_ring': 2, 'assign': 'sample',
                        'k': 5, 'max_rings': 7, 'seed': [seed, 1, mask]})
        else:
            for lo, hi in _chunks(3 ** n, 243):
                out.append({'name': 'sub7-%03d-%d' % (mask, lo),
                            'kind': 'sub7', 'mask': mask, 'n_ring': 2,
                            'assign': [lo, hi], 'max_rings': 7,
                            'seed': [seed, 1, mask]})
            out.append({'name': 'sub7-%03d-r' % mask, 'kind': 'sub7',
                        'mask': mask, 'n_ring': 2, 'assign': 'sample',
                        'k': 4, 'max_rings': 12, 'seed': [seed, 9, mask]})
    plan = [(3, 48, 4, 7), (4, 24, 4, 6), (5, 4, 3, 5)] if quick else \
        [(3, 300, 4, 11), (4, 150, 4, 9), (5, 24, 3, 7)]
    for n_ring, count, k, max_rings in plan:
        npos = hx.n_positions(n_ring)
        for i in range(count):
            out.append({'name': 'sub%d-%d' % (npos, i), 'kind': 'subN',
                        'n_ring': n_ring, 'assign': 'sample', 'k': k,
                        'max_rings': max_rings, 'seed': [seed, n_ring, i]})
    return out


# ----------------------------------------------------------------------
# workload


def layout_of(case, rng):
    """Sorted list of occupied 0-based positions."""
    npos = hx.n_positions(case['n_ring'])
    if case['kind'] == 'sub7':
        return [k for k in range(7) if case['mask'] >> k & 1]
    style = wl.choose(rng, ['fill', 'fill', 'fill', 'full', 'nocentre',
                            'sparse', 'ringonly', 'line'])
    if style == 'full':
        lay = list(range(npos))
    elif style == 'nocentre':
        lay = [k for k in range(1, npos) if rng.random() < 0.8]
    elif style == 'sparse':
        lay = [k for k in range(npos) if rng.random() < 0.2]
    elif style == 'ringonly':
        lo = hx.n_positions(case['n_ring'] - 1)
        lay = [k for k in range(lo, npos) if rng.random() < 0.85]
    elif style == 'line':
        s0 = [k for k in range(npos) if hx.site(k)[1] == 0]
        lay = s0 + [k for k in range(npos) if rng.random() < 0.1]
    else:
        p = rng.uniform(0.3, 0.95)
        lay = [k for k in range(npos) if rng.random() < p]
    lay = sorted(set(lay))
    # the reader sizes the core from the largest ring named in the input
    lo = hx.n_positions(case['n_ring'] - 1)
    if not any(k >= lo for k in lay):
        lay.append(int(rng.integers(lo, npos)))
    return sorted(lay)


def make_pool(rng, ftf_o, max_rings):
    """Three assembly types with different gap meshes."""
    kind = wl.choose(rng, ['mixed', 'mixed', 'mixed', 'tie', 'rodded',
                           'two_unrodded'])
    corr = wl.choose(rng, [('MIT', 'NOV', 'NOV'), ('CTD', 'CTD', 'CTD'),
                           ('MIT', 'ENG', 'SE2')])

    def rodded(nr, nd=None, **kw):
        nd = nd if nd is not None else wl.choose(rng, [1, 1, 1, 2, 2, 3])
        kw2 = {}
        if nd > 1:
            kw2['byp_ff'] = wl.choose(rng, [0.0, 0.05, 0.15])
        kw2.update(kw)
        return gen.make_type(rng, nr, ftf_o, n_duct=nd, corr=corr,
                             duct_material='steel_const', **kw2)

    def unrodded(nr):
        t = rodded(nr, nd=wl.choose(rng, [1, 1, 2]))
        t['use_low_fidelity_model'] = True
        t['convection_factor'] = wl.choose(rng, ['calculate', 1.0, 0.5])
        return t

    rings = [int(x) for x in rng.permutation(np.arange(2, max_rings + 1))]
    if kind == 'mixed':
        ts = [rodded(rings[0]), rodded(rings[1]), unrodded(rings[2 % len(rings)])]
    elif kind == 'tie':
        a = rodded(rings[0], nd=1, pd=1.10, slack=0.05)
        if rng.random() < 0.3:
            b = dict(a)                       # identical mesh, other name
            b['wire_direction'] = 'clockwise'
        else:
            b = rodded(rings[0], nd=1, pd=1.22, slack=0.2)
        ts = [a, b, rodded(rings[1]) if rng.random() < 0.5
              else unrodded(rings[1])]
    elif kind == 'rodded':
        ts = [rodded(rings[0]), rodded(rings[1]), rodded(rings[2 % len(rings)])]
    else:
        ts = [unrodded(rings[0]), unrodded(rings[1]), rodded(rings[2 % len(rings)])]
    order = rng.permutation(3)
    return kind, {'t%d' % i: ts[int(j)] for i, j in enumerate(order)}


def base(case, rng):
    ftf_o = float(rng.uniform(0.07, 0.2))
    d_gap = float(wl.loguniform(rng, 0.0008, 0.012))
    P = gen.base_problem(length=float(wl.choose(rng, [0.1, 0.3])),
                         asm_pitch=ftf_o + d_gap, gap_model='flow',
                         bypass_fraction=wl.loguniform(rng, 0.002, 0.2))
    # the gap geometry and the flow split are the same for every gap model
    # (own generator: the streams of the cases above stay as they were)
    P['gap_model'] = str(wl.choose(
        np.random.default_rng(case['seed'] + [909]),
        ['flow', 'flow', 'no_flow', 'duct_average']))
    kind, pool = make_pool(rng, ftf_o, case['max_rings'])
    P['types'] = pool
    # axial regions on one pin-bundle type now and then (stays "rodded")
    if rng.random() < 0.25:
        for nm in sorted(pool):
            if not pool[nm].get('use_low_fidelity_model'):
                wl.add_axial_regions(rng, P, nm)
                break
    return P, kind, ftf_o, d_gap


def problem_for(P0, layout, assign, rng):
    """Copy of P0 with the layout filled by assign[k0] -> type name."""
    P = dict(P0)
    P['positions'] = []
    P['power'] = {'zb': [0.0, P0['length']], 'order': 0, 'seed': 1, 'asm': {}}
    for k0 in layout:
        r, p = hx.ring_of(k0)
        gen.add_position(P, assign[k0], r, p + 1,
                         velocity=wl.loguniform(rng, 0.3, 5.0),
                         dT=float(rng.uniform(20, 100)), shape='flat')
    return P


def mesh_of(t):
    if t.get('use_low_fidelity_model'):
        return hx.Mesh(0, 0.0)
    return hx.Mesh(int(t['num_rings']), float(t['pin_pitch']))


def assignments(case, layout, rng):
    names = ['t0', 't1', 't2']
    n = len(layout)
    if case['assign'] == 'sample':
        out = [{k: names[int(rng.integers(3))] for k in layout}
               for _ in range(case['k'])]
        one = names[int(rng.integers(3))]
        out[0] = {k: one for k in layout}           # single-type build
        if n >= 2 and case['k'] >= 2:               # force two types
            a, b = (int(x) for x in rng.permutation(3)[:2])
            out[1] = {k: names[a if i % 2 == 0 else b]
                      for i, k in enumerate(layout)}
        return out
    lo, hi = case['assign']
    out = []
    for code in range(lo, hi):
        a = {}
        c = code
        for k in layout:
            a[k] = names[c % 3]
            c //= 3
        out.append(a)
    return out


# ----------------------------------------------------------------------
# observation


def snapshot(core, asms):
    gp = core.gap_params
    return {
        'n_asm': int(core.n_asm), 'n_sc': int(core.n_sc),
        'asm_map': np.array(core.asm_map), 'asm_adj': np.array(core.asm_adj),
        'asm_sc_adj': np.array(core._asm_sc_adj),
        'asm_sc_types': [np.array(x) for x in core._asm_sc_types],
        'sc_types': np.array(core._sc_types),
        'sc_adj': np.array(core._sc_adj),
        'xbnds': np.array(core._asm_sc_xbnds),
        'wp': np.array(gp['wp']), 'asm_wp': np.array(gp['asm wp']),
        'area': np.array(gp['area']), 'L': np.array(gp['L']),
        'total_area': float(gp['total area']),
        'area_frac': np.array(gp['area frac']),
        'mfr': np.array(core._sc_mfr),
        'gap_flow': float(core.gap_flow_rate),
        'd_gap': float(core.d_gap), 'oftf': float(core.duct_oftf),
        'pitch': float(core.asm_pitch),
        'ids': [int(a.id) for a in asms],
        'model': core.model,
        'conv_const': (np.array(core._conv_util['const'])
                       if hasattr(core, '_conv_util') else None),
        'asm_mesh': [(bool(a.has_rodded),
                      int(a.rodded.n_ring) if a.has_rodded else 0,
                      float(a.rodded.pin_pitch) if a.has_rodded else 0.0)
                     for a in asms]}


def build_and_observe(P, res):
    """Run the real reader + Reactor; capture Core at the exit of load().
    Returns the snapshot, or None when load() never completed."""
    cap = {}

    def post(args, kwargs, result, tok):
        cap['snap'] = snapshot(args[0], args[1])

    with drive.scratch() as d, Hooks() as hk:
        hk.wrap(drive.dassh.core.Core, 'load', post=post)
        drive.build(P, d)
        res.count('core_load_calls', hk.n.get('Core.load', 0))
    return cap.get('snap')


# ----------------------------------------------------------------------
# contracts


def contracts(res, S, M, key, gap_flow_expected):
    """S: snapshot of the real Core; M: hx.GapModel of the same layout."""
    n_asm, n_sc = S['n_asm'], S['n_sc']
    side = M.side
    perim = 6.0 * M.F / SQ3

    # geometry scalars carried over from the input
    res.close('gap_width_from_input', S['d_gap'] - M.d, M.d, 1e-12,
              'Core.d_gap != pitch - duct outer flat-to-flat', key)
    res.check('assembly_order_by_position',
              S['ids'] == list(M.order) and n_asm == M.n,
              'assemblies not loaded in position order: %r vs %r'
              % (S['ids'], M.order), key)
    if S['ids'] != list(M.order) or n_asm != M.n:
        return None
    for a in range(n_asm):
        rod, nr, pp = S['asm_mesh'][a]
        m = M.mesh[a]
        if (rod != m.rodded) or (rod and (nr - 1 != m.n_edge or
                                          abs(pp - m.pp) > 1e-12 * pp)):
            res.check('input_mesh_as_built', False,
                      'assembly %d mesh differs from input' % a, key)
            return None
    res.check('input_mesh_as_built', True, '')

    # ---- M1 neighbour table == lattice neighbourhood -----------------
    gs = M.consistent_orientations(S['asm_adj'])
    ok = res.check('asm_adj_is_lattice_neighbourhood', len(gs) > 0,
                   'asm_adj is not the hexagonal-lattice neighbour table '
                   'under any side numbering convention',
                   dict(key, mech='asm_adj'),
                   {'asm_adj': S['asm_adj'], 'order': M.order})
    if not ok:
        return None
    g = G_REF if G_REF in gs else gs[0]
    res.tag('side_convention=%+d,%d' % g)
    M.build(g)

    # ---- row structure -------------------------------------------------
    adj = S['asm_sc_adj']
    rows = []
    struct_ok = True
    for a in range(n_asm):
        exp = M.seq[a]
        row = adj[a]
        nz = int(np.count_nonzero(row))
        good = (nz == len(exp) and np.all(row[:nz] > 0)
                and np.all(row[nz:] == 0))
        # per-side cell counts from the type vector
        ty = S['asm_sc_types'][a]
        good = good and len(ty) == len(exp) and \
            [int(x) for x in ty] == [e[2] for e in exp]
        if not good:
            struct_ok = False
            res.check('finer_mesh_per_side', False,
                      'assembly %d: cells per hex side differ from the '
                      'finer-mesh rule (expected %r per side)' %
                      (a, [M.face_dims(M.face(a, hx.gdir(g, s)))[0]
                           for s in range(6)]),
                      dict(key, mech='cells_per_side'),
                      {'row': row, 'types': ty})
        rows.append([int(x) for x in row[:nz]])
    if not struct_ok:
        return None

    # ---- M3 count-once partition -----------------------------------------
    key2idx, idx2key = {}, {}
    part_ok = True
    for a in range(n_asm):
        for i, e in enumerate(M.seq[a]):
            k, idx = e[0], rows[a][i]
            if key2idx.setdefault(k, idx) != idx or \
                    idx2key.setdefault(idx, k) != k:
                part_ok = False
                res.check('count_once_partition', False,
                          'gap cell index %d at assembly %d slot %d does '
                          'not identify one geometric cell' % (idx, a, i),
                          dict(key, mech='index', celltype=e[2],
                               n_shared=len(M.cells[k]['asm'])),
                          {'asm': a, 'slot': i, 'side': e[1]})
            else:
                res.count('count_once_partition')
    full = (sorted(idx2key) == list(range(1, n_sc + 1))
            and len(key2idx) == n_sc and len(S['sc_types']) == n_sc)
    res.check('count_once_partition', full,
              'gap cell indices are not 1..n_sc, one per geometric cell '
              '(n_sc=%d, geometric cells=%d)' % (n_sc, len(M.cells)),
              dict(key, mech='index_range'))
    if not (part_ok and full):
        return None

    # ---- M2 every cell borders 1..3 assemblies -----------------------------
    occ = {}
    for a in range(n_asm):
        for idx in rows[a]:
            occ.setdefault(idx, []).append(a)
    for idx in range(1, n_sc + 1):
        c = M.cells[idx2key[idx]]
        o = occ.get(idx, [])
        lim = 2 if c['type'] == 0 else 3
        res.check('cell_borders_1_to_3',
                  1 <= len(o) <= lim and len(set(o)) == len(o)
                  and len(o) == c['n_expected']
                  and int(S['sc_types'][idx - 1]) == c['type'],
                  'cell %d borders %r (expected %d assemblies, type %d)'
                  % (idx, o, c['n_expected'], c['type']),
                  dict(key, mech='n_bordering', celltype=c['type']))

    # ---- M4 adjacency ----------------------------------------------------------
    sa = S['sc_adj']
    nbr = [set(int(x) for x in sa[i] if x > 0) for i in range(n_sc)]
    for i in range(n_sc):
        nzl = [int(x) for x in sa[i] if x > 0]
        sym = all((i + 1) in nbr[j - 1] for j in nzl if 1 <= j <= n_sc)
        res.check('sc_adj_symmetric',
                  sym and len(nzl) == len(set(nzl)) and (i + 1) not in nzl
                  and all(1 <= j <= n_sc for j in nzl),
                  'gap cell %d lists %r but is not listed back'
                  % (i + 1, nzl), dict(key, mech='sc_adj_asym',
                                       celltype=int(S['sc_types'][i])),
                  {'row': sa[i]})
        exp = set(key2idx[k] for k in M.cells[idx2key[i + 1]]['adj'])
        res.check('sc_adj_matches_geometry', nbr[i] == exp,
                  'gap cell %d neighbours %r, geometry says %r'
                  % (i + 1, sorted(nbr[i]), sorted(exp)),
                  dict(key, mech='sc_adj_set',
                       celltype=int(S['sc_types'][i]),
                       missing=len(exp - nbr[i]), extra=len(nbr[i] - exp)))
    # distances: recorded, not asserted (not part of the statement)
    L = S['L']
    for i in range(n_sc):
        for c, j in enumerate(sa[i]):
            if j > 0:
                back = [L[j - 1, c2] for c2, i2 in enumerate(sa[j - 1])
                        if i2 == i + 1]
                if back and L[i, c] > 0:
                    res.stat('obs_L_asymmetry_rel',
                             abs(back[0] - L[i, c]) / L[i, c])
                else:
                    res.count('obs_L_missing')

    # ---- M5 perimeter covered once; M6 finer mesh; same from both sides -------
    seen = {}      # face -> (n, pp, dwc) as seen by the first assembly
    for a in range(n_asm):
        exp = M.seq[a]
        nz = len(exp)
        w = S['asm_wp'][a]
        xb = S['xbnds'][a][:nz]
        res.close('perimeter_covered_once', float(np.sum(w[:nz])) - perim,
                  perim, TOL, 'wetted perimeters around assembly %d do not '
                  'add up to its duct perimeter' % a,
                  dict(key, mech='perimeter_sum'))
        res.check('perimeter_covered_once',
                  bool(np.all(w[:nz] > 0) and np.all(w[nz:] == 0)
                       and np.all(np.diff(xb) > 0) and xb[0] > 0
                       and xb[-1] < perim),
                  'cell boundaries around assembly %d not strictly '
                  'increasing inside (0, perimeter)' % a,
                  dict(key, mech='perimeter_order'))
        xe = np.array(M.xbnds[a])
        res.close('finer_mesh_per_side', float(np.max(np.abs(xb - xe))),
                  side, TOL, 'cell boundaries of assembly %d differ from '
                  'the finer-mesh rule' % a, dict(key, mech='xbnds'))
        we = np.array([e[3] for e in exp])
        res.close('finer_mesh_per_side', float(np.max(np.abs(w[:nz] - we))),
                  side, TOL, 'cell widths of assembly %d differ from the '
                  'finer-mesh rule' % a, dict(key, mech='widths'))
        # what this assembly sees on each face, from dassh data only
        pos = 0
        for s in range(6):
            f = M.face(a, hx.gdir(g, s))
            n = M.face_dims(f)[0]
            lead = xb[pos] - s * side
            trail = (s + 1) * side - xb[pos + n]
            pp = float(np.mean(np.diff(xb[pos:pos + n + 1]))) if n else 0.0
            cellsrow = rows[a][pos:pos + n]
            pos += n + 1
            res.close('perimeter_covered_once', lead - trail, side, TOL,
                      'corner halves of side %d of assembly %d unequal'
                      % (s, a), dict(key, mech='side_not_centred'))
            if f in seen:
                n0, pp0, d0, cells0 = seen[f]
                res.check('shared_cell_seen_identically',
                          n == n0 and abs(pp - pp0) <= TOL * side
                          and abs(lead - d0) <= TOL * side
                          and cellsrow == cells0[::-1],
                          'face shared by two assemblies is meshed '
                          'differently from its two sides',
                          dict(key, mech='face_mismatch'),
                          {'a': a, 'side': s, 'n': [n, n0], 'pp': [pp, pp0],
                           'dwc': [lead, d0]})
                res.tag('shared_face')
            else:
                seen[f] = (n, pp, lead, cellsrow)
    # shared cell: same index (partition) and same width from each neighbour
    for idx in range(1, n_sc + 1):
        c = M.cells[idx2key[idx]]
        if c['type'] == 0 and len(occ[idx]) == 2:
            ws = [S['asm_wp'][a][rows[a].index(idx)] for a in occ[idx]]
            res.close('shared_cell_seen_identically', ws[0] - ws[1], side,
                      TOL, 'shared edge cell has different widths from its '
                      'two assemblies', dict(key, mech='edge_width'))

    # coupling constants of the gap energy equation: for every cell and every
    # assembly it touches (in assembly order), the contact length of the cell
    # on THAT assembly's side (a corner cell between unlike meshes has a
    # different one towards each of them)
    if S.get('conv_const') is not None:
        fac = 2.0 / S['d_gap'] if S.get('model') == 'no_flow' else 1.0
        worst, wit = 0.0, None
        for idx in range(1, n_sc + 1):
            own = sorted(occ[idx])
            for i, a in enumerate(own):
                want = float(S['asm_wp'][a][rows[a].index(idx)]) * fac
                got = float(S['conv_const'][idx - 1, i])
                dd = abs(got - want) / max(abs(want), 1e-300)
                if dd > worst:
                    worst, wit = dd, (idx, a, got, want)
        res.close('coupling_constant_is_own_contact_length', worst, 1.0, 1e-11,
                  'duct-gap coupling constant of a cell towards one of its '
                  'assemblies is not that assembly\'s contact length: %r'
                  % (wit,), dict(key, mech='conv_const'))

    # ---- M7 areas ------------------------------------------------------------
    d = M.d
    a_exp = np.array([M.cells[idx2key[i + 1]]['area'] for i in range(n_sc)])
    wp_exp = np.array([M.cells[idx2key[i + 1]]['wp'] for i in range(n_sc)])
    worst = int(np.argmax(np.abs(S['area'] - a_exp)))
    cw = M.cells[idx2key[worst + 1]]
    res.close('cell_area', float(S['area'][worst] - a_exp[worst]),
              float(a_exp[worst]), 1e-11,
              'gap cell area differs from geometry',
              dict(key, mech='cell_area', celltype=cw['type'],
                   k=cw.get('k')), {'cell': worst + 1})
    res.stat('obs_cell_wp_rel', float(np.max(np.abs(S['wp'] - wp_exp)
                                             / wp_exp)))
    tot_exp = M.total_area()
    res.close('total_area_formula', S['total_area'] - tot_exp, tot_exp, TOL,
              'total gap area differs from the layout-only formula',
              dict(key, mech='total_area'),
              {'observed': S['total_area'], 'expected': tot_exp,
               'n': M.n, 'pairs': M.n_pairs(), 'triples': M.n_triples()})
    res.close('total_area_is_sum', S['total_area'] - float(np.sum(S['area'])),
              tot_exp, TOL, 'total area is not the sum over cells', key)

    # ---- M8 flow split ---------------------------------------------------------
    gf = S['gap_flow']
    res.close('flow_split_sums_to_gap_flow',
              float(np.sum(S['mfr'])) - gap_flow_expected, gap_flow_expected,
              1e-11, 'gap cell flows do not add up to the gap flow '
              '(bypass fraction of the total flow)',
              dict(key, mech='flow_sum'),
              {'sum': float(np.sum(S['mfr'])), 'core.gap_flow_rate': gf})
    ratio = S['mfr'] * float(np.sum(S['area'])) / (S['area'] * float(np.sum(S['mfr'])))
    res.close('flow_split_proportional', float(np.max(np.abs(ratio - 1.0))),
              1.0, 1e-11, 'gap flow is not split in proportion to cell area',
              dict(key, mech='flow_split'))
    res.check('flow_split_proportional', bool(np.all(S['mfr'] > 0)),
              'non-positive gap cell flow', dict(key, mech='flow_sign'))
    return {'g': g, 'total_area': S['total_area']}


# ----------------------------------------------------------------------


def _through_core(tb):
    return any(fr.filename.replace('\\', '/').endswith('dassh/core.py')
               for fr in traceback.extract_tb(tb))


def run_case(case):
    res = Result(case)
    rng = np.random.default_rng(case['seed'])
    P0, kind, ftf_o, d_gap = base(case, rng)
    layout = layout_of(case, rng)
    # assignments use their own stream so that chunks of one subset share P0
    rng2 = np.random.default_rng(case['seed'] + [7])
    asg = assignments(case, layout, rng2)
    npos = hx.n_positions(case['n_ring'])
    key0 = {'npos': npos, 'n_asm': len(layout), 'pool': kind}
    areas = []
    mixed_faces = 0
    feats = None
    for ib, assign in enumerate(asg):
        P = problem_for(P0, layout, assign, rng2)
        M = hx.GapModel({k: mesh_of(P['types'][assign[k]]) for k in layout},
                        ftf_o, P['asm_pitch'])
        bf = P['bypass_fraction']
        gap_flow = bf / (1.0 - bf) * sum(q['flowrate']
                                         for q in P['positions'])
        key = dict(key0, centre_empty=(0 not in layout),
                   components=min(M.components(), 3),
                   n_types=len(set(assign.values())))
        try:
            S = build_and_observe(P, res)
        except drive.Rejected as e:
            res.count('builds_rejected')
            res.tag('rejected:' + e.stage)
            if ib == 0:
                res.status('rejected', str(e))
                return res
            continue
        except Exception as e:      # noqa: a crash inside Core is a finding
            import sys
            if _through_core(sys.exc_info()[2]):
                res.check('core_load_completes', False,
                          'Core set-up raised %s: %s' % (type(e).__name__, e),
                          dict(key, mech='load_raises:' + type(e).__name__),
                          {'layout': layout, 'assign': assign,
                           'tb': traceback.format_exc()[-800:]})
                continue
            raise
        if S is None:
            res.check('core_load_completes', False,
                      'Core.load was never reached', dict(key, mech='no_load'))
            continue
        res.check('core_load_completes', True, '')
        out = contracts(res, S, M, key, gap_flow)
        res.count('builds')
        if out is None:
            continue
        areas.append(out['total_area'])
        # coverage
        nmix = 0
        for f in set(M.face(a, k) for a in range(M.n) for k in range(6)):
            pr = M.present(f)
            if len(pr) == 2 and M.mesh[pr[0]].rank() != M.mesh[pr[1]].rank():
                nmix += 1
                if M.mesh[pr[0]].n_edge == M.mesh[pr[1]].n_edge:
                    res.tag('face_tie_on_cell_count')
                if not (M.mesh[pr[0]].rodded and M.mesh[pr[1]].rodded):
                    res.tag('face_pins_vs_no_pins')
        mixed_faces = max(mixed_faces, nmix)
        for c in M.cells.values():
            if c['type'] == 1:
                res.tag('corner_k=%d' % c['k'])
        res.tag('n_types=%d' % key['n_types'])
        res.tag('gap_model=%s' % S.get('model'))
        res.tag('positions=%d' % npos)
        if key['centre_empty']:
            res.tag('centre_empty')
        if key['components'] > 1:
            res.tag('disconnected')
        if any(not m.rodded for m in M.mesh):
            res.tag('has_unrodded')
        if any(len(P['types'][assign[k]]['duct_ftf']) > 2 for k in layout):
            res.tag('multi_duct')
        if any('AxialRegion' in P['types'][assign[k]] for k in layout):
            res.tag('axial_regions')
        res.tag('pool=' + kind)
        res.stat('n_sc', S['n_sc'])
        res.stat('n_asm', S['n_asm'])
        feats = {'layout': layout, 'assign': assign, 'n_sc': S['n_sc'],
                 'total_area': S['total_area'], 'pool': kind,
                 'rings': {n: (0 if t.get('use_low_fidelity_model')
                               else t['num_rings'])
                           for n, t in P['types'].items()}}
    # ---- metamorphic: same layout, other types => same total area ----------
    for a in areas[1:]:
        res.close('total_area_metamorphic', a - areas[0], areas[0], TOL,
                  'total gap area changes with the assembly types on a fixed '
                  'layout', dict(key0, mech='area_depends_on_mesh'),
                  {'areas': [areas[0], a]})
    if mixed_faces > 0 and len(areas) >= 2:
        res.nontrivial('%d/%s/%s' % (npos, ','.join(map(str, layout)), kind))
    res.sample({'case': case, 'features': feats})
    return res


def classify(v, case):
    return None
