"""C13 - pin radial temperatures are ordered and obey radial heat conduction.

Contracts on the real ``PinModel.calculate_temperatures`` (every call made
while real sweeps of generated FuelModel / PinModel problems run, and calls
driven directly on generated inputs) and on the real
``RoddedRegion.calculate_pin_temperatures`` (pin-adjacent coolant average,
probed with unit coolant fields). The reference is vmon/oracle/c13_pinref.py.
"""
import inspect
import numpy as np
from vmon import gen, drive, env, workloads as wl
from vmon.harness import Result
from vmon.probe import Hooks
from vmon.oracle import c13_pinref as pr

dassh = env.import_dassh()
from dassh.pin_model import PinModel              # noqa: E402
from dassh.region_rodded import RoddedRegion      # noqa: E402

PROPERTY = 'C13'
LEVEL = 'exploration'
TECHNIQUE = ('runtime monitoring: post-condition contracts on every '
             'PinModel.calculate_temperatures call (wrapper hooks during '
             'real sweeps + direct drive on generated inputs) against an '
             'independent shell-by-shell conduction reference; linear '
             'probing of calculate_pin_temperatures with unit coolant fields')
LEVEL_TEXT = ('Each observed call is checked pin by pin: ordering, zero-power '
              'identity, film/clad/gap drops and every fuel shell against '
              'closed forms with conductivities at the reported temperatures '
              '(tolerance = contraction factor x the model\'s own 1e-3 K '
              'iteration tolerance), fuel centre against an independent '
              'reference solve, monotonicity in power, convex adjacent '
              'weights of the pin coolant temperature. Held on the '
              'executions observed, not proved.')
LEVEL_NOTE = ('Reference geometry/material laws come from the generated '
              'problem, not from PinModel attributes; built-in material '
              'correlations are evaluated on private Material instances '
              '(their values are not C13\'s subject); subchannel/pin '
              'coordinates published by the region are trusted for '
              'adjacency (checked under C08); the conductivity of a layer '
              'is the mean of the values at its two bounding temperatures '
              '(the exact conductivity integral is accepted as well).')
DESIGN_REF = 'DESIGN.md section 3, C13'
RULE = ('direct: random pin (FuelModel metal fuel: pu/zr/porosity per zone; '
        'PinModel: user polynomial pin materials), 1-6 radial zones, solid '
        'or annular, gap 0 or >0 (He-like, Na-like, built-in sodium), clad '
        'user/built-in laws, built through the input file or the '
        'constructor (emissivity, beta), driven at 0 and 50 W/m..1.5 MW/m '
        'with random coolant temperature and film coefficient per pin; '
        'sweep/core: random single assemblies (2-7 rings, mean pin power '
        '3-320 kW/m, zero-power cells, hot pins) and 7-position cores whose '
        'types carry such pin sections, swept end to end with every model '
        'call monitored and the weight matrix probed at step 1; weights: '
        'unit-field probing for 2-15 rings. DASSH\'s own non-convergence / '
        'material error exit counts as rejected. Non-trivial: >= 1 monitored '
        'call with fuel centre >= 20 K above coolant (direct/sweep) or a '
        'full weight matrix probed (weights); distinct by (model, zones, '
        'annular, gap, material law kinds, rings)')
RULE += (' Later rounds added: user clad-film parameters with unequal exponents; the pin record of every assembly re-read at the end of each reactor step.')
RULE += (' Round 11: after every Assembly.calculate of a region with a pin model the pin record must be the one of this step (coolant column = adjacent-subchannel average of the new coolant, own height), also on steps without pin power.')
DECIDING = ['ordering', 'zero_power_equal', 'film_drop', 'clad_drop',
            'clad_mid_drop', 'gap_drop', 'fuel_centre_reference',
            'fuel_shell_conduction', 'monotone_in_power',
            'pin_coolant_weights_convex', 'pin_coolant_weights_adjacent',
            'pin_coolant_within_adjacent', 'pin_coolant_is_probed_average',
            'region_stores_model_result']
CASE_TIMEOUT = {'quick': 150, 'thorough': 600}
BUDGET = {'quick': 600, 'thorough': 3000}
EXHAUSTIVE = {'quick': False, 'thorough': False}
ASSUMPTIONS = ['numpy float64 arithmetic',
               'built-in material conductivity correlations (evaluated on '
               'private instances) are inputs, not subjects',
               'subchannel centroid / pin centre coordinates published by '
               'RoddedRegion (checked independently under C08)']

# finding id of the annular-pellet defect (see classify)
F_ANNULAR = 'F30'
MECH_ANNULAR = 'annular_pellet_solid_cylinder_formula'
# finding id of the NaN-blind convergence test (diverged iteration returns
# inf/nan instead of taking the non-convergence error exit)
F_NONFINITE = 'F31'
MECH_NONFINITE = 'nonfinite_without_error_exit'

ATOL_DEFAULT = inspect.signature(
    PinModel.calculate_temperatures).parameters['atol'].default
ORD_SLACK = 1e-9        # K, round-off of sums of ~1e3 K terms
# An iterate that moved by <= atol is within L*atol of the fixed point (L =
# contraction factor of the successive substitution, computed by the oracle);
# measured worst case is 1.03 L*atol, asserted with this margin.
SAFETY = 2.0
NAMES = ['coolant', 'clad_od', 'clad_mw', 'clad_id', 'fuel_od', 'fuel_cl']


# ----------------------------------------------------------------------
# workload: pin sections


def _positive(law, lo=250.0, hi=9000.0):
    T = np.linspace(lo, hi, 400)
    return bool(np.all(law(T) > 0.05))


def _clad_law(rng, allow_builtin=True):
    c = wl.choose(rng, ['const', 'lin', 'quad', 'builtin', 'builtin'])
    if c == 'builtin' and allow_builtin:
        nm = wl.choose(rng, ['ht9_se2anl', 'ht9', 'd9', 'ss316',
                             'ht9_se2anl_425', 'ss304'])
        return nm, None, ['builtin', nm]
    if c == 'const':
        co = [float(rng.uniform(12, 35))]
    elif c == 'lin':
        co = [float(rng.uniform(12, 25)), float(rng.uniform(2e-3, 1.5e-2))]
    else:
        co = [float(rng.uniform(15, 25)), float(rng.uniform(1e-3, 6e-3)),
              float(rng.uniform(5e-7, 4e-6))]
    return 'c13clad', co, ['poly', co]


def _gap_law(rng):
    c = wl.choose(rng, ['he', 'he', 'na_const', 'na_poly', 'builtin'])
    if c == 'builtin':
        return 'sodium', None, ['builtin', 'sodium']
    if c == 'he':
        co = [float(rng.uniform(0.05, 0.2)), float(rng.uniform(2e-4, 4e-4))]
    elif c == 'na_const':
        co = [float(rng.uniform(40, 70))]
    else:
        co = [92.0, -0.0581, 1.17e-5]
    return 'c13gap', co, ['poly', co]


def _pin_law(rng):
    for _ in range(50):
        c = wl.choose(rng, ['const', 'lin', 'quad', 'oxide', 'oxide'])
        if c == 'const':
            co = [float(rng.uniform(2, 30))]
        elif c == 'lin':
            co = [float(rng.uniform(8, 20)), float(rng.uniform(5e-3, 2e-2))]
        elif c == 'quad':
            co = [float(rng.uniform(5, 15)), float(rng.uniform(2e-3, 1e-2)),
                  float(rng.uniform(1e-6, 8e-6))]
        else:
            s = float(rng.uniform(0.6, 1.3))
            co = [float(rng.uniform(5.5, 8.0)), -3.2e-3 * s,
                  7e-7 * s * float(rng.uniform(0.9, 1.3))]
        if _positive(pr.Poly(co)):
            return co
    return [10.0]


def _r_frac(rng, n_zone, annular):
    r0 = float(rng.uniform(0.08, 0.6)) if annular else 0.0
    if n_zone == 1:
        return [r0]
    for _ in range(200):
        u = np.sort(rng.uniform(0.06, 0.94, n_zone - 1))
        e = np.concatenate([[0.0], u])
        if np.min(np.diff(np.concatenate([e, [1.0]]))) >= 0.05:
            return [float(r0 + (1.0 - r0) * x) for x in e]
    e = np.arange(n_zone) / float(n_zone)
    return [float(r0 + (1.0 - r0) * x) for x in e]


def random_pin(rng, D, t_clad, model=None):
    """One pin section. Returns dict with
    'section' (name), 'body' (input sub-section), 'materials' (to add),
    'ref' (reference spec, JSON-able), 'feats'."""
    model = model or wl.choose(rng, ['FuelModel', 'FuelModel', 'PinModel'])
    n_zone = int(wl.choose(rng, [1, 1, 2, 3, 3, 4, 5, 6]))
    annular = bool(rng.random() < 0.35)
    rfr = _r_frac(rng, n_zone, annular)
    ri = 0.5 * D - t_clad
    gap = 0.0
    if rng.random() < 0.55:
        gap = wl.loguniform(rng, 5e-6, min(3e-4, 0.25 * ri))
    mats = {}
    cname, cco, cspec = _clad_law(rng)
    if cco is not None:
        mats[cname] = {'thermal_conductivity': cco}
    body = {'clad_material': cname, 'r_frac': rfr}
    ref = {'d_pin': float(D), 'clad_t': float(t_clad), 'gap': float(gap),
           'r_frac': rfr, 'clad_k': cspec, 'gap_k': None, 'emissivity': 0.9,
           'model': model}
    feats = {'model': model, 'zones': n_zone, 'annular': annular,
             'gap': gap > 0.0, 'clad': cspec[1] if cspec[0] == 'builtin'
             else 'poly%d' % (len(cco) - 1)}
    if gap > 0.0:
        gname, gco, gspec = _gap_law(rng)
        if gco is not None:
            mats[gname] = {'thermal_conductivity': gco}
        body['gap_thickness'] = float(gap)
        body['gap_material'] = gname
        ref['gap_k'] = gspec
        feats['gapk'] = gspec[1] if gspec[0] == 'builtin' else \
            'poly%d' % (len(gco) - 1)
    if model == 'FuelModel':
        same = rng.random() < 0.5
        pu0, zr0 = float(rng.uniform(0.0, 0.3)), float(rng.uniform(0.02,
                                                                   0.15))
        pu, zr, po = [], [], []
        for i in range(n_zone):
            pu.append(pu0 if same else float(rng.uniform(0.0, 0.3)))
            zr.append(zr0 if same else float(rng.uniform(0.02, 0.15)))
            po.append(float(wl.choose(rng, [0.0, rng.uniform(0.0, 0.35)])))
        body.update({'pu_frac': pu, 'zr_frac': zr, 'porosity': po})
        ref['fuel_k'] = [['metal', pu[i], zr[i], po[i], 2.0]
                         for i in range(n_zone)]
        feats['fuel'] = 'metal' + ('' if same else '-graded')
    else:
        names, laws = [], []
        kinds = set()
        for i in range(n_zone):
            co = _pin_law(rng)
            nm = 'c13pin%d' % i
            mats[nm] = {'thermal_conductivity': co}
            names.append(nm)
            laws.append(['poly', co])
            kinds.add('oxide' if (len(co) > 1 and co[1] < 0)
                      else 'poly%d' % (len(co) - 1))
        body['pin_material'] = names
        ref['fuel_k'] = laws
        feats['fuel'] = '+'.join(sorted(kinds))
    if rng.random() < 0.3:
        body['htc_params_clad'] = [wl.loguniform(rng, 0.005, 0.05), 0.8, 0.8,
                                   float(rng.uniform(3.0, 8.0))]
        feats['htc_params'] = 'user'
        if rng.random() < 0.6:
            # Reynolds and Prandtl exponents need not be equal
            body['htc_params_clad'][1] = float(rng.uniform(0.6, 0.9))
            body['htc_params_clad'][2] = float(rng.uniform(0.3, 0.9))
            feats['htc_params'] = 'user-unequal-exponents'
    return {'section': model, 'body': body, 'materials': mats, 'ref': ref,
            'feats': feats}


def feat_key(f):
    return '/'.join('%s=%s' % (k, f[k]) for k in sorted(f))


# ----------------------------------------------------------------------
# the contract on one calculate_temperatures call


def _worst(a):
    a = np.asarray(a, dtype=float)
    i = int(np.nanargmax(a)) if np.any(np.isfinite(a)) else 0
    return i, float(a[i])


def contract(res, ref, key, q, Tc, h, atol, out, cap):
    """Evaluate every per-call monitor. Returns info for the callers
    (valid mask, error bound of the reported centre temperature)."""
    q = np.asarray(np.ma.getdata(q), dtype=float).ravel()
    n = q.shape[0]
    Tc = np.asarray(np.ma.getdata(Tc), dtype=float) + np.zeros(n)
    h = np.asarray(np.ma.getdata(h), dtype=float) + np.zeros(n)
    out = np.asarray(np.ma.getdata(out), dtype=float)
    res.count('calls_monitored')
    res.count('pins_monitored', n)
    info = {'ok': False}
    good = (out.shape == (n, 6))
    res.check('result_shape_and_coolant_echo',
              good and bool(np.array_equal(out[:, 0], Tc)),
              'result is not (n_pin x 6) with the given coolant temperature '
              'in column 0', dict(key, mech='shape'))
    if not good:
        return info
    finite = bool(np.all(np.isfinite(out)))
    res.check('finite_result', finite,
              'non-finite pin temperature returned without an error exit',
              {'mech': MECH_NONFINITE,
               'first_bad': NAMES[int(np.argmax(~np.isfinite(out).all(
                   axis=0)))]},
              {'q_max': float(np.max(q)), 'row': out[int(np.argmax(
                  ~np.isfinite(out).all(axis=1)))].tolist()})
    if not finite:
        return info
    To, Tm, Ti, Tf, Tl = (out[:, j] for j in range(1, 6))
    pos = q >= 0.0
    res.stat('q_lin_W_per_m', float(np.max(q)))
    res.stat('film_coefficient', float(np.min(h)))
    res.stat('film_coefficient', float(np.max(h)))

    # ---- the reference, layer by layer, from the reported temperatures
    c_cl = ref.clad_c(q)
    dT_ref, ok_cl = pr.solve_layer(ref.k_clad, To, c_cl)
    kmin, kmax = pr.krange(ref.k_clad, To, np.maximum(Ti, To))
    ok_cl &= (kmin > 0.0) & pos
    if ref.gap > 0.0:
        gmin, _ = pr.krange(ref.k_gap, Ti, np.maximum(Tf, Ti))
        ok_gap = ok_cl & (gmin > 0.0)
    else:
        ok_gap = ok_cl.copy()
    N, Ls, Ss, ok_f = ref.fuel_reference(q, Tf)
    ok_f &= ok_gap
    valid = ok_f
    n_out = int(np.sum(~valid))
    if n_out:
        res.count('pins_outside_material_validity', n_out)
    info.update({'ok': True, 'valid': valid, 'out': out, 'q': q})
    if not np.any(valid):
        return info
    Tabs = np.abs(Tl) + np.abs(Tc)

    # ---- 1. ordering
    d = np.diff(out, axis=1)
    dv = d[valid]
    jmin = np.unravel_index(int(np.argmin(dv)), dv.shape)
    worst = float(dv[jmin])
    res.stat('ordering_min_step_K', worst)
    res.check('ordering', worst >= -ORD_SLACK,
              'temperatures not ordered: %s - %s = %.3e K'
              % (NAMES[jmin[1] + 1], NAMES[jmin[1]], worst),
              dict(key, mech='order:%s<%s' % (NAMES[jmin[1] + 1],
                                              NAMES[jmin[1]])),
              {'row': out[valid][jmin[0]].tolist(),
               'q': float(q[valid][jmin[0]])})

    # ---- 2. zero power: everything equals the coolant temperature
    z = valid & (q == 0.0)
    if np.any(z):
        dev = float(np.max(np.abs(out[z, 1:] - Tc[z, None])))
        res.stat('zero_power_dev_K', dev)
        res.check('zero_power_equal', dev <= 1e-9,
                  'zero-power pin is not at its coolant temperature '
                  '(max dev %.3e K)' % dev, dict(key, mech='zero_power'))

    # ---- 3. film drop q'/(pi D h)
    drop = ref.film_drop(q, h)
    r = (To - Tc) - drop
    sc = np.abs(To) + np.abs(drop)
    i, _ = _worst(np.where(valid, np.abs(r) / sc, 0.0))
    res.close('film_drop', r[i], sc[i], 1e-11,
              'clad outer - coolant != q\'/(pi D h)',
              dict(key, mech='film'),
              {'q': float(q[i]), 'h': float(h[i]), 'got': float(To[i]
                                                               - Tc[i]),
               'want': float(drop[i])})

    # ---- 4. clad: (Ti - To) kbar = q' ln(ro/ri) / 2 pi
    kc = ref.k_clad
    v = valid
    cands = [pr.kmean_ends(kc, To, Ti), kc(Tm), pr.kmean_exact(kc, To, Ti)]
    with np.errstate(all='ignore'):
        rr = np.min([np.abs((Ti - To) - c_cl / kb) for kb in cands], axis=0)
        Lc, _ = pr.layer_sensitivities(kc, To, Ti - To, c_cl)
    tol_c = (SAFETY * Lc + 1e-3) * atol + 1e-10 * Tabs
    i, w = _worst(np.where(v, rr / tol_c, 0.0))
    res.stat('clad_drop_resid_K', float(np.max(np.where(v, rr, 0.0))))
    res.stat('clad_drop_resid_over_tol', w)
    res.check('clad_drop', w <= 1.0,
              'clad drop != q\' ln(ro/ri)/(2 pi k) with k at the reported '
              'temperatures: resid %.3e K, tol %.3e K' % (rr[i], tol_c[i]),
              dict(key, mech='clad'),
              {'q': float(q[i]), 'row': out[i].tolist(),
               'want': float(c_cl[i] / cands[0][i])})
    # mid-wall: q' ln(ro/rm)/(2 pi k), k anywhere in the reported clad range
    c_mw = ref.mw_c(q)
    with np.errstate(all='ignore'):
        lo = c_mw / kmax * (1.0 - 1e-9) - tol_c
        hi = c_mw / kmin * (1.0 + 1e-9) + tol_c
    dm = Tm - To
    bad = v & ((dm < lo) | (dm > hi))
    with np.errstate(all='ignore'):
        keff = np.where(dm > 0, c_mw / np.where(dm > 0, dm, 1.0), np.nan)
    res.check('clad_mid_drop', not np.any(bad),
              'clad mid-wall drop outside q\' ln(ro/rm)/(2 pi k) for every k '
              'in the reported clad temperature range',
              dict(key, mech='clad_mw'),
              {'row': out[int(np.argmax(bad))].tolist(),
               'lo': float(lo[int(np.argmax(bad))]),
               'hi': float(hi[int(np.argmax(bad))])})
    if np.any(v & (c_mw > 0)):
        sel = v & (c_mw > 0) & (dm > 0)
        if np.any(sel):
            # position of the effective conductivity inside the bracket
            res.stat('clad_mid_keff_over_kmean',
                     float(np.max(keff[sel] / cands[0][sel])))
            res.stat('clad_mid_keff_over_kmean',
                     float(np.min(keff[sel] / cands[0][sel])))

    # ---- 5. gap
    if ref.gap == 0.0:
        dev = float(np.max(np.abs(Tf[v] - Ti[v])))
        res.check('gap_drop', dev <= 1e-12 * float(np.max(Tabs)),
                  'closed gap: fuel surface != clad inner (%.3e K)' % dev,
                  dict(key, mech='gap_closed'))
        res.count('gap_drop_closed')
    else:
        with np.errstate(all='ignore'):
            r1 = np.abs(Tf - ref.gap_map(q, Ti, Tf))
            r2 = np.abs(Tf - ref.gap_cyl_map(q, Ti, Tf))
            hh = 0.01
            Lg = np.abs(ref.gap_map(q, Ti, Tf + hh)
                        - ref.gap_map(q, Ti, Tf - hh)) / (2 * hh)
        rg = np.minimum(r1, r2)
        tol_g = (SAFETY * Lg + 1e-3) * atol + 1e-10 * Tabs
        i, w = _worst(np.where(v, rg / tol_g, 0.0))
        res.stat('gap_drop_resid_K', float(np.max(np.where(v, rg, 0.0))))
        res.stat('gap_drop_resid_over_tol', w)
        res.stat('gap_drop_K', float(np.max((Tf - Ti)[v])))
        res.check('gap_drop', w <= 1.0,
                  'gap: q\'/(2 pi r_f) != k_gap/delta dT + eps sigma dT^4 '
                  'with k at the reported temperatures: resid %.3e K, tol '
                  '%.3e K' % (rg[i], tol_g[i]), dict(key, mech='gap'),
                  {'q': float(q[i]), 'row': out[i].tolist(),
                   'planar_resid': float(r1[i]), 'cyl_resid': float(r2[i])})
        res.count('gap_drop_open')

    # ---- 6. fuel centre against the independent shell-by-shell solve
    nz = ref.n_zone
    err = np.zeros(n)
    for i in reversed(range(nz)):
        with np.errstate(all='ignore'):
            err = Ss[i] * err + (SAFETY * Ls[i] + 1e-3) * atol
    tol_l = err + 1e-10 * Tabs
    info['tol_cl'] = tol_l
    rl = np.abs(Tl - N[0])
    i, w = _worst(np.where(v, rl / tol_l, 0.0))
    res.stat('fuel_centre_resid_K', float(np.max(np.where(v, rl, 0.0))))
    res.stat('fuel_centre_resid_over_tol', w)
    res.stat('fuel_rise_K', float(np.max((Tl - Tf)[v])))
    mech = 'fuel_centre'
    if w > 1.0 and ref.annular:
        # does the solid-cylinder shell formula explain the reported value?
        N2, L2, S2, ok2 = ref.fuel_reference(q, Tf, solid_formula=True)
        e2 = np.zeros(n)
        for i2 in reversed(range(nz)):
            with np.errstate(all='ignore'):
                e2 = S2[i2] * e2 + (SAFETY * L2[i2] + 1e-3) * atol
        bad = v & (rl > tol_l)
        if np.all(np.abs(Tl - N2[0])[bad] <= e2[bad] + 1e-10 * Tabs[bad]):
            mech = MECH_ANNULAR
    res.check('fuel_centre_reference', w <= 1.0,
              'fuel centre differs from the shell-by-shell reference by '
              '%.4g K (tol %.3g K; q\' %.4g W/m, %d zones, r0/rf %.3f)'
              % (rl[i], tol_l[i], q[i], nz, ref.r0 / ref.rf),
              _mkey(key, mech),
              {'row': out[i].tolist(), 'ref_centre': float(N[0][i]),
               'q': float(q[i])})

    # ---- 7. every fuel shell, with the node temperatures the model used
    M = _nodes_from_capture(cap, nz, Tf, Tl)
    if M is None:
        res.count('fuel_shell_capture_unparsed')
    else:
        qv = q / ref.area
        for i in reversed(range(nz)):
            kf = ref.k_fuel[i]
            Tout, Tin = M[i + 1], M[i]
            c = qv * ref.G(i)
            with np.errstate(all='ignore'):
                ra = np.minimum(
                    np.abs((Tin - Tout) - c / pr.kmean_ends(kf, Tout, Tin)),
                    np.abs((Tin - Tout) - c / pr.kmean_exact(kf, Tout, Tin)))
                Li, _ = pr.layer_sensitivities(kf, Tout, Tin - Tout, c)
            tol_i = (SAFETY * Li + 1e-3) * atol + 1e-10 * Tabs
            j, w = _worst(np.where(v, ra / tol_i, 0.0))
            mech = 'fuel_shell'
            if w > 1.0 and ref.annular:
                # does the solid-cylinder shell formula explain it?
                c2 = qv * ref.G(i, solid_formula=True)
                with np.errstate(all='ignore'):
                    r2 = np.abs((Tin - Tout)
                                - c2 / pr.kmean_ends(kf, Tout, Tin))
                    Li2, _ = pr.layer_sensitivities(kf, Tout, Tin - Tout, c2)
                tol2 = (SAFETY * Li2 + 1e-3) * atol + 1e-10 * Tabs
                bad = v & (ra > tol_i)
                if np.all(r2[bad] <= tol2[bad]):
                    mech = MECH_ANNULAR
            res.stat('fuel_shell_resid_over_tol', w)
            res.stat('fuel_shell_resid_K',
                     float(np.max(np.where(v, ra, 0.0))))
            res.check('fuel_shell_conduction', w <= 1.0,
                      'fuel shell %d of %d: dT %.6g K != q\'\'\' G / k with k '
                      'at the shell temperatures (resid %.3e K, tol %.3e K)'
                      % (i, nz, (Tin - Tout)[j], ra[j], tol_i[j]),
                      _mkey(key, mech),
                      {'q': float(q[j]), 'T_out': float(Tout[j]),
                       'T_in': float(Tin[j]),
                       'want_dT': float(c[j] / pr.kmean_ends(
                           kf, Tout, Tin)[j])})
    return info


def _mkey(key, mech):
    """Violation key: a recognised mechanism is identified by itself, an
    unexplained failure keeps the features of the pin."""
    if mech == MECH_ANNULAR:
        return {'mech': mech, 'annular': True}
    return dict(key, mech=mech)


def _nodes_from_capture(cap, nz, Tf, Tl):
    """Node temperatures used by calc_fuel_temps, from the recorded
    _fuel_cond(i, T) calls: the first call for shell i carries the
    temperature of its outer boundary."""
    if not cap:
        return None
    first = []
    last_i = None
    for i, T in cap:
        if i != last_i:
            first.append((i, T))
            last_i = i
    if [i for i, _ in first] != list(reversed(range(nz))):
        return None
    M = [None] * (nz + 1)
    for i, T in first:
        M[i + 1] = np.asarray(T, dtype=float) + 0.0 * Tf
    M[0] = Tl
    if not np.array_equal(M[nz], Tf):
        return None
    return M


class PinMonitor(object):
    """Hooks on the real PinModel: every calculate_temperatures call of a
    registered model instance is put through `contract`."""

    def __init__(self, hk, res):
        self.res = res
        self.refs = {}
        self.enabled = True
        self.cap = None
        self.last = None
        self.n_calls = 0
        hk.wrap(PinModel, 'calculate_temperatures', pre=self._pre,
                post=self._post)
        hk.wrap(PinModel, '_fuel_cond', post=self._fc)

    def register(self, pm, ref, key):
        self.refs[id(pm)] = (pm, ref, key)

    def _pre(self, args, kwargs):
        self.cap = []
        self.last = None
        return None

    def _fc(self, args, kwargs, result, tok):
        if self.cap is not None and len(self.cap) < 4000:
            self.cap.append((int(args[1]),
                             np.array(np.ma.getdata(args[2]), dtype=float,
                                      copy=True)))

    def _post(self, args, kwargs, result, tok):
        cap, self.cap = self.cap, None
        self.n_calls += 1
        ent = self.refs.get(id(args[0]))
        if not self.enabled:
            return
        if ent is None:
            self.res.count('calls_of_unregistered_model')
            return
        names = ['q_lin', 'T_cool', 'htc', 'dz', 'atol']
        a = dict(zip(names, args[1:]))
        a.update(kwargs)
        atol = float(a.get('atol', ATOL_DEFAULT))
        self.last = contract(self.res, ent[1], ent[2], a['q_lin'],
                             a['T_cool'], a['htc'], atol, result, cap)
        self.last['args'] = a
        self.last['result'] = result


# ----------------------------------------------------------------------
# pin-adjacent coolant average


def geometric_adjacency(reg):
    """pins x coolant-subchannels boolean matrix from the published centre
    coordinates: a subchannel touches a pin iff its centroid is closer than
    0.82 pitch (touching: <= ~0.7 P, next nearest: >= 1.07 P)."""
    n_sc = reg.subchannel.n_sc['coolant']['total']
    sxy = np.asarray(reg.subchannel.xy[:n_sc], dtype=float)[:, :2]
    pxy = np.asarray(reg.pin_lattice.xy, dtype=float)[:, :2]
    dist = np.linalg.norm(pxy[:, None, :] - sxy[None, :, :], axis=2)
    return dist < 0.82 * reg.pin_pitch


def perimeter_fractions(reg):
    """Fraction of a pin's circumference facing a subchannel of each kind:
    interior 60 deg, edge 90 deg, corner 60 deg."""
    n_sc = reg.subchannel.n_sc['coolant']['total']
    typ = np.asarray(reg.subchannel.type[:n_sc])
    return np.array([1.0 / 6.0, 0.25, 1.0 / 6.0])[typ]


def probe_weights(res, mon, reg, rng, key):
    n_sc = reg.subchannel.n_sc['coolant']['total']
    n_pin = reg.n_pin
    saved_T = reg.temp['coolant_int'].copy()
    saved_p = reg.pin_temps.copy()
    was = mon.enabled
    mon.enabled = False
    try:
        base, delta = 700.0, 64.0
        with drive.quiet():
            reg.temp['coolant_int'][:] = base
            reg.calculate_pin_temperatures(0.01, None)
            T0 = reg.pin_temps[:, 3].copy()
            W = np.zeros((n_pin, n_sc))
            for s in range(n_sc):
                reg.temp['coolant_int'][:] = base
                reg.temp['coolant_int'][s] = base + delta
                reg.calculate_pin_temperatures(0.01, None)
                W[:, s] = (reg.pin_temps[:, 3] - T0) / delta
            field = 600.0 + 300.0 * rng.random(n_sc)
            reg.temp['coolant_int'][:] = field
            reg.calculate_pin_temperatures(0.01, None)
            Tp = reg.pin_temps[:, 3].copy()
    finally:
        mon.enabled = was
        reg.temp['coolant_int'][:] = saved_T
        reg.pin_temps[...] = saved_p
    A = geometric_adjacency(reg)
    res.stat('adjacent_subchannels_per_pin', float(np.min(A.sum(axis=1))))
    res.stat('adjacent_subchannels_per_pin', float(np.max(A.sum(axis=1))))
    k = dict(key, nr=int(reg.n_ring))
    rs = W.sum(axis=1)
    res.stat('weights_min', float(W.min()))
    res.stat('weights_rowsum_dev', float(np.max(np.abs(rs - 1.0))))
    res.check('pin_coolant_weights_convex',
              W.min() >= -1e-11 and float(np.max(np.abs(rs - 1.0))) <= 1e-11
              and float(np.max(np.abs(T0 - base))) <= 1e-9,
              'pin coolant weights negative or not summing to one (min %.3e,'
              ' row-sum dev %.3e)' % (W.min(), np.max(np.abs(rs - 1.0))),
              dict(k, mech='weights_convex'),
              {'pin': int(np.argmax(np.abs(rs - 1.0)))})
    stray = np.abs(W) * (~A)
    res.check('pin_coolant_weights_adjacent', float(stray.max()) <= 1e-11,
              'pin coolant temperature depends on a non-adjacent subchannel '
              '(weight %.3e)' % stray.max(), dict(k, mech='weights_stray'),
              {'pin_sc': [int(x) for x in np.unravel_index(
                  int(np.argmax(stray)), stray.shape)]})
    lin = float(np.max(np.abs(Tp - W @ field)))
    res.check('pin_coolant_linear', lin <= 1e-9,
              'pin coolant temperature is not the probed linear map of the '
              'coolant field (%.3e K)' % lin, dict(k, mech='weights_linear'))
    Wp = A * perimeter_fractions(reg)[None, :]
    res.stat('weights_minus_perimeter_fraction',
             float(np.max(np.abs(W - Wp))))
    res.stat('perimeter_fraction_rowsum_dev',
             float(np.max(np.abs(Wp.sum(axis=1) - 1.0))))
    res.tag('weights_probed_nr=%d' % reg.n_ring)
    return W, A


class RegionMonitor(object):
    """Post-condition of RoddedRegion.calculate_pin_temperatures."""

    def __init__(self, hk, res, mon, key):
        self.res = res
        self.mon = mon
        self.key = key
        self.adj = {}
        self.W = {}          # id(region) -> (region, probed weight matrix)
        self.enabled = True
        self.max_rise = 0.0
        hk.wrap(RoddedRegion, 'calculate_pin_temperatures', post=self._post)

    def _post(self, args, kwargs, result, tok):
        if not self.enabled or not self.mon.enabled:
            return
        reg = args[0]
        last = self.mon.last
        res = self.res
        if last is None or not last.get('ok'):
            res.count('region_calls_without_model_call')
            return
        a = dict(zip(['dz', 'pin_powers'], args[1:]))
        a.update(kwargs)
        pw = a.get('pin_powers')
        pw = np.zeros(reg.n_pin) if pw is None else np.asarray(pw, float)
        same = (np.array_equal(reg.pin_temps[:, 3:],
                               np.asarray(last['result'], dtype=float))
                and np.array_equal(pw, last['q'])
                and float(last['args']['dz']) == float(a['dz']))
        res.check('region_stores_model_result', same,
                  'pin_temps[:, 3:] is not the model result for this step\'s '
                  'pin powers', dict(self.key, mech='wiring'))
        if not hasattr(self, 'stored'):
            self.stored = {}
        self.stored[id(reg)] = np.array(last['result'], dtype=float,
                                        copy=True)
        hp = getattr(self.mon, 'user_htc', {}).get(id(reg))
        if hp is not None:
            # the film coefficient handed to the model is the one the
            # clad-film parameters of the INPUT give with this step's
            # coolant state: h = (k / De) (c0 Re^c1 Pr^c2 + c3)
            co = reg.coolant
            Pr = co.heat_capacity * co.viscosity / co.thermal_conductivity
            Re = float(reg.coolant_int_params['Re'])
            h_exp = co.thermal_conductivity / float(
                reg.bundle_params['de']) * (hp[0] * Re ** hp[1]
                                            * Pr ** hp[2] + hp[3])
            h_got = np.asarray(last['args']['htc'], dtype=float)
            res.close('film_coefficient_from_input_parameters',
                      float(np.max(np.abs(h_got - h_exp))), abs(h_exp),
                      1e-10, 'film coefficient handed to the pin model is '
                      'not (k/De)(c0 Re^c1 Pr^c2 + c3) of the input\'s '
                      'htc_params_clad', dict(self.key, mech='film_params',
                                              equal_exponents=bool(
                                                  hp[1] == hp[2])),
                      {'got': float(np.ravel(h_got)[0]), 'exp': float(h_exp),
                       'params': hp, 'Re': Re, 'Pr': float(Pr)})
        A = self.adj.get(id(reg.subchannel))
        if A is None:
            A = geometric_adjacency(reg)
            self.adj[id(reg.subchannel)] = A
        T = reg.temp['coolant_int']
        n_sc = A.shape[1]
        Tsc = np.asarray(T[:n_sc], dtype=float)
        big = np.where(A, Tsc[None, :], -np.inf).max(axis=1)
        sml = np.where(A, Tsc[None, :], np.inf).min(axis=1)
        Tp = reg.pin_temps[:, 3]
        slack = 1e-10 * np.abs(Tp)
        bad = (Tp > big + slack) | (Tp < sml - slack)
        res.stat('adjacent_coolant_spread_K', float(np.max(big - sml)))
        res.check('pin_coolant_within_adjacent', not np.any(bad),
                  'pin coolant temperature outside the range of its adjacent '
                  'subchannels', dict(self.key, mech='weights_range'),
                  {'pin': int(np.argmax(bad)),
                   'T': float(Tp[int(np.argmax(bad))]),
                   'lo': float(sml[int(np.argmax(bad))]),
                   'hi': float(big[int(np.argmax(bad))])})
        ent = self.W.get(id(reg))
        if ent is not None:
            dev = float(np.max(np.abs(Tp - ent[1] @ Tsc)))
            res.stat('pin_coolant_minus_probed_average_K', dev)
            res.check('pin_coolant_is_probed_average',
                      dev <= 1e-10 * float(np.max(np.abs(Tp))),
                      'pin coolant temperature of this step is not the probed '
                      'adjacent-subchannel average of this step\'s coolant '
                      'field (%.3e K)' % dev,
                      dict(self.key, mech='weights_stale_or_state_dependent'))
        v = last.get('valid')
        if v is not None and np.any(v):
            out = last['out']
            self.max_rise = max(self.max_rise,
                                float(np.max((out[:, 5] - out[:, 0])[v])))


# ----------------------------------------------------------------------
# cases


def cases(tier, seed):
    q = (tier == 'quick')
    out = []
    for i in range(200 if q else 2400):
        out.append({'name': 'direct-%d' % i, 'kind': 'direct',
                    'seed': [seed, 1, i], 'tier': tier})
    for i in range(44 if q else 450):
        out.append({'name': 'sweep-%d' % i, 'kind': 'sweep',
                    'seed': [seed, 2, i], 'tier': tier})
    for i in range(6 if q else 45):
        out.append({'name': 'core-%d' % i, 'kind': 'core',
                    'seed': [seed, 3, i], 'tier': tier})
    rings = [2, 3, 4, 5, 6, 8] if q else list(range(2, 13)) + [15]
    for nr in rings:
        out.append({'name': 'weights-nr%d' % nr, 'kind': 'weights',
                    'seed': [seed, 4, nr], 'nr': nr, 'tier': tier})
    return out


def _tiny_problem(rng, pin_of):
    """Smallest problem that carries a pin section through the input file."""
    nr = int(wl.choose(rng, [2, 2, 3]))
    P, feats = wl.single_assembly(rng, nr=nr, tdep=False, gap='none',
                                  lf=False, regions=False, n_duct=1,
                                  conv_approx=False,
                                  corr=('MIT', 'CTD', 'CTD'), vel=2.0)
    t = P['types']['a']
    pin = pin_of(t)
    t[pin['section']] = pin['body']
    P['materials'].update(pin['materials'])
    return P, pin


def _mk_material(name, spec):
    if spec[0] == 'builtin':
        return dassh.Material(spec[1])
    return dassh.Material(name, coeff_dict={'thermal_conductivity':
                                            list(spec[1])})


def _construct_directly(rng, pin):
    """PinModel through its constructor: reaches emissivity and beta."""
    ref = pin['ref']
    body = pin['body']
    e = float(rng.uniform(0.0, 1.0))
    ref['emissivity'] = e
    params = {'htc_params_clad': [0.025, 0.8, 0.8, 7.0],
              'gap_thickness': ref['gap'], 'r_frac': list(ref['r_frac']),
              'emissivity': e}
    clad = _mk_material('c13clad', ref['clad_k'])
    gap = _mk_material('c13gap', ref['gap_k']) if ref['gap_k'] else None
    with drive.quiet():
        if pin['section'] == 'FuelModel':
            beta = float(wl.choose(rng, [2.0, 2.0, 1.7, 3.0]))
            ref['fuel_k'] = [s[:4] + [beta] for s in ref['fuel_k']]
            params.update({k: list(body[k]) for k in ('pu_frac', 'zr_frac',
                                                      'porosity')})
            pm = PinModel(ref['d_pin'], ref['clad_t'], clad,
                          fuel_params=params, gap_mat=gap, beta=beta)
        else:
            params['pin_material'] = [
                _mk_material('c13pin%d' % i, s)
                for i, s in enumerate(ref['fuel_k'])]
            pm = PinModel(ref['d_pin'], ref['clad_t'], clad,
                          pin_params=params, gap_mat=gap)
    return pm


def _reject_tag(msgs):
    txt = ' '.join(m for _, m in msgs)
    if 'did not converge' in txt:
        for w in ('Clad', 'Fuel-clad gap', 'Fuel CL'):
            if w + ' temperature' in txt:
                return 'nonconvergence:' + w.replace(' ', '_')
        return 'nonconvergence'
    if 'thermal conductivity must' in txt:
        return 'negative_conductivity'
    if 'temperature must' in txt:
        return 'nonpositive_temperature'
    return 'other'


def run_direct(case, res):
    rng = np.random.default_rng(case['seed'])
    via_input = rng.random() < 0.7
    env.log_records()
    with drive.scratch() as d, Hooks() as hk:
        mon = PinMonitor(hk, res)
        try:
            if via_input:
                P, pin = _tiny_problem(
                    rng, lambda t: random_pin(rng, t['pin_diameter'],
                                              t['clad_thickness']))
                inp, r = drive.build(P, d)
                pm = r.assemblies[0].rodded.pin_model
            else:
                D = wl.loguniform(rng, 0.004, 0.03)
                pin = random_pin(rng, D, D * float(rng.uniform(0.05, 0.14)))
                try:
                    pm = _construct_directly(rng, pin)
                except SystemExit:
                    raise drive.Rejected('setup', env.log_records())
        except drive.Rejected as e:
            res.status('rejected', str(e))
            res.tag('rejected:' + e.stage)
            return
        feats = dict(pin['feats'], via=('input' if via_input else 'ctor'))
        for k, v in feats.items():
            res.tag('%s=%s' % (k, v))
        ref = pr.PinRef(pin['ref'])
        key = {'model': feats['model'], 'annular': feats['annular'],
               'gap': feats['gap'], 'where': 'direct'}
        mon.register(pm, ref, key)
        n = 10
        w = rng.uniform(0.3, 1.0, n)
        w[rng.random(n) < 0.2] = 0.0
        if not np.any(w == 0.0):
            w[int(rng.integers(n))] = 0.0
        Tc = rng.uniform(550.0, 1150.0, n)
        if rng.random() < 0.5:
            h = np.exp(rng.uniform(np.log(2e3), np.log(4e5), n))
        else:
            h = wl.loguniform(rng, 2e3, 4e5)
        n_lvl = 12 if case.get('tier') == 'quick' else 20
        levels = np.concatenate([[0.0], np.sort(np.exp(rng.uniform(
            np.log(50.0), np.log(1.5e6), n_lvl)))])
        atol_kw = {}
        if rng.random() < 0.25:
            atol_kw = {'atol': float(wl.choose(rng, [1e-6, 1e-4, 1e-2]))}
            res.tag('atol=%g' % atol_kw['atol'])
        prev = None
        n_ok = 0
        rise = 0.0
        for lv in levels:
            dz = wl.loguniform(rng, 1e-4, 0.2)
            q = lv * w
            env.log_records()
            try:
                with drive.quiet():
                    out = pm.calculate_temperatures(q, Tc.copy(), h, dz,
                                                    **atol_kw)
            except SystemExit:
                msgs = env.log_records()
                res.count('direct_calls_rejected_by_dassh')
                res.tag('rejected_call:' + _reject_tag(msgs))
                res.stat('rejected_at_q_lin', float(lv))
                continue
            info = mon.last
            if info is None or not info.get('ok'):
                continue
            n_ok += 1
            v = info['valid']
            if np.any(v):
                rise = max(rise, float(np.max((out[:, 5] - out[:, 0])[v])))
            # monotone in power (same coolant temperature and film coeff.)
            if prev is not None and lv >= 1.02 * prev['lv']:
                both = v & prev['valid']
                if np.any(both):
                    slack = (info['tol_cl'] + prev['tol_cl'] + ORD_SLACK)
                    dd = (out[:, 1:] - prev['out'][:, 1:]) + slack[:, None]
                    dd = dd[both]
                    pw = both & (w > 0.0)
                    if np.any(pw):
                        res.stat('monotone_min_increment_K', float(np.min(
                            (out[:, 1:] - prev['out'][:, 1:])[pw])))
                    j = np.unravel_index(int(np.argmin(dd)), dd.shape)
                    res.check('monotone_in_power', float(dd[j]) >= 0.0,
                              'raising the linear power lowered %s by %.3e K'
                              % (NAMES[j[1] + 1], -float(dd[j])),
                              dict(key, mech='monotone:' + NAMES[j[1] + 1]),
                              {'q_lo': float(prev['lv']), 'q_hi': float(lv)})
            prev = {'lv': lv, 'valid': v, 'out': np.array(out, copy=True),
                    'tol_cl': info['tol_cl']}
        res.stat('direct_max_centre_minus_coolant_K', rise)
        if n_ok == 0:
            res.status('rejected', 'every level rejected by dassh')
            return
        if rise >= 20.0:
            res.nontrivial('direct/' + feat_key(pin['feats']))
        res.sample({'case': case, 'features': feats, 'pin': pin['ref'],
                    'levels_W_per_m': [float(x) for x in levels],
                    'calls_ok': n_ok})


def _add_pins_to_types(rng, P, res, p_model=None):
    pins = {}
    for tn, t in P['types'].items():
        if t.get('use_low_fidelity_model'):
            continue
        pin = random_pin(rng, t['pin_diameter'], t['clad_thickness'],
                         model=p_model)
        # one Materials section for the whole input: make names unique
        ren = {}
        for nm in list(pin['materials']):
            ren[nm] = '%s_%s' % (nm, tn)
        body = pin['body']
        for k in ('clad_material', 'gap_material'):
            if body.get(k) in ren:
                body[k] = ren[body[k]]
        if 'pin_material' in body:
            body['pin_material'] = [ren.get(x, x) for x in
                                    body['pin_material']]
        for old, new in ren.items():
            P['materials'][new] = pin['materials'][old]
        t[pin['section']] = body
        pins[tn] = pin
        for k, v in pin['feats'].items():
            res.tag('%s=%s' % (k, v))
    return pins


def _register_all(r, P, pins, mon, where):
    type_of = {}
    for a in r.assemblies:
        type_of[a.id] = a.name
    n = 0
    for a in r.assemblies:
        pin = pins.get(a.name)
        if pin is None or not a.has_rodded:
            continue
        reg = a.rodded
        if not hasattr(reg, 'pin_model'):
            continue
        f = pin['feats']
        key = {'model': f['model'], 'annular': f['annular'],
               'gap': f['gap'], 'where': where}
        mon.register(reg.pin_model, pr.PinRef(pin['ref']), key)
        hp = pin['body'].get('htc_params_clad')
        if hp is not None:
            if not hasattr(mon, 'user_htc'):
                mon.user_htc = {}
            mon.user_htc[id(reg)] = [float(x) for x in hp]
        n += 1
    return n


def _scale_power(rng, P, over, res):
    """Bring the mean pin linear power of every position into
    3 kW/m .. 80 kW/m (x `over`), keeping the coolant rise <= ~400 K."""
    for k0s, spec in P['power']['asm'].items():
        a = [p for p in P['positions']
             if gen.pos_index0(p['ring'], p['pos']) == int(k0s)][0]
        t = P['types'][a['type']]
        comps = spec.get('comps', [1, 2, 3])
        if 1 not in comps or spec.get('shape') == 'zero':
            continue
        frac = spec.get('frac', [0.9, 0.06, 0.04])
        fpin = frac[0] / sum(frac[c - 1] for c in comps)
        qbar = spec['total'] * fpin / (gen.n_pin(t['num_rings'])
                                       * P['length'])
        rise = spec['total'] / (a['flowrate'] * gen.CP)
        target = wl.loguniform(rng, 3e3, 8e4) * over
        f = min(target / qbar, 400.0 / rise)
        spec['total'] *= f
        res.stat('generated_mean_q_lin_W_per_m', qbar * f)
        res.stat('generated_coolant_rise_K', rise * f)


def run_sweep(case, res):
    rng = np.random.default_rng(case['seed'])
    quick = case.get('tier') == 'quick'
    if case['kind'] == 'core':
        P, feats = wl.core_problem(rng, n_ring=2, tdep=(rng.random() < 0.3),
                                   gap=wl.choose(rng, ['flow', 'none']),
                                   empty_frac=0.3, max_rings=3 if quick
                                   else 4, lf_frac=0.1, vel_range=(0.5, 6.0))
        over = float(wl.choose(rng, [1.0, 2.0]))
    else:
        tdep = bool(rng.random() < 0.35)
        P, feats = wl.single_assembly(
            rng, tdep=tdep, lf=False, max_rings=(4 if quick else 7),
            gap=wl.choose(rng, ['none', 'none', 'flow']),
            vel=wl.loguniform(rng, 0.4, 8.0),
            length=float(wl.choose(rng, [0.5, 1.0])))
        over = float(wl.choose(rng, [1.0, 1.0, 2.0, 4.0]))
    _scale_power(rng, P, over, res)
    pins = _add_pins_to_types(rng, P, res)
    if not pins:
        res.status('rejected', 'no pin-bundle type in this draw')
        return
    key0 = {'where': case['kind']}
    try:
        with drive.scratch() as d, Hooks() as hk:
            inp, r = drive.build(P, d)
            cap_steps = 1500 if quick else 6000
            if len(r.z) > cap_steps:
                res.status('rejected', 'too many steps (%d)' % len(r.z))
                res.tag('skipped_too_many_steps')
                return
            mon = PinMonitor(hk, res)
            n_reg = _register_all(r, P, pins, mon, case['kind'])
            rm = RegionMonitor(hk, res, mon, key0)
            probe_at = {1}
            prng = np.random.default_rng(case['seed'] + [77])

            def after(i):
                # at the end of the reactor step every assembly still holds
                # its OWN pin temperatures of this step (and its own id)
                for a in r.assemblies:
                    if not a.has_rodded or not hasattr(a.rodded, 'pin_model'):
                        continue
                    reg = a.active_region
                    st = getattr(rm, 'stored', {}).get(id(reg))
                    if st is None or not reg.is_rodded:
                        continue
                    ok = bool(np.array_equal(np.asarray(
                        reg.pin_temps[:, 3:], dtype=float), st))
                    res.check('pin_record_is_own_at_end_of_step', ok and bool(
                        np.all(reg.pin_temps[:, 0] == a.id)),
                        'after the reactor step assembly %d no longer holds '
                        'its own pin temperatures of this step (or they '
                        'carry another assembly\'s id)' % a.id,
                        dict(key0, mech='pin_record_shared'))
                if i in probe_at:
                    done = 0
                    for a in r.assemblies:
                        reg = a.active_region
                        if hasattr(reg, 'pin_model') and reg.n_ring <= 5 \
                                and done < 2:
                            W, _ = probe_weights(res, mon, reg, prng, key0)
                            rm.W[id(reg)] = (reg, W)
                            done += 1
            def fresh(args, kwargs, result, tok):
                # after EVERY axial step of an assembly whose active region
                # carries a pin model (heated or not) the pin record is that
                # of this step: its coolant column is the average of the
                # adjacent subchannels of the coolant just computed, and it
                # carries this step's height
                a = args[0]
                reg = a.active_region
                if not hasattr(reg, 'pin_model') or not reg.is_rodded:
                    return
                Tsc = np.asarray(reg.temp['coolant_int'], dtype=float)
                adj = np.asarray(reg.subchannel.pin_adj)
                w = np.asarray(reg._q_p2sc, dtype=float)
                own = np.where(adj >= 0, (Tsc * w)[np.clip(adj, 0, None)],
                               0.0).sum(axis=1)
                got = np.asarray(reg.pin_temps[:, 3], dtype=float)
                dev = float(np.max(np.abs(got - own)))
                z = kwargs.get('z', args[4] if len(args) > 4 else None)
                z_ok = True if z is None else bool(
                    np.all(np.abs(reg.pin_temps[:, 1] - float(z)) <= 1e-9))
                res.check('pin_record_refreshed_every_step',
                          dev <= 1e-8 and z_ok,
                          'after a step of assembly %d the pin record does '
                          'not belong to this step: coolant column differs '
                          'from the adjacent-subchannel average of the new '
                          'coolant by %.3e K (height ok: %s)'
                          % (a.id, dev, z_ok),
                          dict(key0, mech='pin_record_stale'),
                          {'asm': a.id, 'dev': dev})

            from dassh.assembly import Assembly
            hk.wrap(Assembly, 'calculate', post=fresh)
            try:
                drive.sweep(r, on_step=after)
            finally:
                res.stat('sweep_max_centre_minus_coolant_K', rm.max_rise)
                res.count('sweep_model_calls', mon.n_calls)
            for a in r.assemblies:
                if a.has_rodded and hasattr(a.rodded, 'pin_model'):
                    res.tag('swept_nr=%d' % a.rodded.n_ring)
            if rm.max_rise >= 20.0 and mon.n_calls >= 10:
                res.nontrivial('%s/%s' % (case['kind'], '|'.join(
                    feat_key(p['feats']) + '/nr%s' % P['types'][tn][
                        'num_rings'] for tn, p in sorted(pins.items()))))
            res.sample({'case': case, 'features': feats,
                        'pins': {tn: p['ref'] for tn, p in pins.items()},
                        'model_calls': mon.n_calls, 'steps': len(r.z)})
    except drive.Rejected as e:
        res.status('rejected', str(e))
        res.tag('rejected:%s:%s' % (e.stage, _reject_tag(e.messages)))


def run_weights(case, res):
    rng = np.random.default_rng(case['seed'])
    nr = int(case['nr'])
    P, feats = wl.single_assembly(rng, nr=nr, tdep=False, gap='none',
                                  lf=False, regions=False,
                                  n_duct=int(wl.choose(rng, [1, 2])),
                                  conv_approx=False, vel=2.0)
    pins = _add_pins_to_types(rng, P, res)
    try:
        with drive.scratch() as d, Hooks() as hk:
            inp, r = drive.build(P, d)
            mon = PinMonitor(hk, res)
            _register_all(r, P, pins, mon, 'weights')
            reg = r.assemblies[0].rodded
            probe_weights(res, mon, reg, rng, {'where': 'weights'})
            res.nontrivial('weights/nr%d' % nr)
            res.sample({'case': case, 'n_pin': int(reg.n_pin),
                        'n_subchannel': int(
                            reg.subchannel.n_sc['coolant']['total'])})
    except drive.Rejected as e:
        res.status('rejected', str(e))
        res.tag('rejected:' + e.stage)


def run_case(case):
    res = Result(case)
    if case['kind'] == 'direct':
        run_direct(case, res)
    elif case['kind'] in ('sweep', 'core'):
        run_sweep(case, res)
    else:
        run_weights(case, res)
    return res


def classify(v, case):
    k = v.get('key', {}) or {}
    if v['monitor'] in ('fuel_centre_reference', 'fuel_shell_conduction') \
            and k.get('mech') == MECH_ANNULAR and k.get('annular'):
        return F_ANNULAR
    if v['monitor'] == 'finite_result' and k.get('mech') == MECH_NONFINITE:
        return F_NONFINITE
    return None
