"""C10 - duct<->gap mesh mapping is positive, exact on constants, conservative.

Contract on the REAL dassh.mesh_functions._map_asm2gap / map_across_gap.

Two workloads:
  direct   ('grid', 'near', 'witness'): real cores are built, then the check
           itself calls the real region.calculate_xbnds(), the real
           Core._calculate_gap_xbnds() and the real _map_asm2gap on every
           (assembly, axial region) of the build;
  hooked   ('core', 'split'): _map_asm2gap and map_across_gap are wrapped
           with Hooks() while the real Reactor is built and marched for some
           axial steps, so every real call is monitored with the arguments and
           matrices DASSH itself used.

Oracle (cell widths come from the boundary arrays handed to the function):
  M1  all entries of both matrices >= 0
  M2  both matrices reproduce constants (row sums 1 on live rows; padded
      rows/columns exactly zero), also through the real map_across_gap
  M3  detailed balance  w_d M[d,g] == w_g N[g,d]   (M gap->duct, N duct->gap),
      evaluated separately for the split top-corner gap cell
  M4  perimeter-weighted integrals of random vectors preserved both ways
  M5  identity when the two meshes coincide
  U*  the same statements on the vectors DASSH really maps during a sweep
"""
import numpy as np
from vmon import gen, drive, workloads as wl, env
from vmon.harness import Result
from vmon.probe import Hooks

PROPERTY = 'C10'
LEVEL = 'exploration'
TECHNIQUE = ('runtime monitoring: algebraic contract (non-negativity, '
             'partition of unity, detailed balance with widths from the '
             'boundary arrays, integral preservation on random vectors, '
             'identity on equal meshes) evaluated on every matrix returned by '
             'the real _map_asm2gap, called directly on real meshes and '
             'hooked inside real Reactor builds and sweeps')
LEVEL_TEXT = ('Every (region mesh, gap mesh) pair of generated cores - ring '
              'counts 2..15 and corner-only meshes against each other, '
              'unequal pitches/corners, per-side mixed neighbours - is '
              'checked to 1e-9 of a cell width; held on the executions '
              'observed, not proved for all real-valued meshes.')
LEVEL_NOTE = ('Trusts numpy arithmetic. Widths are differences of the '
              'boundary arrays produced by the real calculate_xbnds / '
              '_calculate_gap_xbnds (their geometric correctness is C08/C09); '
              'num_rings = 1 is rejected by DASSH itself, the zero-edge '
              '(corner-only) mesh is reached through unrodded regions.')
DESIGN_REF = 'DESIGN.md section 3, C10'
RULE = ('grid (direct calls, ring-pair space covered exhaustively in both '
        'tiers): for every ordered pair (A, B) of mesh classes {corner-only, '
        '2..15 rings} a 7-position core with A at the centre and a random '
        'A/B/empty pattern around it (random pin pitch, wall, pin-to-wall '
        'gap, 1-3 ducts, optional unrodded axial regions), every distinct '
        '(region mesh, gap mesh) pair of the build mapped directly; '
        'core/split (hooked): random 7..61-position cores with 2-5 types, '
        'empty positions, low-fidelity and multi-region assemblies (split: '
        'alternating neighbours so that hex sides 5 and 0 get their mesh '
        'from different assemblies, the finer one with the wider corner), '
        'built and marched 25-300 steps incl. the first region change; '
        'near: two types whose pitches differ by 1e-7..1e-5 relative; '
        'witness: hand-written minimal pair for the split corner. A case is '
        'non-trivial when at least one checked pair has different duct and '
        'gap meshes; distinct by (kind, ring counts, ducts, pattern)')
RULE += (' Later rounds added: duct pairs written (outer, inner); perimeters from the input; shared edge-cell widths; convection constants; the duct->gap use site.')
DECIDING = ['M1_nonneg', 'M2_const_gap2duct', 'M2_const_duct2gap',
            'M3_detailed_balance', 'M3_detailed_balance_split_corner',
            'M4_integral_gap2duct', 'M4_integral_duct2gap',
            'M5_identity_on_equal_meshes', 'H1_every_region_map_monitored',
            'H3_map_built_from_own_meshes',
            'U1_apply_is_matvec', 'U3_apply_integral',
            'cov_split_corner_asym_effective', 'cov_pair_refined',
            'cov_pair_shifted', 'cov_pair_corner_only_region']
CASE_TIMEOUT = {'quick': 120, 'thorough': 900}
BUDGET = {'quick': 600, 'thorough': 3000}
EXHAUSTIVE = {'quick': False, 'thorough': False}
ASSUMPTIONS = ['numpy float64 arithmetic',
               'boundary arrays of calculate_xbnds/_calculate_gap_xbnds are '
               'taken as the definition of the cells (geometry is C08/C09)']

TOL = 1e-9          # algebraically exact identities (measured ~1e-15)
EQ_TOL = 1e-12      # "meshes coincide": boundaries equal to round-off
FTF = 0.1175
MESH_CLASSES = list(range(1, 16))   # 1 = corner-only (unrodded) assembly


# ----------------------------------------------------------------------
# cases


def cases(tier, seed):
    out = []
    n_var = 2 if tier == 'quick' else 24
    k = 0
    for v in range(n_var):
        for a in MESH_CLASSES:
            for b in MESH_CLASSES:
                out.append({'name': 'grid-%d-%d-v%d' % (a, b, v),
                            'kind': 'grid', 'a': a, 'b': b, 'var': v,
                            'seed': [seed, 1, k]})
                k += 1
    steps = 25 if tier == 'quick' else 50
    n_core = 80 if tier == 'quick' else 2400
    for i in range(n_core):
        out.append({'name': 'core-%d' % i, 'kind': 'core', 'big': False,
                    'steps': steps, 'seed': [seed, 2, i]})
    n_big = 4 if tier == 'quick' else 160
    for i in range(n_big):
        out.append({'name': 'bigcore-%d' % i, 'kind': 'core', 'big': True,
                    'steps': steps, 'seed': [seed, 5, i]})
    n_split = 60 if tier == 'quick' else 1600
    for i in range(n_split):
        out.append({'name': 'split-%d' % i, 'kind': 'split',
                    'steps': steps, 'seed': [seed, 3, i]})
    n_near = 6 if tier == 'quick' else 60
    for i in range(n_near):
        out.append({'name': 'near-%d' % i, 'kind': 'near',
                    'seed': [seed, 4, i]})
    out.append({'name': 'witness-split-corner', 'kind': 'witness',
                'seed': [seed, 6, 0]})
    out.append({'name': 'single-pin-probe', 'kind': 'nr1',
                'seed': [seed, 7, 0]})
    if tier == 'thorough':
        # the repository's own test-suite as one more workload: the map
        # contract on every _map_asm2gap call its tests make
        out.insert(0, {'name': 'repo-tests', 'kind': 'repotests',
                       'seed': [seed, 8, 0]})
    return out


# ----------------------------------------------------------------------
# oracle (independent of the code under test)


def mesh_cells(xb_reg, xb_core):
    """Cell widths of the duct mesh and of the gap mesh around one assembly,
    straight from the two boundary arrays.

    Duct: xb_reg = [0, b_1, ..., b_n, P]; duct cell i (i < n-1) is
    [b_{i+1}, b_{i+2}], the last duct cell (top corner) is [b_n, P] + [0, b_1].
    Gap: the non-zero entries g_1..g_m of xb_core; gap cell j (j < m-1) is
    [g_{j+1}, g_{j+2}], the last gap cell is [g_m, P] + [0, g_1].
    """
    xr = np.asarray(xb_reg, dtype=float)
    xc = np.asarray(xb_core, dtype=float)
    P = float(xr[-1])
    xg = xc[xc > 0]
    n_d = xr.shape[0] - 2
    n_g = xg.shape[0]
    w_d = np.empty(n_d)
    w_d[:-1] = xr[2:-1] - xr[1:-2]
    w_d[-1] = (xr[1] - xr[0]) + (xr[-1] - xr[-2])
    w_g = np.empty(n_g)
    w_g[:-1] = xg[1:] - xg[:-1]
    w_g[-1] = xg[0] + (P - xg[-1])
    return {'P': P, 'xr': xr, 'xg': xg, 'n_d': n_d, 'n_g': n_g,
            'w_d': w_d, 'w_g': w_g, 'fine_dim': xc.shape[0],
            'd_half': (float(xr[1] - xr[0]), float(xr[-1] - xr[-2])),
            'g_half': (float(xg[0]), float(P - xg[-1]))}


def overlap_matrix(c):
    """Length of (duct cell d) n (gap cell g) on the closed perimeter; used
    for reporting only (distance of the maps from the overlap map)."""
    lo_d, hi_d = c['xr'][:-1], c['xr'][1:]
    lab_d = np.r_[c['n_d'] - 1, np.arange(c['n_d'])]
    gb = np.r_[0.0, c['xg'], c['P']]
    lo_g, hi_g = gb[:-1], gb[1:]
    lab_g = np.r_[c['n_g'] - 1, np.arange(c['n_g'])]
    ov = np.minimum(hi_d[:, None], hi_g[None, :]) \
        - np.maximum(lo_d[:, None], lo_g[None, :])
    ov = np.clip(ov, 0.0, None)
    O = np.zeros((c['n_d'], c['n_g']))
    np.add.at(O, (lab_d[:, None], lab_g[None, :]), ov)
    return O


def pair_class(c):
    """Relation of the two meshes (coverage + expectation of identity)."""
    if c['n_d'] == c['n_g'] and np.max(np.abs(c['xr'][1:-1] - c['xg'])) \
            <= EQ_TOL * c['P']:
        return 'equal'
    # every duct boundary is also a gap boundary -> pure refinement
    d = np.abs(c['xr'][1:-1][:, None] - c['xg'][None, :])
    if np.all(np.min(d, axis=1) <= EQ_TOL * c['P']):
        return 'refined'
    return 'shifted'


def check_maps(res, xb_reg, xb_core, M, N, rng, mapfun, key0, origin):
    """All contract monitors for one call of _map_asm2gap.
    M = gap->duct ("fine to coarse"), N = duct->gap ("coarse to fine")."""
    c = mesh_cells(xb_reg, xb_core)
    n_d, n_g, w_d, w_g, P = c['n_d'], c['n_g'], c['w_d'], c['w_g'], c['P']
    M = np.asarray(M)
    N = np.asarray(N)
    key = dict(key0, origin=origin)
    res.count('pairs_checked')

    # -- P0: the two arrays describe two tilings of the same closed perimeter
    ok = (np.all(np.diff(c['xr']) > 0) and np.all(np.diff(c['xg']) > 0)
          and c['xg'][-1] < P and n_d >= 6 and n_g >= 6
          and np.all(w_d > 0) and np.all(w_g > 0))
    res.check('P0_meshes_tile_perimeter', bool(ok),
              'boundary arrays are not increasing tilings of [0, P]',
              dict(key, mech='mesh_malformed'),
              {'xb_reg': c['xr'], 'xb_core': c['xg']})
    ok = (M.shape == (n_d, c['fine_dim']) and N.shape == (c['fine_dim'], n_d))
    res.check('P0_shapes', bool(ok), 'matrix shapes %r %r do not match the '
              'meshes (%d duct cells, %d gap cells, padded to %d)'
              % (M.shape, N.shape, n_d, n_g, c['fine_dim']),
              dict(key, mech='shape'))
    if not ok:
        return c, 'bad'

    cls = pair_class(c)
    res.tag('pair:' + cls)
    res.count('cov_pair_' + cls)
    if n_d == 6:
        res.count('cov_pair_corner_only_region')
        res.tag('region_mesh:corner_only')
    if n_g == 6:
        res.tag('gap_mesh:corner_only')
    res.stat('n_duct_cells', n_d)
    res.stat('n_gap_cells', n_g)
    Ml, Nl = M[:, :n_g], N[:n_g, :]

    # -- split top corner of the gap mesh
    h0, h5 = c['g_half']
    dh = max(c['d_half'])
    asym = abs(h0 - h5) > EQ_TOL * P
    effective = asym and max(h0, h5) > dh + EQ_TOL * P
    sc = 'sym' if not asym else ('asym_effective' if effective
                                 else 'asym_inside_duct_corner')
    res.tag('split_corner:' + sc)
    if effective:
        res.count('cov_split_corner_asym_effective')
        res.stat('split_corner_half_ratio', max(h0, h5) / min(h0, h5))
    key_sc = dict(key, where='split_top_corner_gap_cell',
                  halves=('unequal' if asym else 'equal'),
                  wider_than_duct_corner=bool(max(h0, h5) > dh + EQ_TOL * P))

    # -- M1 non-negativity
    mn = min(float(M.min()), float(N.min()))
    res.stat('M1_min_entry', mn)
    res.check('M1_nonneg', mn >= 0.0, 'negative weight %.3e' % mn,
              dict(key, mech='negative_weight', pair=cls))

    # -- M2 constants / partition of unity, padding
    res.check('M2_padding_zero',
              bool(np.all(M[:, n_g:] == 0.0) and np.all(N[n_g:, :] == 0.0)),
              'padded rows/columns carry weight', dict(key, mech='padding'))
    rs = Ml.sum(axis=1)
    res.close('M2_rowsum_gap2duct', np.max(np.abs(rs - 1.0)), 1.0, 1e-12,
              'gap->duct rows do not sum to 1',
              dict(key, mech='rowsum', map='gap2duct', pair=cls),
              {'rows': np.argwhere(np.abs(rs - 1.0) > 1e-12).ravel()[:8]})
    rs = Nl.sum(axis=1)
    res.close('M2_rowsum_duct2gap', np.max(np.abs(rs - 1.0)), 1.0, 1e-12,
              'duct->gap rows do not sum to 1',
              dict(key, mech='rowsum', map='duct2gap', pair=cls),
              {'rows': np.argwhere(np.abs(rs - 1.0) > 1e-12).ravel()[:8]})
    cval = float(rng.uniform(300.0, 1200.0))
    u = np.full(c['fine_dim'], cval)
    u[n_g:] = -7.0e5            # padded slots hold unrelated numbers in DASSH
    out = mapfun(u, M)
    res.close('M2_const_gap2duct', np.max(np.abs(out - cval)), cval, 1e-12,
              'uniform gap field not reproduced on the duct mesh',
              dict(key, mech='constants', map='gap2duct', pair=cls))
    out = mapfun(np.full(n_d, cval), N)
    res.close('M2_const_duct2gap', np.max(np.abs(out[:n_g] - cval)), cval,
              1e-12, 'uniform duct field not reproduced on the gap mesh',
              dict(key, mech='constants', map='duct2gap', pair=cls))

    # -- M3 detailed balance  w_d M[d,g] = w_g N[g,d]
    A = w_d[:, None] * Ml
    B = (w_g[:, None] * Nl).T
    D = A - B
    wmin = float(min(w_d.min(), w_g.min()))
    is_ident = (n_d == n_g and np.array_equal(Ml, np.eye(n_d))
                and np.array_equal(Nl, np.eye(n_d)))
    kreg = dict(key, mech='detailed_balance', pair=cls,
                where='regular_cells')
    kint = dict(key, mech='integral', pair=cls)
    c['ident_unequal'] = bool(is_ident and cls != 'equal')
    if c['ident_unequal']:
        # exact identity returned although the boundaries differ
        res.tag('identity_returned_for_unequal_meshes')
        kreg = dict(key, mech='identity_for_unequal_meshes',
                    where='regular_cells')
        key_sc = dict(key_sc, mech='identity_for_unequal_meshes')
        kint = dict(key, mech='identity_for_unequal_meshes')
    if n_g > 1:
        r = float(np.max(np.abs(D[:, :-1])))
        i, j = np.unravel_index(np.argmax(np.abs(D[:, :-1])), D[:, :-1].shape)
        res.close('M3_detailed_balance', r, wmin, TOL,
                  'w_d*M[d,g] != w_g*N[g,d] on a regular gap cell',
                  kreg, {'d': int(i), 'g': int(j), 'wdM': A[i, j],
                         'wgN': B[i, j], 'n_d': n_d, 'n_g': n_g,
                         'max_boundary_diff': (float(np.max(np.abs(
                             c['xr'][1:-1] - c['xg']))) if n_d == n_g
                             else None)})
    r = float(np.max(np.abs(D[:, -1])))
    i = int(np.argmax(np.abs(D[:, -1])))
    res.close('M3_detailed_balance_split_corner', r, wmin, TOL,
              'w_d*M[d,g] != w_g*N[g,d] on the split top-corner gap cell',
              dict(key_sc, map='duct2gap'),
              {'d': i, 'wdM': A[i, -1], 'wgN': B[i, -1], 'halves': [h0, h5],
               'duct_corner_half': dh, 'N_row': Nl[-1][Nl[-1] > 0],
               'expected_row': (A[:, -1] / w_g[-1])[A[:, -1] > 0]})
    res.stat('split_corner_db_rel_' + sc, r / wmin)

    # -- M4 integrals of arbitrary vectors
    # duct->gap with the corner row replaced by the one detailed balance
    # implies: tells whether a failure is confined to the split corner row
    Nfix = Nl.copy()
    Nfix[-1, :] = A[:, -1] / w_g[-1]
    c['fix_row'] = Nfix[-1].copy()
    for t in range(3):
        ug = rng.uniform(300.0, 1200.0, c['fine_dim'])
        ug[n_g:] = 9.9e5
        if t == 2:              # one hot cell: the split corner itself
            ug[:n_g] = 600.0
            ug[n_g - 1] = 1200.0
        md = mapfun(ug, M)
        res.close('M4_integral_gap2duct',
                  float(np.sum(w_d * md) - np.sum(w_g * ug[:n_g])),
                  float(np.sum(w_g * np.abs(ug[:n_g]))), TOL,
                  'perimeter integral changed by the gap->duct map',
                  dict(kint, map='gap2duct'))
        vd = rng.uniform(300.0, 1200.0, n_d)
        if t == 2:              # hot duct cells next to the top corner
            vd[:] = 600.0
            vd[0] = 1200.0
            vd[-2] = 900.0
        mg = mapfun(vd, N)[:n_g]
        tot = float(np.sum(w_d * vd))
        r = float(np.sum(w_g * mg)) - tot
        rfix = float(np.sum(w_g * (Nfix @ vd))) - tot
        confined = abs(rfix) <= TOL * abs(tot)
        res.close('M4_integral_duct2gap', r, float(np.sum(w_d * np.abs(vd))),
                  TOL, 'perimeter integral changed by the duct->gap map',
                  dict(key_sc, map='duct2gap',
                       confined_to_split_corner_row=bool(confined))
                  if (confined and abs(r) > TOL * abs(tot))
                  else dict(kint, map='duct2gap',
                            confined_to_split_corner_row=bool(confined)),
                  {'halves': [h0, h5]})

    # -- M5 identity on coinciding meshes
    if cls == 'equal':
        dev = max(float(np.max(np.abs(Ml - np.eye(n_d)))),
                  float(np.max(np.abs(Nl - np.eye(n_d)))))
        # boundaries equal to round-off: slivers of that size are allowed
        sliver = float(np.max(np.abs(c['xr'][1:-1] - c['xg']))) / wmin
        res.close('M5_identity_on_equal_meshes', dev, 1.0,
                  1e-12 + 2.0 * sliver,
                  'meshes coincide but the transfer is not the identity',
                  dict(key, mech='identity'))

    # -- reporting only: distance from the interval-overlap map
    O = overlap_matrix(c)
    res.stat('aux_dev_from_overlap_gap2duct',
             float(np.max(np.abs(Ml - O / w_d[:, None]))))
    res.stat('aux_dev_from_overlap_duct2gap_regular',
             float(np.max(np.abs(Nl[:-1] - (O.T / w_g[:, None])[:-1])))
             if n_g > 1 else 0.0)
    res.stat('aux_dev_from_overlap_duct2gap_corner_' + sc,
             float(np.max(np.abs(Nl[-1] - (O.T / w_g[:, None])[-1]))))
    return c, cls


# ----------------------------------------------------------------------
# problem builders


def _lowfid(rng, t):
    t['use_low_fidelity_model'] = True
    if rng.random() < 0.5:
        t['convection_factor'] = wl.choose(rng, [1.0, 0.5, 'calculate'])
    return t


NON_CT = [('MIT', 'NOV', 'NOV'), ('MIT', 'REH', 'MIT'), ('MIT', 'ENG', 'SE2'),
          ('MIT', 'NOV', 'MIT')]


def _corr(rng, slack):
    """The input check refuses wide pin-to-wall gaps for the Cheng-Todreas
    detailed correlations only; the mesh does not depend on the choice."""
    if slack > 0.3 or rng.random() < 0.5:
        return wl.choose(rng, NON_CT)
    return wl.choose(rng, wl.SAFE_TRIPLES)


def make_mesh_type(rng, cls, n_duct=None, regions_ok=True):
    """Assembly type of mesh class `cls` (1 = corner-only, else ring count)."""
    if n_duct is None:
        n_duct = wl.choose(rng, [1, 1, 1, 2, 2, 3])
    if cls == 1:
        t = gen.make_type(rng, int(rng.integers(2, 6)), FTF,
                          n_duct=wl.choose(rng, [1, 1, 2]),
                          duct_material='steel_const')
        return _lowfid(rng, t)
    kw = {}
    if n_duct > 1:
        kw['byp_ff'] = float(wl.choose(rng, [0.0, 0.03, 0.1]))
    # wall / bypass / slack spread on purpose: the outer corner width is
    # (hex side - (nr-1) * pitch) / 2, so this decouples it from ring count
    slack = float(wl.choose(rng, [0.02, 0.1, 0.3, 0.8, 1.5]))
    t = gen.make_type(rng, cls, FTF, n_duct=n_duct,
                      wall=float(rng.uniform(0.001, 0.004)),
                      byp_gap=float(rng.uniform(0.001, 0.0035)),
                      slack=slack, corr=_corr(rng, slack),
                      duct_material='steel_const', **kw)
    return t


def reverse_pairs(P, rng, frac=0.25):
    """The two flat-to-flat values of a duct may be written in either
    order. In some cores the outermost duct of every type is written
    (outer, inner) - DASSH's input check compares the LAST value across the
    types, so the types of a core have to agree on it - and the inner ducts
    in either order."""
    if rng.random() >= frac:
        return False
    # (so the outermost walls get one thickness: the thinnest of them)
    inner = max(sorted(t['duct_ftf'])[-2] for t in P['types'].values())
    for t in P['types'].values():
        w = sorted(t['duct_ftf'])
        w[-2] = inner
        nd = len(w) // 2
        for i in range(nd):
            if i == nd - 1 or rng.random() < 0.5:
                w[2 * i], w[2 * i + 1] = w[2 * i + 1], w[2 * i]
        t['duct_ftf'] = w
    return True


def _place(P, tname, k0, rng):
    ring, pos = gen.ring_pos(k0)
    gen.add_position(P, tname, ring, pos, velocity=float(rng.uniform(0.5, 3)),
                     dT=float(rng.uniform(20, 80)), shape='flat')


def _base(rng, gap=None):
    gap = gap or wl.choose(rng, ['flow', 'flow', 'no_flow', 'duct_average'])
    P = gen.base_problem(length=0.4, asm_pitch=0.12, gap_model=gap,
                         bypass_fraction=float(rng.uniform(0.005, 0.05)))
    if rng.random() < 0.4:
        # temperature-dependent coolant: film coefficients change along the
        # march (what is handed to the assemblies must follow)
        P['coolant'] = wl.TDEP_NA
    return P


def build_grid(case, rng):
    a, b = case['a'], case['b']
    P = _base(rng)
    P['types']['a'] = make_mesh_type(rng, a)
    P['types']['b'] = make_mesh_type(rng, b)
    regs = []
    for nm in ('a', 'b'):
        t = P['types'][nm]
        if not t.get('use_low_fidelity_model') and rng.random() < 0.35:
            regs += wl.add_axial_regions(rng, P, nm)
    # centre A, a random A/B/empty pattern around it with >= 2 B and,
    # whenever possible, different neighbours on adjacent hex sides
    while True:
        pat = [wl.choose(rng, ['a', 'b', 'b', None]) for _ in range(6)]
        if pat.count('b') >= 2 and len(set(pat)) >= 2:
            break
    _place(P, 'a', 0, rng)
    for i, tn in enumerate(pat):
        if tn is not None:
            _place(P, tn, 1 + i, rng)
    feats = {'a': a, 'b': b, 'pattern': ''.join(x or '-' for x in pat),
             'nd': [len(P['types'][n]['duct_ftf']) // 2 for n in 'ab'],
             'regions': len(regs)}
    return P, feats


def build_core(case, rng):
    big = case.get('big')
    n_ring = wl.choose(rng, [3, 4, 5]) if big else wl.choose(rng, [2, 2, 2, 3])
    n_types = int(rng.integers(2, 6))
    P = _base(rng)
    classes = []
    for i in range(n_types):
        cls = int(wl.choose(rng, [1, 2, 2, 3, 3, 4, 5, 6, 7, 8, 9, 10, 12]))
        classes.append(cls)
        P['types']['t%d' % i] = make_mesh_type(rng, cls)
        t = P['types']['t%d' % i]
        if not t.get('use_low_fidelity_model') and rng.random() < 0.3:
            wl.add_axial_regions(rng, P, 't%d' % i)
    npos = 3 * (n_ring - 1) * n_ring + 1
    empty = float(wl.choose(rng, [0.0, 0.15, 0.3]))
    for k0 in range(npos):
        if k0 > 0 and rng.random() < empty:
            continue
        _place(P, 't%d' % int(rng.integers(n_types)), k0, rng)
    feats = {'n_ring': n_ring, 'classes': classes,
             'n_asm': len(P['positions']), 'gap': P['gap_model']}
    return P, feats


def build_split(case, rng):
    """Alternating neighbours around every second assembly: the meshes that
    decide hex sides 5 and 0 come from different assemblies, the finer
    neighbour has the wider corner (double duct / large pin-to-wall gap)."""
    P = _base(rng)
    a = int(rng.integers(2, 9))
    b = int(rng.integers(a + 1, 13))
    cchoice = wl.choose(rng, ['none', 'same', 'finer', 'corner_only'])
    P['types']['a'] = gen.make_type(
        rng, a, FTF, n_duct=1, wall=float(rng.uniform(0.001, 0.002)),
        slack=0.02, duct_material='steel_const')
    nd = wl.choose(rng, [1, 2, 2, 3])
    kw = {'byp_ff': 0.05} if nd > 1 else {}
    P['types']['b'] = gen.make_type(
        rng, b, FTF, n_duct=nd, wall=float(rng.uniform(0.002, 0.004)),
        slack=float(wl.choose(rng, [0.5, 1.0, 2.0])),
        corr=wl.choose(rng, NON_CT), duct_material='steel_const', **kw)
    if cchoice == 'finer':
        P['types']['c'] = make_mesh_type(rng, int(rng.integers(b, 15)))
    elif cchoice == 'corner_only':
        P['types']['c'] = make_mesh_type(rng, 1)
    if rng.random() < 0.3:
        wl.add_axial_regions(rng, P, 'a')
    other = {'none': None, 'same': 'a', 'finer': 'c',
             'corner_only': 'c'}[cchoice]
    _place(P, 'a', 0, rng)
    off = int(rng.integers(2))
    for i in range(6):
        tn = 'b' if (i + off) % 2 == 0 else other
        if tn is not None:
            _place(P, tn, 1 + i, rng)
    feats = {'a': a, 'b': b, 'nd_b': nd, 'other': cchoice}
    return P, feats


def build_near(case, rng):
    """Two types with the same ring count whose pitches differ by a relative
    1e-7..1e-5: the meshes are different, but only just."""
    P = _base(rng)
    nr = int(rng.integers(2, 10))
    ta = gen.make_type(rng, nr, FTF, n_duct=1, duct_material='steel_const')
    tb = dict(ta)
    tb['duct_ftf'] = list(ta['duct_ftf'])
    eps = float(wl.choose(rng, [1e-7, 1e-6, 3e-6, 1e-5]))
    tb['pin_pitch'] = ta['pin_pitch'] * (1.0 - eps)
    P['types']['a'] = ta
    P['types']['b'] = tb
    _place(P, 'a', 0, rng)
    for i in range(6):
        _place(P, 'b' if i % 2 == 0 else 'a', 1 + i, rng)
    return P, {'nr': nr, 'eps': eps}


# ----------------------------------------------------------------------
# runners


def _mf():
    dassh = env.import_dassh()
    import dassh.mesh_functions as mf
    return dassh, mf


def _region_kind(reg):
    return 'rodded' if getattr(reg, 'is_rodded', False) else \
        getattr(reg, 'model', 'unrodded')


def run_direct(case, res, P, feats, rng):
    """Direct workload: real boundary producers, real map builder."""
    dassh, mf = _mf()
    with drive.scratch() as d:
        inp, r = drive.build(P, d)
    core = r.core
    xb_all = core._calculate_gap_xbnds()            # REAL producer
    res.check('P0_gap_xbnds_reproducible',
              bool(np.array_equal(xb_all, core._asm_sc_xbnds)),
              'Core._calculate_gap_xbnds() differs from the stored array',
              {'mech': 'gap_xbnds_not_reproducible'})
    # perimeter of the outer hexagon from the INPUT (largest flat-to-flat
    # value, the same for all types of a core)
    P6 = 6.0 * max(max(float(x) for x in t['duct_ftf'])
                   for t in P['types'].values()) / np.sqrt(3.0)
    res.close('P0_core_hexagon_is_outer_hexagon_of_input',
              6.0 * core.duct_oftf / np.sqrt(3.0) - P6, P6, 1e-12,
              'the hexagon the core lays the gap mesh on is not the outer '
              'hexagon of the assemblies', {'mech': 'perimeter'})
    seen = set()
    different = 0
    for ai, asm in enumerate(r.assemblies):
        for reg in asm.region:
            xb_reg = reg.calculate_xbnds()          # REAL producer
            xb_core = xb_all[ai].copy()
            sig = (xb_reg.tobytes(), xb_core.tobytes())
            if sig in seen:
                res.count('pairs_duplicate_skipped')
                continue
            seen.add(sig)
            in_reg, in_core = xb_reg.copy(), xb_core.copy()
            M, N = mf._map_asm2gap(xb_reg, xb_core)  # REAL map builder
            res.check('P0_inputs_not_modified',
                      bool(np.array_equal(in_reg, xb_reg)
                           and np.array_equal(in_core, xb_core)),
                      '_map_asm2gap modified its input arrays',
                      {'mech': 'inputs_modified'})
            res.close('P0_same_perimeter', xb_reg[-1] - P6, P6, 1e-12,
                      'region mesh does not end at the duct perimeter',
                      {'mech': 'perimeter', 'region': _region_kind(reg)})
            key = {'region': _region_kind(reg)}
            c, cls = check_maps(res, xb_reg, xb_core, M, N, rng,
                                mf.map_across_gap, key, 'direct')
            res.tag('region:' + _region_kind(reg))
            if cls in ('refined', 'shifted'):
                different += 1
            # the maps DASSH stored for this region are the same matrices
            if hasattr(reg, '_map'):
                res.check('H2_stored_map_equals_direct',
                          bool(np.array_equal(reg._map['gap2duct'], M)
                               and np.array_equal(reg._map['duct2gap'], N)),
                          'maps stored on the region differ from a direct '
                          'call on the same meshes', dict(key, mech='stored'))
    return different


class Registry(object):
    """Maps seen by the _map_asm2gap hook, looked up by the map_across_gap
    hook through the identity of the matrix object."""

    def __init__(self):
        self.by_id = {}
        self.keep = []

    def add(self, M, N, c, cls, key):
        self.keep.append((M, N))
        self.by_id[id(M)] = ('gap2duct', c, cls, key)
        self.by_id[id(N)] = ('duct2gap', c, cls, key)


def run_hooked(case, res, P, feats, rng, n_steps):
    """Reactor-built workload: every real call is monitored."""
    dassh, mf = _mf()
    reg_ = Registry()
    orig_apply = mf.map_across_gap
    state = {'building': True, 'different': 0}

    def post_map(args, kwargs, result, tok):
        xb_reg, xb_core = args[0], args[1]
        M, N = result
        c, cls = check_maps(res, xb_reg, xb_core, M, N, rng, orig_apply,
                            {'region': 'n_d=6' if len(xb_reg) == 8
                             else 'rodded'}, 'hooked')
        res.count('H0_hooked_map_asm2gap_calls')
        if cls == 'bad':
            return
        if cls in ('refined', 'shifted'):
            state['different'] += 1
        reg_.add(M, N, c, cls, {})

    def post_apply(args, kwargs, out, tok):
        if state['building']:
            return
        vec = args[0] if len(args) > 0 else kwargs['vector_in']
        mp = args[1] if len(args) > 1 else kwargs['map']
        info = reg_.by_id.get(id(mp))
        res.check('U0_applied_map_was_monitored', info is not None,
                  'map_across_gap used a matrix that did not come from a '
                  'monitored _map_asm2gap call', {'mech': 'unmonitored_map'})
        if info is None:
            return
        direction, c, cls, _ = info
        n_d, n_g, w_d, w_g = c['n_d'], c['n_g'], c['w_d'], c['w_g']
        vec = np.asarray(vec, dtype=float)
        out = np.asarray(out, dtype=float)
        ref = (np.asarray(mp) * vec[None, :]).sum(axis=1)
        sc = float(np.max(np.abs(vec[:n_g] if direction == 'gap2duct'
                                 else vec))) + 1e-300
        res.close('U1_apply_is_matvec', np.max(np.abs(out - ref)), sc, 1e-12,
                  'map_across_gap is not the matrix-vector product',
                  {'mech': 'apply', 'dir': direction})
        if direction == 'gap2duct':
            live_in, live_out, w_in, w_out = vec[:n_g], out, w_g, w_d
        else:
            live_in, live_out, w_in, w_out = vec, out[:n_g], w_d, w_g
        lo, hi = float(live_in.min()), float(live_in.max())
        eps = 1e-12 * max(abs(lo), abs(hi), 1e-300)
        res.check('U2_apply_bounded',
                  bool(live_out.min() >= lo - eps
                       and live_out.max() <= hi + eps),
                  'mapped values leave the range of the input values',
                  {'mech': 'bounds', 'dir': direction})
        h0, h5 = c['g_half']
        asym = abs(h0 - h5) > EQ_TOL * c['P']
        r = float(np.sum(w_out * live_out) - np.sum(w_in * live_in))
        scale = float(np.sum(w_in * np.abs(live_in)))
        spread = hi - lo
        res.stat('U3_input_spread_rel', spread / max(abs(hi), 1e-300))
        k = {'mech': 'integral', 'dir': direction, 'pair': cls}
        if c.get('ident_unequal'):
            k = {'mech': 'identity_for_unequal_meshes', 'dir': direction,
                 'origin': 'sweep'}
        elif direction == 'duct2gap' and asym and abs(
                r - w_g[-1] * (live_out[-1] - float(c['fix_row'] @ vec))
                ) <= TOL * scale:
            # closes once the split-corner row is the one detailed balance
            # with the gap->duct matrix implies: confined to that row
            k = {'where': 'split_top_corner_gap_cell', 'halves': 'unequal',
                 'map': 'duct2gap', 'origin': 'sweep',
                 'wider_than_duct_corner':
                 bool(max(h0, h5) > max(c['d_half']) + EQ_TOL * c['P'])}
        res.close('U3_apply_integral', r, scale, TOL,
                  'perimeter integral of a vector DASSH mapped during the '
                  'sweep is not preserved (%s)' % direction, k,
                  {'halves': [h0, h5], 'spread': spread})
        res.tag('applied:' + direction)
        if state.get('in_update_region'):
            res.tag('applied_in_update_region')

    with drive.scratch() as d, Hooks() as hk:
        hk.wrap(mf, '_map_asm2gap', post=post_map, label='map')
        hk.wrap(mf, 'map_across_gap', post=post_apply)

        def _enter(args, kwargs):
            state['in_update_region'] = True

        def _leave(args, kwargs, out, tok):
            state['in_update_region'] = False
        hk.wrap(dassh.assembly.Assembly, 'update_region', pre=_enter,
                post=_leave)

        def _exact_transfer(r_, i, reg, t_gap, h_gap, where):
            # what is handed over is the film-coefficient weighted transfer
            # of the gap state with the region's own (monitored) matrix:
            # h = M h_g, T = M (h_g T_g) / M h_g - the only transfer under
            # which the flux on the duct mesh carries the heat of the gap mesh
            M = np.asarray(reg._map['gap2duct'], dtype=float)
            hg = np.asarray(r_.core.adjacent_coolant_gap_htc(i), dtype=float)
            Tg = np.asarray(r_.core.adjacent_coolant_gap_temp(i),
                            dtype=float)
            h_exp = M @ hg
            T_exp = (M @ (hg * Tg)) / h_exp
            sc = float(np.max(np.abs(T_exp))) + 1e-300
            res.close('G2_handed_is_h_weighted_transfer',
                      float(np.max(np.abs(np.asarray(t_gap) - T_exp))), sc,
                      1e-12, 'gap temperature handed to assembly %d (%s) is '
                      'not M(h T)/M(h) of the gap cells around it' % (i, where),
                      {'mech': 'handed_transfer', 'what': 'temperature',
                       'where': where, 'gap': r_.core.model})
            res.close('G2_handed_is_h_weighted_transfer',
                      float(np.max(np.abs(np.asarray(h_gap) - h_exp))),
                      float(np.max(np.abs(h_exp))) + 1e-300, 1e-12,
                      'gap film coefficient handed to assembly %d (%s) is not '
                      'M(h) of the gap cells around it' % (i, where),
                      {'mech': 'handed_transfer', 'what': 'film coefficient',
                       'where': where, 'gap': r_.core.model})

        def _activate(args, kwargs):
            # region change: the new region is activated with the gap state
            # transferred onto ITS duct mesh
            r_ = state.get('r')
            if r_ is None or r_.core.model is None or state['building']:
                return None
            reg = args[0]
            t_gap = args[2] if len(args) > 2 else kwargs.get('t_gap')
            h_gap = args[3] if len(args) > 3 else kwargs.get('h_gap')
            adiab = args[4] if len(args) > 4 else kwargs.get('adiabatic')
            if t_gap is None or h_gap is None or adiab:
                return None
            for i, a in enumerate(r_.assemblies):
                if any(reg is x for x in a.region):
                    _exact_transfer(r_, i, reg, np.asarray(t_gap, float),
                                    np.asarray(h_gap, float), 'activate')
                    break
            return None

        def _handed(args, kwargs):
            # the gap temperature and film coefficient handed to the
            # assembly are the transferred values: a uniform field around
            # the assembly arrives unchanged, any field stays within the
            # range of the gap cells it came from
            r_ = state.get('r')
            if r_ is None or r_.core.model is None:
                return None
            a = args[0]
            try:
                i = r_.assemblies.index(a)
            except ValueError:
                return None
            t_gap = np.asarray(args[2] if len(args) > 2
                               else kwargs['t_gap'], dtype=float)
            h_gap = np.asarray(args[3] if len(args) > 3
                               else kwargs['h_gap'], dtype=float)
            n_g = int(r_.core._n_sc_per_asm[i])
            _exact_transfer(r_, i, a.active_region, t_gap, h_gap, 'step')
            for nm, got, src in (
                    ('temperature', t_gap,
                     np.asarray(r_.core.adjacent_coolant_gap_temp(i),
                                dtype=float)[:n_g]),
                    ('film coefficient', h_gap,
                     np.asarray(r_.core.adjacent_coolant_gap_htc(i),
                                dtype=float)[:n_g])):
                lo, hi = float(src.min()), float(src.max())
                eps = 1e-10 * max(abs(lo), abs(hi), 1e-300)
                res.check('G1_handed_gap_values_within_source_range',
                          bool(got.min() >= lo - eps and got.max() <= hi + eps),
                          'gap %s handed to assembly %d (%.6f..%.6f) leaves '
                          'the range of the gap cells around it (%.6f..%.6f)'
                          % (nm, i, got.min(), got.max(), lo, hi),
                          {'mech': 'handed_values', 'what': nm,
                           'gap': r_.core.model})
            return None
        hk.wrap(dassh.assembly.Assembly, 'calculate', pre=_handed)

        def _to_gap(args, kwargs):
            # the other direction at its use site: what the core is handed
            # for every assembly is the plain duct->gap transfer of that
            # assembly's outer surface temperatures (integral-preserving)
            r_ = state['r']
            if r_ is None:
                return None
            td = np.asarray(args[2] if len(args) > 2 else
                            kwargs['asm_duct_temps'], dtype=float)
            worst, wit = 0.0, None
            for i, a_ in enumerate(r_.assemblies):
                m_ = np.asarray(a_.active_region._map['duct2gap'],
                                dtype=float)
                tw = np.asarray(a_.duct_outer_surf_temp, dtype=float)
                n_g = int(r_.core._n_sc_per_asm[i])
                want = np.dot(m_, tw)
                n_c = min(n_g, len(want))
                want = want[:n_c]
                got = td[i][:n_c]
                d_ = float(np.max(np.abs(got - want)))
                if d_ > worst:
                    worst, wit = d_, (i, float(np.ptp(tw)))
            res.close('G3_duct_values_handed_to_gap_are_plain_transfer',
                      worst, 1000.0, 1e-12,
                      'outer duct temperatures handed to the gap model are '
                      'not the duct->gap transfer of the assembly\'s own '
                      'surface temperatures (max %.3e K; assembly, spread '
                      '%r)' % (worst, wit),
                      {'mech': 'handed_to_gap', 'gap': r_.core.model})
            return None
        hk.wrap(dassh.core.Core, 'calculate_gap_temperatures', pre=_to_gap)
        import dassh.region_rodded as _rr
        import dassh.region_unrodded as _ru
        hk.wrap(_rr.RoddedRegion, 'activate', pre=_activate)
        hk.wrap(_ru.SingleNodeHomogeneous, 'activate', pre=_activate)
        inp, r = drive.build(P, d)
        state['r'] = r
        state['building'] = False
        n_regs = sum(len(a.region) for a in r.assemblies)
        res.check('H1_every_region_map_monitored',
                  hk.n['map'] == n_regs
                  and all(id(reg._map['gap2duct']) in reg_.by_id and
                          id(reg._map['duct2gap']) in reg_.by_id
                          for a in r.assemblies for reg in a.region),
                  'not every axial region carries a monitored map '
                  '(%d calls, %d regions)'
                  % (hk.n['map'], n_regs),
                  {'mech': 'hook_coverage'})
        res.stat('regions_per_build', n_regs)
        # the matrices each region carries were built from its own duct
        # mesh and from the gap mesh around its own assembly, and sit in
        # the slot DASSH reads them from
        wired = True
        for ai, a in enumerate(r.assemblies):
            xg_own = r.core._asm_sc_xbnds[ai]
            xg_own = xg_own[xg_own > 0]
            for reg in a.region:
                # the duct mesh itself, from the dimensions of the region
                # (outer surface of the outermost wall): half a corner, then
                # (rings-1) edges of one pitch and a corner per side
                xb = np.asarray(reg.calculate_xbnds(), dtype=float)
                if reg.is_rodded:
                    f_o = float(reg.duct_ftf[-1][1])
                    pp, nr_ = float(reg.pin_pitch), int(reg.n_ring)
                    wc = (2 * np.sqrt(3.0) * f_o - 6 * (nr_ - 1) * pp) / 6.0
                    own = [0.0, 0.5 * wc]
                    for side in range(6):
                        for _e in range(nr_ - 1):
                            own.append(own[-1] + pp)
                        own.append(own[-1] + (wc if side < 5 else 0.5 * wc))
                else:
                    side_l = float(reg.duct_ftf[1]) / np.sqrt(3.0)
                    own = [side_l * v for v in (0, .5, 1.5, 2.5, 3.5, 4.5,
                                                5.5, 6.0)]
                own = np.asarray(own)
                res.check('H5_duct_mesh_from_dimensions',
                          own.shape == xb.shape and bool(np.allclose(
                              own, xb, rtol=0, atol=1e-10 * own[-1])),
                          'duct-mesh boundaries of a region differ from the '
                          'mesh its dimensions give (max %.3e m)'
                          % (float(np.max(np.abs(own - xb)))
                             if own.shape == xb.shape else float('nan')),
                          {'mech': 'duct_mesh', 'region': _region_kind(reg),
                           'n_duct': (int(reg.n_duct) if reg.is_rodded
                                      else 1)})
                ig = reg_.by_id.get(id(reg._map['gap2duct']))
                idg = reg_.by_id.get(id(reg._map['duct2gap']))
                ok = (ig is not None and idg is not None
                      and ig[0] == 'gap2duct' and idg[0] == 'duct2gap'
                      and ig[1] is idg[1]
                      and np.array_equal(ig[1]['xr'], reg.calculate_xbnds())
                      and np.array_equal(ig[1]['xg'], xg_own)
                      and ig[1]['n_g'] == int(r.core._n_sc_per_asm[ai]))
                wired = wired and ok
                res.check('H3_map_built_from_own_meshes', bool(ok),
                          'a region carries a map that was not built from '
                          'its own duct mesh and the gap mesh around its own '
                          'assembly (or the two directions are swapped)',
                          {'mech': 'wiring', 'region': _region_kind(reg)})
        # both meshes go once around the outer hexagon of the assembly as the
        # INPUT gives it (largest flat-to-flat value of the type, however
        # the pairs were written)
        for ai, a in enumerate(r.assemblies):
            f_in = P['types'].get(a.name, {}).get('duct_ftf')
            if not f_in:
                continue
            per = 2.0 * np.sqrt(3.0) * max(float(x) for x in f_in)
            wp_ = r.core.gap_params.get('asm wp') if hasattr(
                r.core, 'gap_params') else None
            if wp_ is not None:
                got_ = float(np.sum(np.asarray(wp_[ai], dtype=float)[
                    :int(r.core._n_sc_per_asm[ai])]))
                res.close('H6_meshes_span_the_outer_hexagon_of_the_input',
                          got_ - per, per, 1e-10,
                          'contact lengths of the gap cells around assembly '
                          '%d do not add up to the outer hexagon perimeter '
                          'of its type' % ai,
                          {'mech': 'gap_mesh_perimeter',
                           'reversed_pair': bool(list(f_in) != sorted(f_in))},
                          {'got': got_, 'perimeter': per})
            for reg in a.region:
                xb = np.asarray(reg.calculate_xbnds(), dtype=float)
                res.close('H6_meshes_span_the_outer_hexagon_of_the_input',
                          float(xb[-1]) - per, per, 1e-10,
                          'duct mesh of a region of assembly %d does not '
                          'span the outer hexagon perimeter of its type' % ai,
                          {'mech': 'duct_mesh_perimeter',
                           'region': _region_kind(reg),
                           'reversed_pair': bool(list(f_in) != sorted(f_in))},
                          {'got': float(xb[-1]), 'perimeter': per})
            if list(f_in) != sorted(f_in):
                res.tag('duct_pair_written_outer_first')
        # an edge cell of the gap lies between two assemblies: both see it
        # with the same contact length (the gap has one mesh, whichever
        # assembly's maps are built on it)
        wp_all = r.core.gap_params.get('asm wp') if hasattr(
            r.core, 'gap_params') else None
        if wp_all is not None:
            seen_w = {}
            for ai in range(len(r.assemblies)):
                n_g = int(r.core._n_sc_per_asm[ai])
                adj = np.asarray(r.core._asm_sc_adj[ai])[:n_g]
                typ = np.asarray(r.core._asm_sc_types[ai])[:n_g]
                for c in range(n_g):
                    if typ[c] == 0 and adj[c] > 0:
                        seen_w.setdefault(int(adj[c]), []).append(
                            (ai, float(wp_all[ai][c])))
            worst, wit = 0.0, None
            for j, lst in seen_w.items():
                if len(lst) == 2:
                    d_ = abs(lst[0][1] - lst[1][1]) / max(lst[0][1],
                                                          lst[1][1])
                    if d_ > worst:
                        worst, wit = d_, (j, lst)
            res.close('H7_shared_edge_cell_has_one_width', worst, 1.0, 1e-10,
                      'a gap edge cell between two assemblies has two '
                      'contact lengths: %r' % (wit,),
                      {'mech': 'shared_cell_width'})
            res.count('shared_edge_cells_compared',
                      sum(1 for l_ in seen_w.values() if len(l_) == 2))
        # the convection constants of the gap energy equation: for every
        # gap cell and every assembly it touches, the contact length of that
        # cell ON THAT ASSEMBLY's gap mesh (a corner cell between unlike
        # assemblies has a different one for each)
        cu = getattr(r.core, '_conv_util', {}).get('const') if hasattr(
            r.core, '_conv_util') else None
        if cu is not None and wp_all is not None:
            adj_all = np.asarray(r.core._asm_sc_adj)
            worst, wit, n_unlike = 0.0, None, 0
            # (the no-flow model folds the conduction length 2/d_gap in)
            fac = (2.0 / float(r.core.d_gap)) if r.core.model == 'no_flow' \
                else 1.0
            for sci in range(int(r.core.n_sc)):
                asm_, loc_ = np.where(adj_all == sci + 1)
                want = [float(wp_all[a_][l_]) * fac
                        for a_, l_ in zip(asm_, loc_)]
                got = [float(x) for x in cu[sci, :len(want)]]
                if len(set(np.round(want, 12))) > 1:
                    n_unlike += 1
                for g_, w_ in zip(got, want):
                    d_ = abs(g_ - w_) / max(abs(w_), 1e-300)
                    if d_ > worst:
                        worst, wit = d_, (sci, got, want)
            res.close('H8_convection_constant_is_own_contact_length', worst,
                      1.0, 1e-10, 'the convection constant of a gap cell '
                      'towards one of its assemblies is not that assembly\'s '
                      'contact length with the cell: %r' % (wit,),
                      {'mech': 'conv_const'})
            res.count('gap_cells_with_unlike_contact_lengths', n_unlike)
        # the contact length the core multiplies fluxes with, per gap cell
        # around each assembly, is the width of that cell of the gap mesh
        wp = r.core.gap_params.get('asm wp') if hasattr(
            r.core, 'gap_params') else None
        if wp is not None and wired:
            for ai, a in enumerate(r.assemblies):
                ig = reg_.by_id.get(id(a.region[0]._map['gap2duct']))
                n_g = int(r.core._n_sc_per_asm[ai])
                got = np.asarray(wp[ai], dtype=float)[:n_g]
                w_g = np.asarray(ig[1]['w_g'], dtype=float)
                res.close('H4_core_contact_lengths_are_gap_cell_widths',
                          float(np.max(np.abs(np.sort(got) - np.sort(w_g)))),
                          float(np.max(w_g)), 1e-10,
                          'contact lengths of the gap cells around assembly '
                          '%d differ from the cell widths of the gap mesh '
                          '(sum %.6e vs perimeter %.6e)'
                          % (ai, float(got.sum()), float(w_g.sum())),
                          {'mech': 'core_widths'})
        if not wired:
            return state['different']
        # heat the assemblies so the mapped vectors are not uniform
        if r.core.model is not None and n_steps > 0:
            n = n_steps
            # go through the first change of axial region (update_region
            # maps the gap state onto the new region's duct mesh)
            zb = [b for a in r.assemblies for b in a.region_bnd[1:]]
            if zb:
                i_rc = int(np.searchsorted(r.z, min(zb))) + 3
                if i_rc <= case.get('max_steps', 300):
                    n = max(n, i_rc)
                    res.tag('marched_through_region_change')
            n = min(n, len(r.z) - 1)
            env.log_records()
            try:
                with drive.quiet():
                    r._data_setup()
                    r._data_open()
                    r.axial_step0()
                    for i in range(1, n + 1):
                        r.axial_step(r.z[i], r.dz[i - 1], i)
                    try:
                        r._data_close()
                    except (AttributeError, KeyError):
                        pass
            except SystemExit:
                raise drive.Rejected('sweep', env.log_records())
            res.stat('steps_marched', n)
        for a in r.assemblies:
            for reg in a.region:
                res.tag('region:' + _region_kind(reg))
        # per-side neighbour mix actually realised (sides 5 and 0)
        dims = r.core._geom_params['dims']
        for ai in range(len(r.assemblies)):
            if abs(dims[ai, 5, 1] - dims[ai, 0, 1]) > 1e-12 or \
                    abs(dims[ai, 5, 0] - dims[ai, 0, 0]) > 1e-12:
                res.tag('asm_with_different_mesh_on_sides_5_and_0')
    return state['different']


WITNESS_REG = [0, .2, .8, 1.2, 1.8, 2.2, 2.8, 3.2, 3.8, 4.2, 4.8, 5.2, 5.8, 6.]
WITNESS_GAP = [.3, .5, .7, 1.2, 1.8, 2.2, 2.8, 3.2, 3.8, 4.2, 4.8, 5.2, 5.8,
               0., 0.]


def run_witness(case, res, rng):
    """Smallest hand-made pair for the split-corner mechanism: a 2-ring duct
    mesh (hex side 1, pitch .6, corner half-width .2) whose side-0 neighbour
    imposes a 3-ring mesh with corner half-width .3; sides 1-5 keep the own
    mesh. The split gap corner cell is [5.8, 6] + [0, .3]."""
    dassh, mf = _mf()
    xb_reg = np.array(WITNESS_REG)
    xb_core = np.array(WITNESS_GAP)
    M, N = mf._map_asm2gap(xb_reg, xb_core)
    check_maps(res, xb_reg, xb_core, M, N, rng, mf.map_across_gap,
               {'region': 'rodded'}, 'witness')
    # mirror image: wide half on side 5
    P = xb_reg[-1]
    xg = xb_core[xb_core > 0]
    xb_core2 = np.zeros_like(xb_core)
    xb_core2[:xg.shape[0]] = np.sort(P - xg)
    M, N = mf._map_asm2gap(xb_reg, xb_core2)
    check_maps(res, xb_reg, xb_core2, M, N, rng, mf.map_across_gap,
               {'region': 'rodded'}, 'witness')
    res.nontrivial('witness')


def run_case(case):
    res = Result(case)
    rng = np.random.default_rng(case['seed'])
    kind = case['kind']
    if kind == 'repotests':
        got, tail = drive.run_repo_tests(['c10'])
        if 'c10' not in got:
            res.status('error', 'test-suite run left no monitor output: '
                       + tail)
            return res
        res.d.update({k: got['c10'][k] for k in ('viol', 'counts', 'stats')})
        res.tag('repo_tests_workload')
        res.sample({'case': case, 'pytest': tail})
        return res
    if kind == 'witness':
        run_witness(case, res, rng)
        res.sample({'case': case, 'xb_reg': WITNESS_REG,
                    'xb_core': WITNESS_GAP})
        return res
    if kind == 'nr1':
        # num_rings = 1 of the quantifier: DASSH refuses single-pin bundles,
        # so no (1-ring rodded) mesh can arise; recorded, never a pass.
        P = _base(rng)
        try:
            P['types']['a'] = gen.make_type(rng, 1, FTF, n_duct=1,
                                            duct_material='steel_const')
            _place(P, 'a', 0, rng)
            with drive.scratch() as d:
                drive.build(P, d)
            res.tag('single_pin_bundle:accepted')
        except drive.Rejected as e:
            res.tag('single_pin_bundle:rejected_by_dassh')
            res.status('rejected', str(e))
        return res
    builder = {'grid': build_grid, 'core': build_core, 'split': build_split,
               'near': build_near}[kind]
    P, feats = builder(case, rng)
    feats['outer_pair_reversed'] = reverse_pairs(
        P, np.random.default_rng(case['seed'] + [77]))
    try:
        if kind in ('grid', 'near'):
            different = run_direct(case, res, P, feats, rng)
        else:
            different = run_hooked(case, res, P, feats, rng,
                                   n_steps=case.get('steps', 25))
    except drive.Rejected as e:
        res.status('rejected', str(e))
        res.tag('rejected:%s:%s' % (kind, e.stage))
        return res
    res.tag('kind:' + kind)
    if different > 0:
        res.nontrivial('%s/%s' % (kind, sorted(feats.items(), key=str)))
    res.sample({'case': case, 'features': feats})
    return res


def classify(v, case):
    """F13: the duct->gap row of the split top-corner gap cell is the plain
    mean of its two half rows although the halves have different widths."""
    k = v.get('key', {}) or {}
    if k.get('mech') == 'identity_for_unequal_meshes':
        return 'F26'
    if (v['monitor'] in ('M3_detailed_balance_split_corner',
                         'M4_integral_duct2gap', 'U3_apply_integral')
            and k.get('where') == 'split_top_corner_gap_cell'
            and k.get('halves') == 'unequal'
            and k.get('wider_than_duct_corner') is True
            and k.get('map') == 'duct2gap'
            and k.get('mech') is None):
        return 'F13'
    return None
