"""C11 - duct-wall temperatures solve steady 1-D conduction with the stated BCs."""
import numpy as np
from vmon import gen, drive, workloads as wl, env
from vmon.harness import Result
from vmon.probe import Hooks
from vmon.stepmon import StepMonitor

dassh = env.import_dassh()

PROPERTY = 'C11'
LEVEL = 'exploration'
TECHNIQUE = ('runtime monitoring: contract on every real _calc_duct_temp '
             'call of generated sweeps (wrapper hook, conductivity and film '
             'coefficients captured as used) plus direct calls on generated '
             'states; closed-form slab relations as the oracle')
LEVEL_TEXT = ('Every duct cell of every wall solve observed (rodded inner / '
              'middle / outer ducts, low-fidelity regions, adiabatic and '
              'coupled outer boundary, heated and unheated walls, film '
              'coefficients 1e2-1e6, conductivities 5-60, thickness '
              '0.5-6 mm) satisfies flux-in + generation = flux-out, the '
              'parabolic mid-wall relation and Fourier\'s law to 1e-9. Held '
              'on the executions observed.')
LEVEL_NOTE = ('Wall conductivity is the value set by the _update_duct call '
              'inside the solve; thickness and heated volume are recomputed '
              'from input dimensions.')
DESIGN_REF = 'DESIGN.md section 3, C11'
RULE = ('random single assemblies and small cores swept with the real '
        'Reactor (every wall solve monitored) and direct calls of the real '
        '_calc_duct_temp on random states (temperatures 500-1100 K either '
        'side, heating 0-1e5 W/m per cell, user wall materials k 5-60, wall '
        'thickness 0.5-6 mm, film coefficients overridden 1e2-1e6); '
        'non-trivial when >= 100 duct cells with a wall temperature '
        'difference > 1e-3 K were checked; distinct by (ducts, option, '
        'region kinds)')
RULE += (' Later rounds added: multi-duct assemblies with heating in some walls only.')
DECIDING = ['D1_flux_balance', 'D2_midwall_parabola', 'D3_fourier_mean_flux',
            'D5_ordered_without_heating']
CASE_TIMEOUT = {'quick': 200, 'thorough': 900}
BUDGET = {'quick': 600, 'thorough': 3000}
ASSUMPTIONS = ['slab (not cylindrical/corner-corrected) wall model is the '
               'stated model']
MAX_STEPS = 6000
TOL = 1e-9


def cases(tier, seed):
    out = []
    n = 40 if tier == 'quick' else 1500
    for i in range(n):
        out.append({'name': 'sweep-%d' % i, 'kind': 'sweep',
                    'seed': [seed, 111, i]})
    n = 6 if tier == 'quick' else 200
    for i in range(n):
        out.append({'name': 'core-%d' % i, 'kind': 'core',
                    'seed': [seed, 112, i]})
    n = 40 if tier == 'quick' else 2000
    for i in range(n):
        out.append({'name': 'direct-%d' % i, 'kind': 'direct',
                    'seed': [seed, 113, i]})
    for n, nm in enumerate(drive.repo_inputs()):
        if tier == 'quick' and n % 3 != 1:
            continue
        out.append({'name': 'repo-' + nm[6:-4], 'kind': 'repo', 'input': nm,
                    'seed': [seed, 114, n]})
    if tier == 'thorough':
        # the repository's own test-suite as one more workload
        out.insert(0, {'name': 'repo-tests', 'kind': 'repotests',
                       'seed': [seed, 0, 0]})
    return out


def _thick(reg, d):
    if reg.is_rodded:
        return 0.5 * (float(reg.duct_ftf[d][1]) - float(reg.duct_ftf[d][0]))
    return 0.5 * (float(reg.duct_ftf[1]) - float(reg.duct_ftf[0]))


def _heated_width(reg, d):
    """Width (m) such that q''' * t * width = linear power of the cell:
    edge = pin pitch, corner = outer-surface corner width of that wall."""
    nr = reg.n_ring
    P = reg.pin_pitch
    typ = np.asarray(reg._duct_idx)
    f_o = float(reg.duct_ftf[d][1])
    wc = (2 * np.sqrt(3.0) * f_o - 6 * (nr - 1) * P) / 6.0
    return np.where(typ == 0, P, wc)


def check_rodded(res, reg, T_int, T_byp, temps, p_duct, t_gap, h_gap,
                 adiabatic, k_used, htc_int, htc_byp, key):
    nd = reg.subchannel.n_sc['duct']['total']
    n_int = reg.subchannel.n_sc['coolant']['interior']
    typ = np.asarray(reg._duct_idx)
    nontriv = 0
    for d in range(reg.n_duct):
        t = _thick(reg, d)
        k = k_used[d]
        if d == 0:
            Tin = T_int[n_int:]
            hin = np.asarray(htc_int)[1:][typ]
        else:
            Tin = T_byp[d - 1]
            hin = np.asarray(htc_byp)[d - 1][typ]
        last = (d == reg.n_duct - 1)
        if last:
            Tout = np.asarray(t_gap, dtype=float)
            hout = np.asarray(h_gap, dtype=float)
            if hout.shape[0] == 2:
                hout = hout[typ]
        else:
            Tout = T_byp[d]
            hout = np.asarray(htc_byp)[d][typ]
        if p_duct is None:
            qv = np.zeros(nd)
        else:
            w = _heated_width(reg, d)
            qv = np.asarray(p_duct)[d * nd:(d + 1) * nd] / (t * w)
        Tsi = temps['duct_surf'][d, 0]
        Tso = temps['duct_surf'][d, 1]
        Tmw = temps['duct_mw'][d]
        fin = hin * (Tin - Tsi)                 # into the wall, W/m2
        k2 = dict(key, duct=('outer' if last else ('inner' if d == 0
                                                   else 'middle')),
                  adiabatic=bool(adiabatic and last), region='rodded',
                  heated=bool(np.any(qv > 0)))
        if adiabatic and last:
            fout = np.zeros(nd)
            # zero gradient at the outer face: dT/dx = -q x/k + c1, x = t/2
            # => Ts_out - T_mw = q t^2 / 8k  (maximum at the outer face)
            sc = np.abs(Tso) * 1e-6 + np.abs(qv) * t * t / k + 1e-12
            r = (Tso - Tmw) - qv * t * t / (8 * k)
            res.close('D4_adiabatic_outer_flux_zero', float(np.max(np.abs(
                r) / sc)), 1.0, 1e-6,
                'adiabatic outer face carries a heat flux', k2)
        else:
            fout = hout * (Tso - Tout)          # out of the wall, W/m2
        scale = np.abs(fin) + np.abs(fout) + np.abs(qv) * t \
            + (hin + hout) * np.abs(Tin) * 1e-5
        resid = fin + qv * t - fout
        res.close('D1_flux_balance', float(np.max(np.abs(resid) / scale)),
                  1.0, TOL, 'heat into the wall + generation != heat out',
                  k2)
        # parabolic profile: T_mw - mean(surfaces) = q t^2 / 8k
        sc2 = np.abs(Tmw) * 1e-7 + np.abs(qv) * t * t / (8 * k)
        r2 = Tmw - 0.5 * (Tsi + Tso) - qv * t * t / (8 * k)
        res.close('D2_midwall_parabola', float(np.max(np.abs(r2) / sc2)),
                  1.0, 1e-6, 'mid-wall temperature off the parabolic slab '
                  'profile', k2)
        # Fourier: k (Ts_in - Ts_out)/t = mean of the two face fluxes
        r3 = k * (Tsi - Tso) / t - 0.5 * (fin + fout)
        res.close('D3_fourier_mean_flux', float(np.max(np.abs(r3) / scale)),
                  1.0, TOL, 'wall temperature drop != mean flux * t / k', k2)
        if not np.any(qv > 0) and not (adiabatic and last):
            lo = np.minimum(Tin, Tout) - 1e-9
            hi = np.maximum(Tin, Tout) + 1e-9
            asc = Tin <= Tout
            ok = np.all((Tsi >= lo) & (Tsi <= hi) & (Tmw >= lo) & (Tmw <= hi)
                        & (Tso >= lo) & (Tso <= hi))
            mono = np.all(np.where(asc, (Tsi <= Tmw + 1e-9) &
                                   (Tmw <= Tso + 1e-9),
                                   (Tsi >= Tmw - 1e-9) & (Tmw >= Tso - 1e-9)))
            res.check('D5_ordered_without_heating', bool(ok and mono),
                      'unheated wall temperatures not ordered between the '
                      'two coolant temperatures', k2)
        nontriv += int(np.sum(np.abs(Tsi - Tso) > 1e-3))
        res.count('duct_cells_checked', nd)
    return nontriv


def check_unrodded(res, reg, T_c, temps, t_gap, h_gap, adiabatic, k_used,
                   htc, key):
    t = _thick(reg, 0)
    Tsi = temps['duct_surf'][0, 0]
    Tso = temps['duct_surf'][0, 1]
    Tmw = temps['duct_mw'][0]
    Tin = np.asarray(T_c, dtype=float) * np.ones(6)
    k2 = dict(key, region=reg.model, adiabatic=bool(adiabatic))
    if adiabatic:
        res.check('D4_adiabatic_outer_flux_zero',
                  bool(np.all(Tsi == Tin) and np.all(Tso == Tin)
                       and np.all(Tmw == Tin)),
                  'adiabatic unheated wall is not at its coolant '
                  'temperature', k2)
        return 0
    hin = float(htc)
    hout = np.asarray(h_gap, dtype=float)
    Tout = np.asarray(t_gap, dtype=float)
    fin = hin * (Tin - Tsi)
    fout = hout * (Tso - Tout)
    scale = np.abs(fin) + np.abs(fout) + (hin + hout) * np.abs(Tin) * 1e-5
    res.close('D1_flux_balance', float(np.max(np.abs(fin - fout) / scale)),
              1.0, TOL, 'heat into the wall != heat out', k2)
    res.close('D2_midwall_parabola', float(np.max(np.abs(
        Tmw - 0.5 * (Tsi + Tso)) / (np.abs(Tmw) * 1e-7 + 1e-12))), 1.0, 1e-6,
        'unheated mid-wall is not the mean of the faces', k2)
    r3 = k_used * (Tsi - Tso) / t - 0.5 * (fin + fout)
    res.close('D3_fourier_mean_flux', float(np.max(np.abs(r3) / scale)), 1.0,
              TOL, 'wall temperature drop != flux * t / k', k2)
    lo = np.minimum(Tin, Tout) - 1e-9
    hi = np.maximum(Tin, Tout) + 1e-9
    ok = np.all((Tsi >= lo) & (Tsi <= hi) & (Tmw >= lo) & (Tmw <= hi)
                & (Tso >= lo) & (Tso <= hi))
    res.check('D5_ordered_without_heating', bool(ok),
              'unheated wall temperatures not between the two coolant '
              'temperatures', k2)
    res.count('duct_cells_checked', 6)
    return int(np.sum(np.abs(Tsi - Tso) > 1e-3))


def step_contract(res, key, nt=None):
    """The wall-solve contract as a StepMonitor callback."""
    nt = nt if nt is not None else [0]

    def on_step(rec):
        reg = rec['reg']
        subs = rec['sub'].get('_calc_duct_temp')
        if not subs:
            return
        s = subs[0]
        kk = [c['k'] for c in s['calls'] if c['kind'] == 'duct']
        if reg.is_rodded:
            if len(kk) != reg.n_duct:
                res.check('D0_one_conductivity_update_per_wall', False,
                          'expected one duct property update per wall', key)
                return
            pw = rec['pow'] or {}
            nt[0] += check_rodded(
                res, reg, rec['pre']['coolant_int'],
                rec['pre'].get('coolant_byp'), rec['post'],
                pw.get('duct'), rec['t_gap'], rec['h_gap'],
                rec['adiabatic'], kk, rec['htc_int'], rec.get('htc_byp'),
                key)
        else:
            six = (reg.model == '6node')
            # six-node: coolant is advanced first, the wall sees the new one
            Tc = rec['post']['coolant_int'] if six else \
                rec['pre']['coolant_int'][0]
            if rec['adiabatic']:
                k_used, htc = 1.0, 1.0
            else:
                k_used = kk[0] if kk else s['duct_k_post']
                htc = s['htc_post']
            nt[0] += check_unrodded(res, reg, Tc, rec['post'], rec['t_gap'],
                                    rec['h_gap'], rec['adiabatic'], k_used,
                                    htc, key)

    return on_step


def run_sweep(case, res):
    rng = np.random.default_rng(case['seed'])
    P = None
    if case['kind'] == 'repo':
        feats = {'repo_input': case['input'], 'tdep': True}
    elif case['kind'] == 'core':
        P, feats = wl.core_problem(rng, n_ring=2, tdep=(rng.random() < 0.4),
                                   gap=wl.choose(rng, ['flow', 'no_flow',
                                                       'duct_average']),
                                   empty_frac=0.2, max_rings=4, length=0.3,
                                   vel_range=(0.2, 5.0))
    else:
        P, feats = wl.single_assembly(rng, coolant_pool=True,
                                      max_rings=5, length=0.3,
                                      vel=wl.loguniform(rng, 0.05, 6.0))
    if P is not None and rng.random() < 0.35:
        # multi-duct assemblies with heating in some walls only
        for q in P['positions']:
            nd_ = len(P['types'][q['type']]['duct_ftf']) // 2
            if nd_ > 1:
                sp_ = P['power']['asm'][str(gen.pos_index0(q['ring'],
                                                           q['pos']))]
                sp_['comps'] = [1, 2, 3]
                sp_['frac'] = [0.6, 0.3, 0.1]
                zero = [w for w in range(nd_) if rng.random() < 0.5]
                if len(zero) == nd_:
                    zero = zero[1:]
                sp_['duct_walls_zero'] = zero or [nd_ - 1]
                feats['walls_unheated'] = True
    key = {'gap': (P['gap_model'] if P else 'repo'), 'tdep': feats['tdep']}
    nt = [0]
    on_step = step_contract(res, key, nt)

    with drive.scratch() as d, Hooks() as hk:
        if P is None:
            inp, r = drive.build_repo_input(case['input'], d,
                                            max_steps=MAX_STEPS)
            res.tag('repo_input')
        else:
            inp, r = drive.build(P, d, max_steps=MAX_STEPS)
        StepMonitor(hk, on_step)
        drive.sweep(r)
        for a in r.assemblies:
            for reg in a.region:
                res.tag('region:' + ('rodded' if reg.is_rodded
                                     else reg.model))
                if reg.is_rodded:
                    res.tag('n_duct=%d' % reg.n_duct)
    res.tag('gap=' + (P['gap_model'] if P else 'repo'))
    res.tag('tdep=%s' % feats['tdep'])
    res.tag('some_walls_unheated=%s' % bool(feats.get('walls_unheated')))
    if nt[0] >= 100:
        res.nontrivial(repr(sorted(feats.items(), key=str)))
    return feats


def run_direct(case, res):
    """Real _calc_duct_temp on generated states with chosen k, t and h."""
    rng = np.random.default_rng(case['seed'])
    nd = int(wl.choose(rng, [1, 1, 2, 3]))
    k = float(wl.loguniform(rng, 5.0, 60.0))
    wall = float(wl.loguniform(rng, 0.0005, 0.006))
    adiabatic = rng.random() < 0.3
    P = gen.base_problem(length=0.2, gap_model=('none' if adiabatic
                                                else 'flow'),
                         bypass_fraction=(0.0 if adiabatic else 0.05))
    P['materials']['wallmat'] = {'thermal_conductivity': [k]}
    lf = rng.random() < 0.25
    t = gen.make_type(rng, int(rng.integers(2, 6)), 0.1175, n_duct=nd,
                      wall=wall, duct_material='wallmat',
                      byp_ff=(0.0 if rng.random() < 0.3 else 0.1))
    if lf:
        t['use_low_fidelity_model'] = True
        t['convection_factor'] = wl.choose(rng, [1.0, 0.5, 0.1])
    P['types']['a'] = t
    gen.add_position(P, 'a', 1, 1, velocity=wl.loguniform(rng, 0.05, 5.0),
                     dT=30.0)
    key = {'direct': True, 'n_duct': nd}
    nt = 0
    with drive.scratch() as d:
        inp, r = drive.build(P, d, max_steps=MAX_STEPS)
        a = r.assemblies[0]
        reg = a.region[0]
        for rep in range(6):
            h_scale = wl.loguniform(rng, 1e2, 1e6)
            if reg.is_rodded:
                n = reg.subchannel.n_sc['coolant']['total']
                ndc = reg.subchannel.n_sc['duct']['total']
                reg.temp['coolant_int'][:] = rng.uniform(500, 1100, n)
                reg.coolant_int_params['htc'] = h_scale * rng.uniform(
                    0.5, 2.0, 3)
                if reg.n_bypass > 0:
                    reg.temp['coolant_byp'][...] = rng.uniform(
                        500, 1100, reg.temp['coolant_byp'].shape)
                    reg.coolant_byp_params['htc'] = h_scale * rng.uniform(
                        0.5, 2.0, (reg.n_bypass, 2))
                heated = rng.random() < 0.6
                p = (rng.uniform(0, 1e5, ndc * reg.n_duct) if heated
                     else (None if rng.random() < 0.5
                           else np.zeros(ndc * reg.n_duct)))
                if adiabatic:
                    tg, hg = np.ones(ndc), np.ones(ndc)
                else:
                    tg = rng.uniform(500, 1100, ndc)
                    hg = wl.loguniform(rng, 1e2, 1e6) * rng.uniform(
                        0.5, 2.0, ndc)
                T_int = reg.temp['coolant_int'].copy()
                T_byp = (reg.temp['coolant_byp'].copy()
                         if reg.n_bypass > 0 else None)
                with drive.quiet():
                    reg._calc_duct_temp(p, tg, hg, adiabatic)
                nt += check_rodded(res, reg, T_int, T_byp, reg.temp, p, tg,
                                   hg, adiabatic, [k] * reg.n_duct,
                                   reg.coolant_int_params['htc'],
                                   (reg.coolant_byp_params['htc']
                                    if reg.n_bypass > 0 else None), key)
            else:
                reg.temp['coolant_int'][:] = rng.uniform(500, 1100)
                reg.coolant_params['htc'] = h_scale
                tg = rng.uniform(500, 1100, 6)
                hg = wl.loguniform(rng, 1e2, 1e6) * rng.uniform(0.5, 2.0, 6)
                Tc = reg.temp['coolant_int'][0]
                with drive.quiet():
                    reg._calc_duct_temp(tg, hg, adiabatic)
                nt += check_unrodded(res, reg, Tc, reg.temp, tg, hg,
                                     adiabatic, k, h_scale, key)
    res.tag('direct:n_duct=%d' % nd)
    res.tag('direct:adiabatic=%s' % adiabatic)
    res.tag('direct:lf=%s' % lf)
    if nt >= 20 or adiabatic:
        res.nontrivial('direct/%d/%s/%s/%.3g/%.3g' % (nd, adiabatic, lf, k,
                                                      wall))
    return {'n_duct': nd, 'k': k, 'wall': wall, 'adiabatic': adiabatic,
            'lf': lf}


def run_case(case):
    res = Result(case)
    if case['kind'] == 'repotests':
        got, tail = drive.run_repo_tests(['c11'])
        if 'c11' not in got:
            res.status('error', 'test-suite run left no monitor output: '
                       + tail)
            return res
        res.d.update({k: got['c11'][k] for k in ('viol', 'counts', 'stats')})
        res.tag('repo_tests_workload')
        res.sample({'case': case, 'pytest': tail})
        if sum(res.d['counts'].values()) > 1000:
            res.nontrivial('repo-tests')
        return res
    try:
        if case['kind'] == 'direct':
            feats = run_direct(case, res)
        else:
            feats = run_sweep(case, res)
        res.sample({'case': case, 'features': feats})
    except drive.Rejected as e:
        res.status('rejected', str(e))
        res.tag('rejected:' + e.stage)
    return res


def classify(v, case):
    return None
