"""C20 - orifice grouping partitions assemblies; flow distribution conserves
flow.

Contracts (pre/post wrappers, vmon.probe.Hooks) on the REAL
dassh.orificing.Orificing._group / distribute / regroup / run_dassh_orifice.
The same contracts are attached in

  workload A  Orificing instances populated with generated data (power lists,
              cut-off parameters, parametric response tables) and driven
              through the real group_by_power -> [regroup] -> distribute ->
              _summarize_group_data loop with a surrogate "DASSH sweep";
  workload B  end-to-end Orificing.optimize() on small generated user-power
              cores (everything real: input parser, Reactor, sweeps, pickles).

The oracle is computed from the call arguments and the instance inputs only
(never from the value under test): partition / count / order of the groups,
equal flow inside a group, required total flow from the energy balance
Q = m cp dT, pressure drop of every distributed flow from the parametric
(flow, pressure drop) table by the monitor's own piecewise-linear evaluation.

Outcomes per call: a result (checked), DASSH's error exit (SystemExit after a
logged error: 'rejected', never a pass), or an exception raised inside
orificing.py (neither: X1 violation). Exceptions raised deeper in DASSH during
an end-to-end run (sweep, output tables) and runs that would feed a
non-positive flow into a DASSH sweep end the observation of that run and are
tagged 'aborted_outside_orificing:*' - they belong to other properties.

Observed but not asserted (the property does not state it): sign of the
distributed flows (tag obs_nonpositive_flow, stat obs_min_flow_over_mean) and
whether regrouping keeps the grouping-parameter order (regrouping moves
assemblies by temperature on purpose).
"""
import os
import types
import traceback
import copy
import numpy as np
from vmon import env, gen, drive, workloads as wl
from vmon.harness import Result, CaseTimeout
from vmon.probe import Hooks

dassh = env.import_dassh()

PROPERTY = 'C20'
LEVEL = 'exploration'
TECHNIQUE = ('runtime monitoring: pre/post contracts wrapped around the real '
             'Orificing._group, distribute, regroup and run_dassh_orifice; '
             'generated power lists / cut-offs / response tables / iteration '
             'histories with a surrogate sweep, exhaustive small multisets, '
             'and end-to-end Orificing.optimize() runs with the same '
             'contracts attached')
LEVEL_TEXT = ('Every observed call of the grouping and flow-distribution '
              'methods is checked against an independently recomputed '
              'partition/ordering/flow-total oracle (exact identities, 1e-9 '
              'relative); held on the executions observed, not proved. '
              'Sub-space enumerated completely: all multisets of <= 8 '
              'assemblies over 4 power levels (<= 5 over 5 levels) x n_groups '
              '1..N+1 x 3 cut-off settings (thorough; <= 5 over 3 levels x 2 '
              'settings in quick).')
LEVEL_NOTE = ('Trusts numpy, the Material polynomial evaluator (heat capacity '
              'is re-evaluated by the monitor from the coefficients it wrote '
              'into the input) and, in workload A, that the surrogate sweep '
              'stands in for a DASSH sweep (it only has to produce a results '
              'table of the documented layout; the contracts do not depend on '
              'its physics). In workload B the assembly powers that '
              'distribute() starts from are taken from the instance '
              '(power integration is C03).')
DESIGN_REF = 'DESIGN.md section 3, C20'
RULE = ('A-group: power lists of 1-30 (quick) / 1-48 (thorough) assemblies '
        'in 9 styles (uniform, '
        'log-spread over 1-3 decades, clusters with 1e-4..5e-2 jitter, exact '
        'ties, sixfold-symmetric multiplets, arithmetic/geometric ladders, '
        'all equal, near-degenerate gaps), n_groups 1..N+1, group_cutoff '
        '1e-3..1, group_cutoff_delta 1e-5..1 (defaults over-weighted), '
        'grouping by power or by linear power; A-enum: every multiset over a '
        'small alphabet of power levels x every n_groups 1..N+1 x cut-off '
        'settings; A-hist: 1-2 assembly types with monotone parametric '
        'curves, 1-2 time steps, 2-5 iterations, regroup never/once/every, '
        'with/without pressure-drop limit (binding, loose, infeasible), '
        'surrogate response off the table by a per-assembly factor and an '
        'energy loss so that dT_prev != dT_target; B: 7-position cores, 1-2 '
        'types (second type grouped or not), 2-3 groups, 2-3 iterations; '
        'B-mixed: two orificed types of different hydraulic resistance '
        '(2 rings P/D 1.25-1.35 vs 3-4 rings P/D 1.07-1.12) at interleaved '
        'positions (5 layouts), either type hottest / listed first, and a '
        'pressure-drop limit at 0.7-0.9 of the largest nominal pressure '
        'drop so that it binds for one type; D3 evaluates every flow on '
        'the table of the assembly\'s OWN type (generator id->type map), '
        'not on the (id, type) table kept by the code. '
        'A case is non-trivial when it produced >= 1 accepted grouping with '
        '>= 2 groups and fewer groups than assemblies (group kinds) or >= 2 '
        'checked distribute calls incl. one with previous results (hist, '
        'e2e); distinct by case kind and generated content.')
RULE += (' Later rounds added kind e2etp (2-3 time points with non-proportional powers), grouped types with un-rodded regions, gravity head with a limit, and monitors T1-T3 on the power and parametric-table inputs of the optimiser.')
DECIDING = ['G1_partition', 'G2_group_count', 'G3_order',
            'D1_same_flow_in_group', 'D2_total_flow_first_iter',
            'D2_total_flow_later_iter', 'D3_dp_limit_respected',
            'R1_regroup_keeps_partition', 'A1_applied_flow_is_distributed',
            'e2emix_runs_with_binding_limit']
CASE_TIMEOUT = {'quick': 240, 'thorough': 900}
BUDGET = {'quick': 600, 'thorough': 3000}
EXHAUSTIVE = {'quick': False, 'thorough': False}   # only the A-enum sub-space
ASSUMPTIONS = ['numpy float64 arithmetic',
               'coolant heat capacity polynomial as written to the input by '
               'the generator (constant or linear in T, for which the '
               'mid-point value is the exact mean over the rise)',
               'assembly powers handed to distribute() (self._power) are '
               'correct (C03)']
TOL = 1e-9

Orificing = dassh.orificing.Orificing
VERIF_ROOT = os.path.dirname(os.path.dirname(os.path.dirname(
    os.path.abspath(__file__)))) + os.sep
MECH_FEWER = 'fewer_groups_than_requested'
MECH_LAST = 'dp_limit_not_applied_to_last_group'
MECH_REGROUP = 'regroup_identifies_groups_by_flow_rank'


# ----------------------------------------------------------------------
# oracle helpers (independent of the code under test)


def group_labels_ok(labels, n_groups):
    """-> (ok, mechanism) for 'exactly n_groups non-empty groups 0..n-1'."""
    lab = np.asarray(labels, dtype=float)
    if lab.size == 0 or not np.all(np.isfinite(lab)) or \
            np.any(lab != np.round(lab)):
        return False, 'non_integer_group_label'
    present = sorted(set(int(x) for x in lab))
    if present == list(range(n_groups)):
        return True, None
    if len(present) == n_groups - 1 and \
            present == list(range(n_groups - 1)):
        return False, MECH_FEWER
    if len(present) < n_groups:
        return False, 'too_few_groups'
    if len(present) > n_groups:
        return False, 'more_groups_than_requested'
    return False, 'group_labels_not_contiguous'


def dp_at(table, m):
    """Pressure drop at flow m from the (flow, dp) points of one parametric
    table: piecewise linear between points, last/first segment extended."""
    f = np.asarray(table[:, 2], dtype=float)
    p = np.asarray(table[:, 3], dtype=float)
    o = np.argsort(f)
    f, p = f[o], p[o]
    if m >= f[-1]:
        s = (p[-1] - p[-2]) / (f[-1] - f[-2])
        return p[-1] + s * (m - f[-1])
    if m <= f[0]:
        s = (p[1] - p[0]) / (f[1] - f[0])
        return p[0] + s * (m - f[0])
    j = int(np.searchsorted(f, m)) - 1
    j = min(max(j, 0), len(f) - 2)
    w = (m - f[j]) / (f[j + 1] - f[j])
    return p[j] + w * (p[j + 1] - p[j])


def own_types(o, ids, ctx):
    """Index into _parametric['data'] of every assembly's OWN type, from the
    generator's id -> type-name map and the order of assemblies_to_group
    (run_parametric builds one table per listed type, in that order); the
    (id, type) table kept by the code under test is used only as a fallback
    and is compared with this (tag obs_type_table_matches_own_types)."""
    tab = np.asarray(o._parametric['asm_ids'])[:, 1].astype(int)
    m = ctx.get('type_of_id')
    if not m:
        return tab, None
    names = list(o.orifice_input['assemblies_to_group'])
    own = np.array([names.index(m[int(a)]) for a in ids], dtype=int)
    same = tab.shape == own.shape and bool(np.array_equal(tab, own))
    return own, same


def order_ok(params, labels):
    """No assembly in a later group exceeds one in an earlier group."""
    labs = sorted(set(int(x) for x in labels))
    prev_min = None
    for g in labs:
        v = params[labels == g]
        if prev_min is not None and np.max(v) > prev_min:
            return False, g
        prev_min = np.min(v)
    return True, None


class Contracts(object):
    """The C20 contracts; attach(hk) wraps the real methods."""

    def __init__(self, res, ctx):
        self.res = res
        self.ctx = ctx        # {'cp_mean': f(t0, t1), 'key': {...}}
        self.n_dist = 0
        self.n_dist_prev = 0
        self.n_dp_binding = 0
        self.n_group_ok = 0
        self.fewer_seen = False
        self.last_group_valid = None
        self.regroup_broke = False
        self.min_flow = None

    def new_episode(self):
        """Forget what the previous instance's grouping looked like."""
        self.fewer_seen = False
        self.last_group_valid = None
        self.regroup_broke = False

    def key(self, **kw):
        k = dict(self.ctx.get('key', {}))
        k.update(kw)
        return k

    # -- _group ---------------------------------------------------------
    def group_pre(self, args, kwargs):
        o, params = args[0], np.array(args[1], dtype=float)
        return {'params': params.copy(),
                'n_groups': int(o.orifice_input['n_groups']),
                'cutoff': o.orifice_input['group_cutoff'],
                'delta': o.orifice_input['group_cutoff_delta']}

    def group_post(self, args, kwargs, gd, tok):
        res = self.res
        p = tok['params']
        n = tok['n_groups']
        wit = {'powers': p[:, 1].tolist() if p.shape[0] <= 12 else
               'n=%d' % p.shape[0], 'n_groups': n,
               'group_cutoff': tok['cutoff'],
               'group_cutoff_delta': tok['delta']}
        gd = np.asarray(gd, dtype=float)
        ok = gd.ndim == 2 and gd.shape == (p.shape[0], 3)
        if ok:
            a = gd[np.lexsort((gd[:, 1], gd[:, 0]))][:, :2]
            b = p[np.lexsort((p[:, 1], p[:, 0]))][:, :2]
            ok = bool(np.array_equal(a, b))
        res.check('G1_partition', ok,
                  'grouping does not return every requested assembly exactly '
                  'once with its own parameter value',
                  self.key(mech='assemblies_lost_or_duplicated'), wit)
        if not ok:
            self.last_group_valid = False
            return
        okc, mech = group_labels_ok(gd[:, 2], n)
        wit2 = dict(wit, groups_returned=len(set(gd[:, 2].tolist())))
        if mech == MECH_FEWER:
            self.fewer_seen = True
            k = {'mech': MECH_FEWER}
        else:
            k = self.key(mech=mech)
        res.check('G2_group_count', okc,
                  '_group returned %d group(s) for n_groups=%d without an '
                  'error exit' % (len(set(gd[:, 2].tolist())), n), k, wit2)
        oko, g = order_ok(gd[:, 1], gd[:, 2].astype(int))
        res.check('G3_order', oko,
                  'an assembly in group %r has a larger grouping parameter '
                  'than one in the group before' % g,
                  self.key(mech='group_order'), wit)
        self.last_group_valid = bool(okc)
        if okc:
            self.n_group_ok += 1
            res.tag('grouped:n_groups=%s' % (n if n < 6 else '6+'))
            if 2 <= n < p.shape[0]:
                res.count('groupings_nontrivial')

    # -- distribute -----------------------------------------------------
    def dist_pre(self, args, kwargs):
        o = args[0]
        res_prev = args[1] if len(args) > 1 else kwargs.get('res_prev')
        t_prev = args[2] if len(args) > 2 else kwargs.get('t_out_prev')
        oi = o.orifice_input
        t_in = float(o.t_in)
        t_tgt = float(oi['bulk_coolant_temp'])
        tok = {'first': res_prev is None, 'n_groups': int(oi['n_groups']),
               'gd': np.array(o.group_data, dtype=float),
               'limit': oi['pressure_drop_limit']}
        if res_prev is None:
            q = float(np.sum(np.asarray(o._power)[:, 1]))
            cp = self.ctx['cp_mean'](t_in, t_tgt)
            need = q / (cp * (t_tgt - t_in))
            if t_prev is not None:
                need *= (float(t_prev) - t_in) / (t_tgt - t_in)
            tok['q'] = q
        else:
            rp = np.asarray(res_prev, dtype=float)
            ids = np.unique(rp[:, 1])
            tot = 0.0
            for a in ids:
                tot += float(rp[rp[:, 1] == a][0, 3])
            # previous bulk outlet temperature: flow-weighted mean, by the
            # monitor (the argument handed in is compared with it as well)
            t_bulk = float(np.sum(rp[:, 3] * rp[:, 4]) / np.sum(rp[:, 3]))
            tok['t_bulk_prev'] = t_bulk
            tok['t_prev_arg'] = t_prev
            tok['m_prev'] = tot
            need = tot * (t_bulk - t_in) / (t_tgt - t_in)
        tok['need'] = need
        return tok

    def dist_post(self, args, kwargs, out, tok):
        res = self.res
        o = args[0]
        m = np.asarray(out[0], dtype=float)
        gd = tok['gd']
        lab = gd[:, 2]
        key = self.key(first=tok['first'], dp_limit=bool(tok['limit']))
        self.n_dist += 1
        if not tok['first']:
            self.n_dist_prev += 1
        ok = m.shape == (gd.shape[0],) and bool(np.all(np.isfinite(m)))
        res.check('D0_flows_finite', ok,
                  'distribute returned non-finite flows or a wrong count',
                  dict(key, mech='nonfinite_flow'))
        if not ok:
            return
        # D1 equal flow inside a group
        worst = 0.0
        for g in np.unique(lab):
            v = m[lab == g]
            worst = max(worst, float(np.max(v) - np.min(v))
                        / max(abs(float(np.mean(v))), 1e-300))
        res.close('D1_same_flow_in_group', worst, 1.0, 1e-12,
                  'members of one orifice group get different flow rates',
                  dict(key, mech='unequal_flow_in_group'))
        # D2 total
        name = 'D2_total_flow_first_iter' if tok['first'] else \
            'D2_total_flow_later_iter'
        res.close(name, float(np.sum(m)) - tok['need'], tok['need'], TOL,
                  'distributed flows do not sum to the flow required by the '
                  'bulk outlet temperature target',
                  dict(key, mech='total_flow'),
                  {'sum': float(np.sum(m)), 'need': tok['need']})
        if not tok['first'] and tok.get('t_prev_arg') is not None:
            res.close('D2b_t_out_prev_is_bulk_mean',
                      float(tok['t_prev_arg']) - tok['t_bulk_prev'],
                      tok['t_bulk_prev'] - float(o.t_in), TOL,
                      'outlet temperature handed to distribute is not the '
                      'flow-weighted mean of the previous results',
                      dict(key, mech='t_out_prev'))
        # D3 pressure-drop limit
        if tok['limit']:
            lim = float(tok['limit']) * 1e6
            typ, same = own_types(o, gd[:, 0], self.ctx)
            if same is not None:
                res.tag('obs_type_table_matches_own_types:%s' % same)
            tabs = o._parametric['data']
            worst, wi = -np.inf, None
            for i in range(m.shape[0]):
                e = dp_at(np.asarray(tabs[typ[i]]), m[i]) / lim - 1.0
                if e > worst:
                    worst, wi = e, i
            # beyond the largest tabulated flow no pressure drop is known
            # (the curve is convex: any linear extension underestimates it),
            # so with a limit in force no flow may leave the table's range
            over = max(float(m[i]) / float(np.max(np.asarray(
                tabs[typ[i]])[:, 2])) - 1.0 for i in range(m.shape[0]))
            res.check('D3b_limited_flow_within_tabulated_range',
                      over <= 1e-9,
                      'with a pressure-drop limit in force a distributed flow '
                      'is %.1f %% above the largest tabulated flow of its '
                      'type (no pressure drop is known there)' % (100 * over),
                      dict(key, mech='beyond_table'))
            last = int(lab[wi]) == tok['n_groups'] - 1
            res.stat('D3_dp_over_limit_rel', worst)
            res.check('D3_dp_limit_respected', worst <= TOL,
                      'a distributed flow exceeds the pressure-drop limit '
                      '(dp/limit - 1 = %.3e, group %d of %d)'
                      % (worst, int(lab[wi]), tok['n_groups']),
                      ({'mech': MECH_LAST} if last else
                       dict(key, mech='dp_limit_exceeded_before_last_group')),
                      {'flow': float(m[wi]), 'excess_rel': float(worst),
                       'flags': np.asarray(o._dp_limit).tolist()})
            res.tag('dp_limit:' + ('binding' if np.any(o._dp_limit)
                                   else 'not_reached'))
            if np.any(o._dp_limit):
                self.n_dp_binding += 1
        mn = float(np.min(m))
        res.stat('obs_min_flow_over_mean', mn / float(np.mean(m)))
        # observation only (the property does not state it): are all
        # distributed flows > 0 ?
        res.tag('obs_flows_all_positive:%s' % (mn > 0.0))
        if mn <= 0.0:
            res.tag('obs_nonpositive_flow')
        self.min_flow = mn
        res.tag('distribute:' + ('first' if tok['first'] else 'later'))

    # -- regroup --------------------------------------------------------
    def regroup_pre(self, args, kwargs):
        o = args[0]
        data = np.asarray(args[1] if len(args) > 1 else kwargs['data'],
                          dtype=float)
        gd = np.array(o.group_data, dtype=float)
        # is the previous flow strictly decreasing with the group index?
        fl = []
        for g in sorted(set(gd[:, 2].tolist())):
            a = gd[gd[:, 2] == g][0, 0]
            fl.append(float(data[data[:, 1] == a][0, 3]))
        mono = all(fl[i] > fl[i + 1] for i in range(len(fl) - 1))
        return {'gd': gd, 'flow_decreasing_with_group': bool(mono),
                'n_groups': int(o.orifice_input['n_groups']),
                'active': o.orifice_input['regroup_option_tol'] is not None}

    def regroup_post(self, args, kwargs, out, tok):
        res = self.res
        o = args[0]
        gd0 = tok['gd']
        gd1 = np.asarray(o.group_data, dtype=float)
        ok = gd1.shape == gd0.shape and \
            bool(np.array_equal(gd1[:, :2], gd0[:, :2]))
        mech = 'assemblies_changed'
        if ok:
            ok, mech = group_labels_ok(gd1[:, 2], tok['n_groups'])
        moved = int(np.sum(gd1[:, 2] != gd0[:, 2])) if \
            gd1.shape == gd0.shape else -1
        res.check('R1_regroup_keeps_partition', ok,
                  'after regrouping the assemblies are no longer split into '
                  'exactly n_groups non-empty groups (%s)' % mech,
                  ({'mech': MECH_REGROUP}
                   if not tok['flow_decreasing_with_group'] else
                   self.key(mech='regroup:' + str(mech))),
                  {'before': gd0[:, 2].tolist() if gd0.shape[0] <= 20
                   else None,
                   'after': gd1[:, 2].tolist() if gd1.shape[0] <= 20
                   else None})
        res.tag('regroup:' + ('moved' if moved > 0 else 'unchanged'))
        res.tag('regroup:flow_decreasing_with_group=%s'
                % tok['flow_decreasing_with_group'])
        self.regroup_broke = (not ok) and \
            (not tok['flow_decreasing_with_group'])
        if moved > 0:
            res.count('regroup_moves', moved)
            oko, _ = order_ok(gd1[:, 1], gd1[:, 2].astype(int))
            # regrouping moves by temperature, not by the grouping
            # parameter: whether the parameter order survives is only noted
            res.tag('obs_regroup_param_order:' + ('kept' if oko else
                                                  'not_kept'))

    # -- applied flows (end-to-end only) --------------------------------
    def applied_pre(self, args, kwargs):
        m = np.asarray(args[2] if len(args) > 2 else kwargs['mfr'],
                       dtype=float)
        if np.min(m) <= 0.0:
            # a DASSH run with a non-positive assembly flow is meaningless
            # (and may not terminate): stop observing this run here
            raise Abort('nonpositive flow handed to the DASSH run')

    def zpts_pre(self, args, kwargs):
        r = args[0]
        if not (r.req_dz > 0.0) or r.core_length / r.req_dz > 5e4:
            raise Abort('axial mesh cannot be built (req_dz=%.3g)'
                        % r.req_dz)

    def applied_post(self, args, kwargs, results, tok):
        o = args[0]
        m = np.asarray(args[2] if len(args) > 2 else kwargs['mfr'],
                       dtype=float)
        r = np.asarray(results, dtype=float)
        ids = np.asarray(o.group_data)[:, 0]
        worst = 0.0
        for t in np.unique(r[:, 0]):
            rt = r[r[:, 0] == t]
            for i, a in enumerate(ids):
                row = rt[rt[:, 1] == a]
                if row.shape[0] != 1:
                    worst = np.inf
                    continue
                worst = max(worst, abs(row[0, 3] - m[i]) / abs(m[i]))
        self.res.close('A1_applied_flow_is_distributed', worst, 1.0, 1e-12,
                       'flow applied to an assembly in the DASSH run differs '
                       'from the distributed flow',
                       self.key(mech='applied_flow'))

    def read_post(self, args, kwargs, out, tok):
        # the pressure drop the finished DASSH run actually has, for every
        # grouped assembly, against the limit (the parametric table is
        # piecewise linear on a convex curve, so its flow limit is on the
        # safe side; holding the last tabulated flow beyond the table too)
        o, rx = args[0], args[1]
        lim = o.orifice_input.get('pressure_drop_limit')
        if not lim:
            return
        lim = float(lim) * 1e6
        for a in rx.assemblies:
            if a.name in o.orifice_input['assemblies_to_group']:
                e = float(a.pressure_drop) / lim - 1.0
                # observation only: the run's own pressure drop differs
                # from the table's by a few per cent (other temperatures,
                # inter-assembly heat exchange; +2 % measured), so the limit
                # is asserted on the table (D3) and on the table's range (D3b)
                self.res.stat('A2_actual_dp_over_limit_rel', e)

    def attach(self, hk, applied=False):
        hk.wrap(Orificing, '_group', pre=self.group_pre, post=self.group_post)
        hk.wrap(Orificing, 'distribute', pre=self.dist_pre,
                post=self.dist_post)
        hk.wrap(Orificing, 'regroup', pre=self.regroup_pre,
                post=self.regroup_post)
        if applied:
            hk.wrap(Orificing, 'run_dassh_orifice', pre=self.applied_pre,
                    post=self.applied_post)
            hk.wrap(dassh.Reactor, '_setup_zpts', pre=self.zpts_pre)
            hk.wrap(Orificing, '_read_dassh_results', post=self.read_post)


def exit_is_logged(res, where, key):
    """DASSH's error exit: SystemExit preceded by a logged error."""
    recs = env.log_records()
    errs = [m for lv, m in recs if lv in ('ERROR', 'CRITICAL')]
    res.check('E1_exit_after_logged_error', len(errs) > 0,
              'SystemExit from %s without a logged error' % where,
              dict(key, mech='silent_exit', where=where))
    msg = errs[-1] if errs else ''
    short = 'other'
    for pat, nm in (('Grouping not converged', 'grouping_not_converged'),
                    ('Multiple groups constrained', 'multiple_dp_limited'),
                    ('did not achieve requested number', 'flows_not_distinct'),
                    ('Mass flow rate not conserved', 'mass_not_conserved')):
        if pat in msg:
            short = nm
    res.tag('rejected:%s:%s' % (where, short))
    return short


class Abort(Exception):
    """Raised by the monitor itself to stop an end-to-end run that left the
    part of DASSH this property is about (never a verdict)."""


def innermost_dassh_frame(exc):
    """(file, line, function) of the deepest frame inside the dassh tree."""
    last = None
    for fs in traceback.extract_tb(exc.__traceback__):
        if fs.filename.startswith(env.SRC):
            last = (fs.filename[len(env.SRC):].lstrip('/'), fs.lineno,
                    fs.name)
    return last


def crashed(res, where, exc, cons, key):
    """An exception that is neither a result nor DASSH's error exit.
    Only exceptions raised inside dassh/orificing.py are this property's
    business; anything raised deeper (a sweep, an output table) ends the
    observation of that run and is noted, not judged here."""
    if isinstance(exc, CaseTimeout):
        raise exc
    if not isinstance(exc, Abort):
        # an exception coming out of the monitor's own code (a hook) is a
        # harness error, never a finding about dassh
        own = [fs.filename.startswith(VERIF_ROOT) for fs in
               traceback.extract_tb(exc.__traceback__)
               if fs.filename.startswith((VERIF_ROOT, env.SRC))]
        if not own or own[-1]:
            raise exc
    fr = innermost_dassh_frame(exc)
    if isinstance(exc, Abort) or not fr[0].endswith('orificing.py'):
        what = str(exc)[:60] if isinstance(exc, Abort) else \
            '%s@%s:%s' % (type(exc).__name__, fr[0], fr[2])
        res.tag('aborted_outside_orificing:' + what.replace(' ', '_'))
        res.status('rejected', 'run left the orificing code: ' + what)
        return
    mech = 'crash:%s:%s' % (where, type(exc).__name__)
    k = dict(key, mech=mech)
    if cons.fewer_seen and cons.last_group_valid is False:
        # consequence of a grouping that came back one group short
        k = {'mech': MECH_FEWER, 'effect': mech}
    elif cons.regroup_broke:
        # consequence of a regrouping that left a group empty
        k = {'mech': MECH_REGROUP, 'effect': mech}
    res.check('X1_result_or_error_exit', False,
              '%s ended with %s: %s (neither a result nor an error exit)'
              % (where, type(exc).__name__, str(exc)[:200]), k)


# ----------------------------------------------------------------------
# workload A: populated instances


def cp_linear(c0, c1):
    def f(t0, t1):
        return c0 + c1 * 0.5 * (t0 + t1)
    return f


def make_instance(oi, t_in, cpc):
    """Real constructor, fed with a stand-in for the parsed input."""
    mat = dassh.Material('c20_coolant', temperature=t_in, coeff_dict={
        'heat_capacity': list(cpc), 'density': [850.0],
        'viscosity': [2.7e-4], 'thermal_conductivity': [70.0]})
    full = {'assemblies_to_group': ['a'], 'n_groups': 2,
            'group_cutoff': 0.05, 'group_cutoff_delta': 0.001,
            'value_to_optimize': 'peak coolant temp',
            'bulk_coolant_temp': t_in + 150.0, 'iteration_limit': 10,
            'convergence_tol': 1e-3, 'regroup': 'never',
            'regroup_option_tol': 0.05, 'regroup_improvement_tol': 0.05,
            'pressure_drop_limit': None, 'recycle_results': False}
    full.update(oi)
    inp = types.SimpleNamespace(
        data={'Orificing': full,
              'Core': {'coolant_material': 'C20_coolant',
                       'coolant_inlet_temp': t_in}},
        materials={'c20_coolant': mat}, path=None, timepoints=1)
    with drive.quiet():
        return Orificing(inp)


STYLES = ['uniform', 'spread', 'cluster', 'ties', 'sixfold', 'arith',
          'geom', 'equal', 'neargap']


def power_list(rng, n, style):
    base = wl.loguniform(rng, 1e4, 1e7)
    if style == 'uniform':
        p = base * rng.uniform(0.3, 1.0, n)
    elif style == 'spread':
        dec = rng.uniform(1.0, 3.0)
        p = base * 10.0 ** (-dec * rng.random(n))
    elif style == 'cluster':
        k = int(rng.integers(1, min(n, 6) + 1))
        c = base * np.sort(rng.uniform(0.1, 1.0, k))
        jit = wl.loguniform(rng, 1e-4, 5e-2)
        p = c[rng.integers(k, size=n)] * (1 + jit * (2 * rng.random(n) - 1))
    elif style == 'ties':
        k = int(rng.integers(1, min(n, 6) + 1))
        c = base * rng.uniform(0.1, 1.0, k)
        p = c[rng.integers(k, size=n)]
    elif style == 'sixfold':
        k = (n + 5) // 6
        c = base * rng.uniform(0.2, 1.0, k)
        p = np.repeat(c, 6)[:n]
        if rng.random() < 0.5:
            p = p * (1 + 1e-12 * rng.standard_normal(n))
    elif style == 'arith':
        p = base * (1.0 - rng.uniform(0.1, 0.9) * np.arange(n) / max(n, 1))
    elif style == 'geom':
        p = base * rng.uniform(0.5, 0.99) ** np.arange(n)
    elif style == 'equal':
        p = np.full(n, base)
    else:   # neargap: two neighbouring gaps of (almost) the same size
        p = base * np.sort(rng.uniform(0.3, 1.0, n))[::-1]
        if n >= 4:
            j = int(rng.integers(0, n - 3))
            r = p[j + 1] / p[j]
            p[j + 3] = p[j + 2] * r * (1 + choose_eps(rng))
            p = np.sort(p)[::-1]
    p = np.asarray(p, dtype=float)
    return p[rng.permutation(n)]


def choose_eps(rng):
    return float(wl.choose(rng, [0.0, 1e-12, 1e-6, 1e-3]))


def cutoffs(rng):
    if rng.random() < 0.45:
        return 0.05, 0.001
    c = wl.loguniform(rng, 1e-3, 1.0)
    d = wl.loguniform(rng, 1e-5, 1.0) if rng.random() < 0.3 else \
        wl.loguniform(rng, 1e-4, 2e-2)
    return float(c), float(d)


def asm_ids(rng, n):
    if rng.random() < 0.5:
        return np.arange(n, dtype=float)
    return np.sort(rng.choice(np.arange(3 * n + 2), size=n,
                              replace=False)).astype(float)


def call_group(res, cons, o, params, key):
    """One observed _group call -> 'ok' | 'invalid' | 'rejected' | 'crash'."""
    env.log_records()
    cons.new_episode()
    try:
        with drive.quiet():
            o._group(params)
    except SystemExit:
        exit_is_logged(res, '_group', key)
        res.count('group_calls_rejected')
        res.count('X1_result_or_error_exit')
        return 'rejected'
    except Exception as e:   # noqa: the property is about result-or-error
        crashed(res, '_group', e, cons, key)
        return 'crash'
    res.count('X1_result_or_error_exit')
    return 'ok' if cons.last_group_valid else 'invalid'


def note_request(res, ng, n, distinct, out):
    """Coverage of requests that cannot or can hardly be met (the verdict on
    them is G2's: a result with the wrong group count is a violation, an
    error exit is fine; splitting a tie would be admissible too)."""
    if ng > n:
        res.tag('request:n_groups>N:' + out)
        res.count('impossible_requests_seen')
    elif ng > distinct:
        res.tag('request:n_groups>distinct_values:' + out)
    elif ng == n:
        res.tag('request:n_groups=N:' + out)


def run_group(case, res):
    rng = np.random.default_rng(case['seed'])
    ctx = {'cp_mean': cp_linear(1274.0, 0.0), 'key': {'wl': 'A-group'}}
    cons = Contracts(res, ctx)
    with Hooks() as hk:
        cons.attach(hk)
        for j in range(case['n']):
            style = STYLES[j % len(STYLES)] if j < 2 * len(STYLES) else \
                wl.choose(rng, STYLES)
            nmax = case['nmax']
            n = int(rng.integers(1, 9)) if rng.random() < 0.35 else \
                int(rng.integers(1, nmax + 1))
            p = power_list(rng, n, style)
            u = rng.random()
            if u < 0.75:
                ng = int(rng.integers(1, min(n, 8) + 1))
            elif u < 0.9:
                ng = int(rng.integers(1, n + 1))
            else:
                ng = n + 1 if rng.random() < 0.5 else n
            c, d = cutoffs(rng)
            o = make_instance({'n_groups': ng, 'group_cutoff': c,
                               'group_cutoff_delta': d}, 623.15, [1274.0])
            params = np.array((asm_ids(rng, n), p)).T
            key = {'wl': 'A-group'}
            out = call_group(res, cons, o, params, key)
            res.tag('style:' + style)
            res.tag('group_outcome:' + out)
            note_request(res, ng, n, len(np.unique(p)), out)
    if res.d['counts'].get('groupings_nontrivial', 0) >= 1:
        res.nontrivial('group/%s' % case['name'])
    res.sample({'case': case, 'styles': STYLES})
    return res


def multisets(levels, n):
    """All non-increasing index tuples of length n over range(levels)."""
    out = []

    def rec(prefix, lo):
        if len(prefix) == n:
            out.append(tuple(prefix))
            return
        for v in range(lo, levels):
            rec(prefix + [v], v)
    rec([], 0)
    return out


ENUM_LEVELS = {3: [1.0, 0.97, 0.5], 4: [1.0, 0.96, 0.5, 0.48],
               5: [1.0, 0.96, 0.5, 0.48, 0.1]}
ENUM_CUT = [(0.05, 0.001), (0.3, 0.01), (0.01, 0.02)]


def run_enum(case, res):
    ctx = {'cp_mean': cp_linear(1274.0, 0.0), 'key': {'wl': 'A-enum'}}
    cons = Contracts(res, ctx)
    lev = np.array(ENUM_LEVELS[case['levels']]) * 5e5
    todo = multisets(case['levels'], case['len'])
    todo = todo[case['part']::case['parts']]
    with Hooks() as hk:
        cons.attach(hk)
        for ms in todo:
            p = lev[list(ms)]
            n = len(p)
            params = np.array((np.arange(n, dtype=float), p)).T
            distinct = len(set(ms))
            for ng in range(1, n + 2):
                for c, d in ENUM_CUT[:case['ncut']]:
                    o = make_instance({'n_groups': ng, 'group_cutoff': c,
                                       'group_cutoff_delta': d}, 623.15,
                                      [1274.0])
                    out = call_group(res, cons, o, params,
                                     {'wl': 'A-enum'})
                    res.tag('group_outcome:' + out)
                    res.count('enum_calls')
                    note_request(res, ng, n, distinct, out)
    if res.d['counts'].get('groupings_nontrivial', 0) >= 1:
        res.nontrivial('enum/%s' % case['name'])
    res.sample({'case': case, 'levels': lev.tolist(),
                'multisets': len(todo)})
    return res


FIXED = [
    # (name, powers, n_groups, cutoff, delta, outcome seen when written)
    ('f9_minimal', [100.0, 99.0, 50.0], 3, 0.05, 0.001, None),
    ('f9_ties', [2.0, 2.0, 1.0, 1.0], 3, 0.05, 0.001, 'invalid'),
    ('f9_equal_gaps', [1.0, 0.9, 0.5, 0.45], 3, 0.05, 0.001, None),
    ('test_initial_grouping',
     [510000, 750000, 745000, 730000, 725000, 735000, 740000, 508000, 508000,
      506000, 504000, 502000, 500000, 498000, 498000, 500000, 502000, 504000,
      506000], 2, 0.05, 0.001, 'ok'),
    ('test_grouping_fail',
     [1e3] * 6 + [1e4] * 6 + [1e5] * 6 + [1e6], 2, 0.05, 0.001, 'rejected'),
    ('one_group', [3.0, 2.9, 2.8, 2.7], 1, 0.05, 0.001, 'ok'),
    ('all_separate', [4.0, 3.0, 2.0, 1.0], 4, 0.05, 0.001, 'ok'),
    ('single', [5.0], 1, 0.05, 0.001, 'ok'),
]


def regroup_witness(res, cons):
    """One direct regroup() call on a hand-sized state in which the flow of
    the previous iteration does not decrease with the group index (group 1
    got more than group 0): five assemblies of one type, groups 0|1 1|2 2,
    flows 10|12|8 kg/s, response T = 600 + 3000/m."""
    o = make_instance({'n_groups': 3, 'regroup': 'once',
                       'regroup_option_tol': 0.0,
                       'regroup_improvement_tol': 0.0}, 600.0, [1000.0])
    ids = np.arange(5.0)
    o.group_data = np.array((ids, [5e5, 4e5, 4e5, 3e5, 3e5],
                             [0, 1, 1, 2, 2]), dtype=float).T
    tab = np.zeros((12, 5))
    tab[:, 0] = np.geomspace(0.05, 1.0, 12)
    tab[:, 1] = 2.0e6
    tab[:, 2] = 2.0 / tab[:, 0]
    tab[:, 3] = 1.0e3 * tab[:, 2] ** 2
    tab[:, 4] = 600.0 + 3000.0 / tab[:, 2]
    o._parametric = {'data': [tab], 'asm_names': ['a'],
                     'asm_ids': np.array((ids, np.zeros(5)),
                                         dtype=float).T.astype(int)}
    o._power = np.array((ids, o.group_data[:, 1])).T
    flow = [10.0, 12.0, 12.0, 8.0, 8.0]
    topt = [840.0, 900.0, 800.0, 920.0, 900.0]
    data = np.array([[1.0, ids[i], o.group_data[i, 1], flow[i], 700.0,
                      topt[i], 0, 0, 0, 0, 0] for i in range(5)])
    cons.new_episode()
    env.log_records()
    try:
        with drive.quiet():
            o.regroup(data, verbose=True)
        res.tag('fixed:regroup_witness:labels=%s'
                % ''.join('%d' % x for x in o.group_data[:, 2]))
    except SystemExit:
        exit_is_logged(res, 'regroup', {'wl': 'A-fixed'})
    except Exception as e:   # noqa
        crashed(res, 'regroup', e, cons, {'wl': 'A-fixed'})


def run_fixed(case, res):
    ctx = {'cp_mean': cp_linear(1274.0, 0.0), 'key': {'wl': 'A-fixed'}}
    cons = Contracts(res, ctx)
    with Hooks() as hk:
        cons.attach(hk)
        for nm, p, ng, c, d, exp in FIXED:
            p = np.asarray(p, dtype=float)
            o = make_instance({'n_groups': ng, 'group_cutoff': c,
                               'group_cutoff_delta': d}, 623.15, [1274.0])
            params = np.array((np.arange(len(p), dtype=float), p)).T
            out = call_group(res, cons, o, params, {'wl': 'A-fixed'})
            res.tag('fixed:%s:%s' % (nm, out))
            note_request(res, ng, len(p), len(np.unique(p)), out)
        # flow distribution on a hand-sized instance: loose limit (held),
        # then a limit the top group hits (its surplus goes to the last
        # group, which has to stay within the limit or end in an error)
        hk_ctx = {}
        install_fake_power(hk, hk_ctx)
        for nm, ng, fac in (('loose', 2, 4.0), ('top_group_limited', 2, 0.25),
                            ('one_group_limited', 1, 0.25)):
            d = run_one_history(res, cons, hk_ctx, fixed_history(ng, fac, 2),
                                {'wl': 'A-fixed'})
            res.tag('fixed:dp_%s:iterations=%d' % (nm, d))
        regroup_witness(res, cons)
    if res.d['counts'].get('groupings_nontrivial', 0) >= 1:
        res.nontrivial('fixed')
    res.sample({'case': case, 'fixed': [f[0] for f in FIXED]})
    return res


# -- histories ----------------------------------------------------------


OPT = {'peak coolant temp': 5, 'peak clad MW temp': 7,
       'peak clad ID temp': 8, 'peak fuel temp': 10}


def oracle_partition(param, n_groups):
    """A valid ordered partition (labels per assembly) or None."""
    order = np.argsort(-param, kind='stable')
    v = param[order]
    cuts = [i for i in range(1, len(v)) if v[i] < v[i - 1]]
    if len(cuts) < n_groups - 1:
        return None
    sel = [cuts[int(round(k))] for k in
           np.linspace(0, len(cuts) - 1, n_groups - 1)] if n_groups > 1 \
        else []
    if len(set(sel)) != len(sel):
        sel = cuts[:n_groups - 1]
    lab_sorted = np.zeros(len(v))
    for c in sel:
        lab_sorted[c:] += 1
    lab = np.zeros(len(v))
    lab[order] = lab_sorted
    return lab


def build_history(rng):
    """Generated content of one history (plain numbers)."""
    S = {}
    n = int(rng.integers(2, 25))
    S['n'] = n
    S['ids'] = asm_ids(rng, n)
    S['t_in'] = float(rng.uniform(550.0, 700.0))
    S['dT'] = float(rng.uniform(50.0, 250.0))
    c1 = 0.0 if rng.random() < 0.5 else float(rng.uniform(-0.3, 0.3))
    S['cpc'] = [float(rng.uniform(1000.0, 1500.0)), c1] if c1 else \
        [float(rng.uniform(1000.0, 1500.0))]
    n_types = 1 if (n < 4 or rng.random() < 0.55) else 2
    S['n_types'] = n_types
    typ = np.zeros(n, dtype=int)
    if n_types == 2:
        typ = rng.integers(0, 2, n)
        typ[0], typ[1] = 0, 1
        typ = typ[rng.permutation(n)]
    S['typ'] = typ
    style = wl.choose(rng, STYLES)
    S['style'] = style
    S['n_t'] = 1 if rng.random() < 0.6 else 2
    p0 = power_list(rng, n, style)
    P_t = [p0]
    for _ in range(S['n_t'] - 1):
        P_t.append(p0 * (1 + 0.1 * (2 * rng.random(n) - 1)))
    S['P_t'] = P_t
    S['peaking'] = 1.0 + 0.5 * rng.random(n)
    S['opt'] = wl.choose(rng, list(OPT))
    S['n_groups'] = int(rng.integers(1, min(n, 6) + 1))
    S['cut'] = cutoffs(rng)
    S['regroup'] = wl.choose(rng, ['never', 'once', 'every', 'every'])
    S['regroup_tol'] = float(wl.choose(rng, [0.0, 0.005, 0.02, 0.05]))
    S['improve_tol'] = float(wl.choose(rng, [0.0, 0.001, 0.01, 0.05]))
    S['n_iter'] = int(rng.integers(2, 6))
    S['n_pts'] = int(wl.choose(rng, [12, 12, 12, 6, 20]))
    # true response per type
    S['pk'] = rng.uniform(1.1, 1.7, n_types)
    S['film'] = rng.uniform(1.0, 15.0, n_types)
    S['K'] = np.array([wl.loguniform(rng, 0.3, 3.0) for _ in
                       range(n_types)])
    S['K2'] = rng.uniform(0.0, 2.0, n_types)
    S['f'] = 1.0 + 0.12 * (2 * rng.random(n) - 1)       # model deviation
    S['loss'] = rng.uniform(-0.03, 0.06, n)             # heat not in coolant
    S['dp'] = wl.choose(rng, ['none', 'none', 'loose', 'binding', 'binding',
                              'tight'])
    S['dp_fac'] = {'none': None, 'loose': float(rng.uniform(2.5, 6.0)),
                   'binding': float(rng.uniform(0.75, 1.3)),
                   'tight': float(rng.uniform(0.1, 0.6))}[S['dp']]
    return S


def rise_true(S, j, P, m):
    cp = S['cpc'][0]
    return S['pk'][j] * P / (m * cp) + S['film'][j] * (P / 1e6) \
        / (m / 10.0) ** 0.8


def dp_true(S, j, m, mref):
    x = m / mref
    return 2.0e5 * (S['K'][j] * x ** 1.8 + 0.1 * S['K2'][j] * x)


def surrogate(S, o, m):
    """Stand-in for run_dassh_orifice: results table of the documented
    layout for the flows m (rows: time step major, assembly id order)."""
    cp = cp_linear(S['cpc'][0], S['cpc'][1] if len(S['cpc']) > 1 else 0.0)(
        S['t_in'], S['t_in'] + S['dT'])
    rows = []
    for t in range(S['n_t']):
        P = S['P_t'][t]
        for i in range(S['n']):
            tb = S['t_in'] + P[i] * (1 - S['loss'][i]) / (m[i] * cp)
            j = S['typ'][i]
            top = S['t_in'] + rise_true(S, j, P[i], m[i]) * S['f'][i]
            r = [float(t + 1), S['ids'][i], P[i], m[i], tb]
            # columns 6-11: peak coolant, clad OD/MW/ID, fuel OD/CL
            if o._opt_col == 5:
                r += [top, top + 2, top + 5, top + 8, top + 48, top + 108]
            else:
                base = np.array([0.0, 3.0, 6.0, 46.0, 106.0])
                pins = top + base - base[o._opt_col - 6]
                r += [tb + 0.6 * (pins[0] - tb)] + pins.tolist()
            rows.append(r)
    return np.array(rows, dtype=float)


def run_one_history(res, cons, hk_ctx, S, key):
    n = S['n']
    P_avg = np.mean(S['P_t'], axis=0)
    lin = P_avg * S['peaking']
    oi = {'n_groups': S['n_groups'], 'group_cutoff': S['cut'][0],
          'group_cutoff_delta': S['cut'][1], 'value_to_optimize': S['opt'],
          'bulk_coolant_temp': S['t_in'] + S['dT'], 'regroup': S['regroup'],
          'regroup_option_tol': S['regroup_tol'],
          'regroup_improvement_tol': S['improve_tol'],
          'iteration_limit': S['n_iter'],
          'assemblies_to_group': ['t0', 't1'][:S['n_types']]}
    cpf = cp_linear(S['cpc'][0], S['cpc'][1] if len(S['cpc']) > 1 else 0.0)
    cons.ctx['cp_mean'] = cpf
    cons.ctx['type_of_id'] = {int(a): 't%d' % t for a, t in
                              zip(S['ids'], S['typ'])}
    cp = cpf(S['t_in'], S['t_in'] + S['dT'])
    m_nom = P_avg / (cp * S['dT'])
    mref = float(np.max(m_nom))
    if S['dp_fac'] is not None:
        jmax = S['typ'][int(np.argmax(m_nom))]
        oi['pressure_drop_limit'] = float(
            dp_true(S, jmax, mref, mref) * S['dp_fac'] / 1e6)
    o = make_instance(oi, S['t_in'], S['cpc'])
    hk_ctx['power'] = np.array((S['ids'], P_avg)).T
    hk_ctx['lin'] = np.array((S['ids'], lin)).T
    # parametric tables as run_parametric lays them out
    tabs = []
    for j in range(S['n_types']):
        pj = float(np.mean(P_avg[S['typ'] == j]))
        d = np.zeros((S['n_pts'], 5))
        d[:, 0] = np.geomspace(0.05, 1.0, S['n_pts'])
        d[:, 1] = pj
        d[:, 2] = pj / 1e6 / d[:, 0]
        d[:, 3] = dp_true(S, j, d[:, 2], mref)
        d[:, 4] = S['t_in'] + rise_true(S, j, pj, d[:, 2])
        tabs.append(d)
    o._parametric = {'data': tabs,
                     'asm_ids': np.array((S['ids'], S['typ']),
                                         dtype=float).T.astype(int),
                     'asm_names': oi['assemblies_to_group']}
    res.tag('hist:types=%d' % S['n_types'])
    res.tag('hist:timesteps=%d' % S['n_t'])
    res.tag('hist:opt=' + S['opt'].replace(' ', '_'))
    res.tag('hist:regroup=' + S['regroup'])
    res.tag('hist:dp=' + S['dp'])
    # ---- grouping through the real group_by_power ----------------------
    env.log_records()
    cons.new_episode()
    fallback = False
    try:
        with drive.quiet():
            o.group_by_power()
        if not cons.last_group_valid:
            fallback = True
    except SystemExit:
        exit_is_logged(res, '_group', key)
        fallback = True
    except Exception as e:   # noqa
        crashed(res, 'group_by_power', e, cons, key)
        fallback = True
    if fallback:
        par = lin if S['opt'] != 'peak coolant temp' else P_avg
        lab = oracle_partition(par, S['n_groups'])
        if lab is None:
            res.tag('hist:no_valid_partition_exists')
            return 0
        o.group_data = np.array((S['ids'], par, lab)).T
        cons.new_episode()
        res.tag('hist:grouping=oracle_fallback')
    else:
        res.tag('hist:grouping=real')
    # ---- optimise loop (as Orificing.optimize / _do_iter) --------------
    data_prev, t_out = None, None
    done = 0
    for it in range(1, S['n_iter'] + 1):
        env.log_records()
        where = 'distribute'
        try:
            with drive.quiet():
                if S['regroup'] != 'never' and it >= 2 and \
                        ((S['regroup'] == 'once' and it == 2)
                         or S['regroup'] == 'every'):
                    where = 'regroup'
                    o.regroup(data_prev, verbose=True)
                where = 'distribute'
                m, tlim = o.distribute(data_prev, t_out)
        except SystemExit:
            exit_is_logged(res, where, key)
            res.count('X1_result_or_error_exit')
            break
        except Exception as e:   # noqa
            crashed(res, where, e, cons, dict(key, dp=S['dp']))
            break
        res.count('X1_result_or_error_exit')
        done += 1
        if np.min(m) <= 0.0:
            res.tag('hist:stopped_nonpositive_flow')
            break
        data_prev = surrogate(S, o, m)
        with drive.quiet():
            summ = o._summarize_group_data(data_prev)
        t_out = summ[-1, 0]
        if np.any(o._dp_limit):
            res.tag('hist:stopped_dp_limit')
            break
    res.stat('hist_iterations', done)
    return done


def install_fake_power(hk, hk_ctx):
    """Replace only the Reactor-building _get_power (powers come from the
    generator); group_by_power and everything after it stay real."""
    def fake_get_power(self, group_by='linear_power'):
        self._power = hk_ctx['power'].copy()
        self._lin_power = hk_ctx['lin'].copy()
        self._power_to_grp = self._lin_power if group_by == 'linear_power' \
            else self._power
    hk.replace(Orificing, '_get_power', fake_get_power)


def run_hist(case, res):
    rng = np.random.default_rng(case['seed'])
    ctx = {'cp_mean': None, 'key': {'wl': 'A-hist'}}
    cons = Contracts(res, ctx)
    hk_ctx = {}
    deep = 0
    with Hooks() as hk:
        cons.attach(hk)
        install_fake_power(hk, hk_ctx)
        for j in range(case['n']):
            S = build_history(rng)
            d = run_one_history(res, cons, hk_ctx, S, {'wl': 'A-hist'})
            if d >= 2:
                deep += 1
    if deep >= 1 and cons.n_dist_prev >= 1:
        res.nontrivial('hist/%s' % case['name'])
    res.sample({'case': case, 'histories': case['n'],
                'with_two_or_more_iterations': deep})
    return res


def fixed_history(n_groups, dp_fac, n_iter=1):
    """Two assemblies of one type, 1.0 and 0.5 MW, cp 1000 J/kg/K, 100 K
    rise: 15 kg/s in total; limit = dp_fac x (pressure drop at 10 kg/s)."""
    return {'n': 2, 'ids': np.array([0.0, 1.0]), 't_in': 600.0, 'dT': 100.0,
            'cpc': [1000.0], 'n_types': 1, 'typ': np.array([0, 0]),
            'style': 'fixed', 'n_t': 1, 'P_t': [np.array([1.0e6, 0.5e6])],
            'peaking': np.ones(2), 'opt': 'peak coolant temp',
            'n_groups': n_groups, 'cut': (0.05, 0.001), 'regroup': 'never',
            'regroup_tol': 0.05, 'improve_tol': 0.05, 'n_iter': n_iter,
            'n_pts': 12, 'pk': np.array([1.3]), 'film': np.array([0.0]),
            'K': np.array([1.0]), 'K2': np.array([0.0]), 'f': np.ones(2),
            'loss': np.zeros(2), 'dp': 'fixed', 'dp_fac': dp_fac}


# ----------------------------------------------------------------------
# workload B: end-to-end optimize()


E2E_CORR = [('CTD', 'CTD', 'CTD'), ('MIT', 'NOV', 'NOV'),
            ('UCTD', 'UCTD', 'UCTD'), ('CTD', 'CTD', 'CTD')]


def e2e_problem(rng):
    L = float(wl.choose(rng, [0.3, 0.4, 0.6]))
    gap = wl.choose(rng, ['flow', 'flow', 'none', 'no_flow'])
    lin_cp = rng.random() < 0.4
    P = gen.base_problem(length=L, asm_pitch=0.12, gap_model=gap,
                         coolant=('na_lin' if lin_cp else 'na_const'),
                         bypass_fraction=(0.0 if gap == 'none' else
                                          wl.loguniform(rng, 0.003, 0.05)))
    cpc = [1274.0]
    if lin_cp:
        cpc = [1450.0, -0.25]
        P['materials']['na_lin'] = dict(gen.CONST_NA, heat_capacity=cpc)
    two = rng.random() < 0.5
    second_grouped = rng.random() < 0.5
    names = ['fuel'] + (['blank'] if two else [])
    for nm in names:
        P['types'][nm] = gen.make_type(
            rng, int(rng.integers(2, 4)), 0.1175, n_duct=1,
            corr=wl.choose(rng, E2E_CORR), duct_material='steel_const')
    with_regions = bool(rng.random() < 0.35)
    if with_regions:
        # un-rodded regions below and above the bundle carry a good part of
        # the assembly pressure drop
        for nm in names:
            wl.add_axial_regions(rng, P, nm, n_lower=1, n_upper=1,
                                 models=('simple',))
    style = wl.choose(rng, ['uniform', 'spread', 'cluster', 'ties',
                            'sixfold', 'geom', 'neargap'])
    p = power_list(rng, 7, style)
    p = p / np.max(p) * wl.loguniform(rng, 1e5, 6e5)
    if style == 'spread':
        p = np.maximum(p, 0.03 * np.max(p))
    tnames = []
    for k0 in range(7):
        ring, pos = gen.ring_pos(k0)
        tn = 'fuel'
        if two and (k0 in (2, 5) or (k0 > 0 and rng.random() < 0.25)):
            tn = 'blank'
        tnames.append(tn)
        gen.add_position(P, tn, ring, pos, flowrate=1.0, shape='flat')
        P['power']['asm'][str(k0)]['total'] = float(p[k0])
    grouped = ['fuel'] + (['blank'] if two and second_grouped else [])
    n_asm = sum(1 for t in tnames if t in grouped)
    ng = int(rng.integers(2, 4))
    ng = max(1, min(ng, n_asm))
    dT = float(rng.uniform(60.0, 160.0))
    c, d = (0.05, 0.001) if rng.random() < 0.6 else \
        (wl.loguniform(rng, 0.01, 0.5), wl.loguniform(rng, 1e-3, 2e-2))
    orf = {'assemblies_to_group': (', '.join(grouped) if len(grouped) > 1
                                   else grouped[0] + ','),
           'n_groups': ng, 'value_to_optimize': 'peak coolant temp',
           'bulk_coolant_temp': 623.15 + dT,
           'iteration_limit': int(rng.integers(2, 4)),
           'convergence_tol': 1e-6,
           'group_cutoff': float(c), 'group_cutoff_delta': float(d),
           'regroup': wl.choose(rng, ['never', 'once', 'every']),
           'regroup_option_tol': float(wl.choose(rng, [0.0, 0.01, 0.05])),
           'regroup_improvement_tol': float(wl.choose(rng, [0.0, 0.01]))}
    P['orificing'] = orf
    P['setup']['calc_energy_balance'] = True
    if rng.random() < 0.4:
        P['setup']['include_gravity_head_loss'] = True
    feats = {'style': style, 'types': len(names), 'grouped': grouped,
             'n_asm_grouped': n_asm, 'n_groups': ng, 'gap': gap,
             'lin_cp': bool(lin_cp), 'regroup': orf['regroup'],
             'axial_regions': with_regions,
             'iters': orf['iteration_limit'], 'cpc': cpc,
             'type_of_id': {k0: tnames[k0] for k0 in range(7)}}
    return P, feats


MIX_LAYOUTS = {'inner_a': 'abbbaaa', 'inner_b': 'baaabbb',
               'alternate': 'abababa', 'pairs': 'aabbaab', 'one_b': 'aaabaaa'}


def e2e_mixed_problem(rng):
    """Two orificed types at interleaved positions with clearly different
    hydraulic resistance (ring count and pitch-to-diameter ratio); either
    type may carry the highest power and either may be listed first."""
    L = float(wl.choose(rng, [0.3, 0.4]))
    gap = wl.choose(rng, ['flow', 'none', 'no_flow'])
    P = gen.base_problem(length=L, asm_pitch=0.12, gap_model=gap,
                         coolant='na_const',
                         bypass_fraction=(0.0 if gap == 'none' else
                                          wl.loguniform(rng, 0.003, 0.03)))
    cpc = [1274.0]
    P['types']['ta'] = gen.make_type(
        rng, 2, 0.1175, n_duct=1, pd=float(rng.uniform(1.25, 1.35)),
        corr=('CTD', 'CTD', 'CTD'), duct_material='steel_const')
    P['types']['tb'] = gen.make_type(
        rng, int(rng.integers(3, 5)), 0.1175, n_duct=1,
        pd=float(rng.uniform(1.07, 1.12)), corr=('CTD', 'CTD', 'CTD'),
        duct_material='steel_const')
    layout = wl.choose(rng, sorted(MIX_LAYOUTS))
    tnames = ['t' + c for c in MIX_LAYOUTS[layout]]
    hot = wl.choose(rng, ['ta', 'tb', 'tb', 'any'])
    p = rng.uniform(0.45, 1.0, 7)
    for k0 in range(7):
        if hot != 'any' and tnames[k0] != hot:
            p[k0] *= 0.55
    p = p / np.max(p) * wl.loguniform(rng, 1.5e5, 5e5)
    for k0 in range(7):
        ring, pos = gen.ring_pos(k0)
        gen.add_position(P, tnames[k0], ring, pos, flowrate=1.0,
                         shape='flat')
        P['power']['asm'][str(k0)]['total'] = float(p[k0])
    grouped = ['ta', 'tb'] if rng.random() < 0.5 else ['tb', 'ta']
    ng = int(rng.integers(2, 4))
    dT = float(rng.uniform(80.0, 150.0))
    orf = {'assemblies_to_group': ', '.join(grouped), 'n_groups': ng,
           'value_to_optimize': 'peak coolant temp',
           'bulk_coolant_temp': 623.15 + dT, 'iteration_limit': 2,
           'convergence_tol': 1e-6,
           'group_cutoff': 0.05, 'group_cutoff_delta': 0.001,
           'regroup': wl.choose(rng, ['never', 'once'])}
    P['orificing'] = orf
    feats = {'style': 'mixed:' + layout, 'types': 2, 'grouped': grouped,
             'n_asm_grouped': 7, 'n_groups': ng, 'gap': gap, 'lin_cp': False,
             'regroup': orf['regroup'], 'iters': 2, 'cpc': cpc, 'hot': hot,
             'rings_b': P['types']['tb']['num_rings'],
             'type_of_id': {k0: tnames[k0] for k0 in range(7)}}
    return P, feats


def run_e2e(case, res):
    import dassh.__main__  # noqa: F401  (optimize() uses dassh.__main__)
    rng = np.random.default_rng(case['seed'])
    mixed = case['kind'] == 'e2emix'
    P, feats = e2e_mixed_problem(rng) if mixed else e2e_problem(rng)
    cpc = feats['cpc']
    ctx = {'cp_mean': cp_linear(cpc[0], cpc[1] if len(cpc) > 1 else 0.0),
           'key': {'wl': 'B-mixed' if mixed else 'B'},
           'type_of_id': feats['type_of_id']}
    cons = Contracts(res, ctx)
    key = dict(ctx['key'])
    limit_mode = 'probe' if mixed else wl.choose(rng, ['none', 'none',
                                                       'probe'])
    if mixed:
        res.tag('e2emix:layout=%s' % feats['style'][6:])
        res.tag('e2emix:hot=%s' % feats['hot'])
        res.tag('e2emix:listed_first=%s' % feats['grouped'][0])
    for k in ('style', 'gap', 'regroup', 'n_groups', 'types', 'lin_cp'):
        res.tag('e2e:%s=%s' % (k, feats[k]))
    res.tag('e2e:axial_regions=%s' % bool(feats.get('axial_regions')))
    n_tp = int(case.get('n_tp', 1))
    with drive.scratch() as d, Hooks() as hk:
        path = gen.render(P, d)
        tp_power = [{int(k): gen.expected_power(P, int(k))['total']
                     for k in P['power']['asm']}]
        if n_tp > 1:
            names = ['power.csv']
            for i in range(1, n_tp):
                Qi = copy.deepcopy(P)
                for sp in Qi['power']['asm'].values():
                    sp['total'] = sp['total'] * float(rng.uniform(0.4, 1.6))
                nm = 'power_tp%d.csv' % (i + 1)
                gen.write_power_csv(Qi, os.path.join(d, nm))
                names.append(nm)
                tp_power.append({int(k): gen.expected_power(Qi, int(k))[
                    'total'] for k in Qi['power']['asm']})
            txt = open(path).read().replace('user_power = power.csv',
                                            'user_power = ' + ', '.join(names))
            open(path, 'w').write(txt)
            res.tag('e2e:timepoints=%d' % n_tp)
        try:
            inp = drive.read_input(path)
        except drive.Rejected as e:
            res.status('rejected', str(e))
            res.tag('rejected:input')
            return res
        cons.attach(hk, applied=True)

        def power_post(args, kwargs, out, tok):
            # the power the optimiser works with is, per assembly, the
            # average over the time points of the power the INPUT files give
            o = args[0]
            pw = np.asarray(o._power, dtype=float)
            for aid, got in pw:
                exp = float(np.mean([tp[int(aid)] for tp in tp_power]))
                res.close('T1_cycle_average_power_from_inputs', got - exp,
                          abs(exp) + 1e-12, 1e-9,
                          'power of assembly %d used by the optimiser is not '
                          'the average over the %d time points of the input '
                          'power distributions' % (int(aid), len(tp_power)),
                          dict(key, n_tp=len(tp_power)),
                          {'got': float(got), 'exp': exp,
                           'per_timepoint': [tp[int(aid)] for tp in tp_power]})
        hk.wrap(Orificing, '_get_power', post=power_post)

        # the first grouping orders the assemblies by the documented
        # parameter: total power when the coolant temperature is optimised
        # (linear power for pin temperatures), per assembly the average over
        # the time points of what the INPUT files give
        first_group = {'pending': False}

        def power_post2(args, kwargs, out, tok):
            first_group['pending'] = True

        def group_pre(args, kwargs):
            if not first_group['pending']:
                return None
            first_group['pending'] = False
            o = args[0]
            if o.orifice_input['value_to_optimize'] != 'peak coolant temp':
                return None
            prm = np.asarray(args[1] if len(args) > 1 else kwargs['params'],
                             dtype=float)
            worst, wit = 0.0, None
            for aid, got in prm:
                exp = float(np.mean([tp[int(aid)] for tp in tp_power]))
                d_ = abs(got - exp) / max(abs(exp), 1e-300)
                if d_ > worst:
                    worst, wit = d_, (int(aid), float(got), exp)
            res.close('T4_grouping_parameter_is_total_power', worst, 1.0,
                      1e-9, 'with the coolant temperature optimised the '
                      'assemblies are grouped by something else than their '
                      'total power (assembly, handed, power): %r' % (wit,),
                      dict(key, n_types=len(
                          o.orifice_input['assemblies_to_group'])))
            return None
        hk.wrap(Orificing, '_get_power', post=power_post2)
        hk.wrap(Orificing, '_group', pre=group_pre)

        # the parametric table kept for every assembly type holds the
        # pressure drops of the single-assembly runs made FOR THAT TYPE
        par = {'on': False, 'runs': []}

        def par_pre(args, kwargs):
            par['on'] = True
            par['runs'] = []
            par['gravity'] = []

        def sweep_post(args, kwargs, out, tok):
            if par['on']:
                a = args[0].assemblies[0]
                par['runs'].append((a.name, float(a.flow_rate),
                                    float(a.pressure_drop)))
                par.setdefault('gravity', []).append(bool(
                    args[0]._options.get('include_gravity')))

        def par_post(args, kwargs, out, tok):
            par['on'] = False
            o = args[0]
            if not par['runs']:
                res.count('parametric_tables_recycled')
                return
            want_g = bool(P['setup'].get('include_gravity_head_loss'))
            res.check('T3_parametric_runs_keep_pressure_drop_options',
                      all(g_ == want_g for g_ in par.get('gravity', [])),
                      'single-assembly runs behind the parametric table were '
                      'made with include_gravity_head_loss = %r, the input '
                      'says %r (the table\'s pressure drops are compared '
                      'with the limit)' % (sorted(set(par.get('gravity',
                                                               []))), want_g),
                      dict(key, gravity=want_g))
            names = list(o.orifice_input['assemblies_to_group'])
            for i, nm in enumerate(names):
                tab = np.asarray(o._parametric['data'][i], dtype=float)
                bad = 0
                for row in tab:
                    hit = [dp for (n_, m_, dp) in par['runs'] if n_ == nm
                           and abs(m_ - row[2]) <= 1e-12 * abs(row[2])]
                    if not hit or all(abs(dp - row[3]) > 1e-12 * abs(dp)
                                      for dp in hit):
                        bad += 1
                res.check('T2_parametric_table_is_own_types_runs', bad == 0,
                          '%d of %d rows of the parametric table kept for '
                          'assembly type "%s" are not the (flow, pressure '
                          'drop) of a single-assembly run made for that type'
                          % (bad, len(tab), nm),
                          dict(key, n_types=len(names)))
        import dassh as _d
        hk.wrap(Orificing, 'run_parametric', pre=par_pre, post=par_post)
        hk.wrap(_d.Reactor, 'temperature_sweep', post=sweep_post)
        if limit_mode == 'probe':
            # set a pressure-drop limit once the parametric tables exist:
            # a fraction of the pressure drop at the hottest nominal flow
            frac = float(wl.choose(rng, [0.7, 0.8, 0.9] if mixed else
                                   [0.5, 0.9, 1.5]))

            def set_limit(args, kwargs, out, tok):
                o = args[0]
                if o.orifice_input['pressure_drop_limit']:
                    return
                pw = np.asarray(o._power)
                q = pw[:, 1]
                t_tgt = o.orifice_input['bulk_coolant_temp']
                cp = ctx['cp_mean'](o.t_in, t_tgt)
                typ, _ = own_types(o, pw[:, 0], ctx)
                mnom = q / (cp * (t_tgt - o.t_in))
                dps = [dp_at(np.asarray(o._parametric['data'][typ[i]]),
                             mnom[i]) for i in range(len(q))]
                # plain: at the highest-power assembly; mixed: the largest
                # nominal pressure drop of all, so the limit binds for the
                # type that owns it
                i = int(np.argmax(dps)) if mixed else int(np.argmax(q))
                names = list(o.orifice_input['assemblies_to_group'])
                res.tag('e2e:limit_set_by_type=%s' % names[typ[i]])
                o.orifice_input['pressure_drop_limit'] = frac * dps[i] / 1e6
            hk.wrap(Orificing, 'run_parametric', post=set_limit)
            res.tag('e2e:dp_limit=%.1fx' % frac)
        env.log_records()
        try:
            with drive.quiet():
                o = Orificing(inp)
                o.optimize()
            res.count('X1_result_or_error_exit')
        except SystemExit:
            exit_is_logged(res, 'optimize', key)
            res.count('X1_result_or_error_exit')
            res.status('rejected', 'optimize: error exit')
        except Exception as e:   # noqa
            crashed(res, 'optimize', e, cons, key)
        if not mixed and res.d['status'] == 'ok' and n_tp == 1 and \
                case['seed'][-1] % 2 == 0:
            # a second optimisation in the SAME directory with other
            # settings (group count, outlet target; results of the first
            # one are still lying there and recycle_results is off): the
            # same contracts watch it
            P2 = copy.deepcopy(P)
            ng0 = int(P['orificing']['n_groups'])
            P2['orificing']['n_groups'] = max(1, ng0 - 1) if ng0 > 1 \
                else ng0 + 1
            P2['orificing']['bulk_coolant_temp'] = float(
                P['orificing']['bulk_coolant_temp']) + 40.0
            P2['orificing']['recycle_results'] = False
            try:
                inp2 = drive.read_input(gen.render(P2, d))
                env.log_records()
                with drive.quiet():
                    o2 = Orificing(inp2)
                    o2.optimize()
                res.count('X1_result_or_error_exit')
                res.tag('e2e:second_optimisation_same_directory')
            except drive.Rejected:
                res.tag('e2e:second_optimisation_rejected')
            except SystemExit:
                exit_is_logged(res, 'optimize (second, same directory)',
                               key)
                res.count('X1_result_or_error_exit')
            except Exception as e:   # noqa
                crashed(res, 'optimize (second, same directory)', e, cons,
                        key)
    if mixed:
        res.count('e2emix_runs_with_binding_limit',
                  1 if cons.n_dp_binding else 0)
        if cons.n_dp_binding >= 1 and res.d['status'] == 'ok':
            res.nontrivial('e2emix/%s' % repr(sorted(feats.items(),
                                                     key=str)))
    elif cons.n_dist >= 2 and cons.n_dist_prev >= 1 and \
            res.d['status'] == 'ok':
        res.nontrivial('e2e/%s' % repr(sorted(feats.items(), key=str)))
    res.stat('e2e_distribute_calls', cons.n_dist)
    res.sample({'case': case, 'features': feats})
    return res


# ----------------------------------------------------------------------


def cases(tier, seed):
    q = tier == 'quick'
    out = [{'name': 'fixed', 'kind': 'fixed', 'seed': [seed, 0, 0]}]
    # exhaustive multisets (deterministic, independent of the seed)
    if q:
        for ln in range(1, 6):
            out.append({'name': 'enum-3-%d' % ln, 'kind': 'enum', 'levels': 3,
                        'len': ln, 'part': 0, 'parts': 1, 'ncut': 2,
                        'seed': [seed, 4, ln]})
    else:
        for lv, top in ((4, 8), (5, 5)):
            for ln in range(1, top + 1):
                parts = 1 if ln < 5 else (2 if ln < 7 else 4)
                for pt in range(parts):
                    out.append({'name': 'enum-%d-%d-%d' % (lv, ln, pt),
                                'kind': 'enum', 'levels': lv, 'len': ln,
                                'part': pt, 'parts': parts, 'ncut': 3,
                                'seed': [seed, 4, lv, ln, pt]})
    for i in range(20 if q else 640):
        out.append({'name': 'group-%d' % i, 'kind': 'group',
                    'n': 36 if q else 60, 'nmax': 30 if q else 48,
                    'seed': [seed, 1, i]})
    for i in range(20 if q else 640):
        out.append({'name': 'hist-%d' % i, 'kind': 'hist',
                    'n': 25 if q else 60, 'seed': [seed, 2, i]})
    for i in range(8 if q else 240):
        out.append({'name': 'e2e-%d' % i, 'kind': 'e2e',
                    'seed': [seed, 3, i]})
    for i in range(16 if q else 128):
        out.append({'name': 'e2emix-%d' % i, 'kind': 'e2emix',
                    'seed': [seed, 5, i]})
    for i in range(5 if q else 80):
        # several time points whose power distributions are not
        # proportional to one another
        out.append({'name': 'e2etp-%d' % i, 'kind': 'e2etp',
                    'n_tp': 2 + i % 2, 'seed': [seed, 6, i]})
    # long cases first so the pool drains evenly
    out.sort(key=lambda c: {'e2e': 0, 'e2emix': 0, 'e2etp': 0, 'enum': 1,
                            'group': 2, 'hist': 3, 'fixed': 4}[c['kind']])
    return out


def run_case(case):
    res = Result(case)
    kind = case['kind']
    if kind == 'fixed':
        return run_fixed(case, res)
    if kind == 'enum':
        return run_enum(case, res)
    if kind == 'group':
        return run_group(case, res)
    if kind == 'hist':
        return run_hist(case, res)
    return run_e2e(case, res)


def classify(v, case):
    k = v.get('key', {}) or {}
    if k.get('mech') == MECH_FEWER:
        return 'F9'
    if k.get('mech') == MECH_LAST:
        return 'F40'
    if k.get('mech') == MECH_REGROUP:
        return 'F41'
    return None
