"""C12 - flow split conserves mass and equalises subchannel pressure
gradients; friction/mixing finite; every accepted correlation combination
is evaluable in every flow regime."""
import sys
import json
import math
import traceback
import numpy as np
from vmon import gen, drive
from vmon.harness import Result, CaseTimeout
from vmon.probe import Hooks
from vmon.oracle import c12_ct as ct

PROPERTY = 'C12'
LEVEL = 'exploration'
TECHNIQUE = ('runtime monitoring: post-hooks on the real '
             'RoddedRegion._init_static_correlated_params / '
             '_update_coolant_int_params of bundles built through the input '
             'reader, at Reynolds numbers prescribed through the flow rate; '
             'pressure gradients rebuilt from an independent Cheng-Todreas '
             'implementation; exhaustive over the 4x6x5 correlation triples')
LEVEL_TEXT = ('All 120 correlation triples x a Reynolds grid (10..1e6 with '
              'every regime boundary +-1e-9) x spacer-grid modes x generated '
              'geometries are executed on real bundles and every evaluation '
              'is checked against closed-form identities; the triple space is '
              'exhaustive, geometry and Re are sampled, so this is '
              'exploration, not proof.')
LEVEL_NOTE = ('Trusts numpy arithmetic and the constant-property coolant. '
              'Geometry (areas, hydraulic diameters) and subchannel friction '
              'constants are recomputed from the published formulas and '
              'cross-checked against what dassh stores; the grid loss '
              'coefficient of REH/CDD is taken as published by dassh.')
DESIGN_REF = 'DESIGN.md section 3, C12'
RULE = ('one-assembly problems; geometry classes: in-range wire-wrapped '
        '37-pin, 7-pin ENG-range, bare 19-pin (wire_diameter 0), 61-pin far '
        'beyond every range (P/D 1.5, H/D 70, W/D 1.6), double-duct 19-pin '
        'with bypass, plus seeded random bundles (2-11 rings, P/D 1.005-1.6, '
        'H/D 3-110 or 0, W/D 1.0-1.65 (more is refused by the reader for '
        'CTD/UCTD), wire or bare, 1-2 ducts); each case = (geometry, spacer-grid '
        'mode none|REH|CDD|loss_coeff, mixing, friction) and runs all 5 '
        'flow-split correlations: 3 full builds (+2 march steps) per triple '
        'at a laminar, transition and turbulent Re, then the whole Re grid '
        'through the real Assembly.clone(new_flowrate) + '
        '_init_static_correlated_params + _update_coolant_int_params; '
        'non-trivial = a triple evaluated in all three regimes with >= 10 '
        'Re points; distinct by (geometry, grid mode, mixing, friction)')
DECIDING = ['E_evaluable', 'M_mass_conservation', 'FF_positive_finite',
            'MIX_nonneg_finite', 'PG_equal_const', 'PG_equal_iterated_coarse',
            'PG_split_converged', 'PG_equals_bundle']
CASE_TIMEOUT = {'quick': 240, 'thorough': 900}
BUDGET = {'quick': 900, 'thorough': 3400}
EXHAUSTIVE = {'quick': False, 'thorough': False}
ASSUMPTIONS = ['numpy float64 arithmetic',
               'constant-property coolant (rho 850, mu 2.7e-4)',
               'Cheng-Todreas 1986 / Chen-Todreas 2018 formulas as '
               'transcribed in vmon/oracle/c12_ct.py']

MIX = ['MIT', 'CTD', 'UCTD', 'KC-BARE']
FF = ['NOV', 'REH', 'ENG', 'CTD', 'CTS', 'UCTD']
FS = ['NOV', 'SE2', 'MIT', 'CTD', 'UCTD']
CT = ('CTD', 'UCTD')
GRID_MODES = ['none', 'reh', 'cdd', 'lc']

MU = gen.MU
RHO = gen.RHO
T_IN = 623.15
LENGTH = 0.5
GRID_FRAC = [0.2, 0.6]     # grid positions as fractions of the length
RE_FULL_LENGTH = 8.0e4     # below: core length scaled ~Re (step count ~L/Re)
LC_VALUE = 1.5

TOL_ID = 1e-12       # mass conservation / cross-checks (statement: 1e-12)
TOL_PG = 1e-11       # closed-form pressure-gradient identities
TOL_COARSE = 5e-2    # iterated split: gross equality in gradient space
CONV_DELTA = 1e-4    # 10 x STOP_TOL: admissible distance of the split
STOP_TOL = 1e-5      # dassh's documented stopping tolerance on the split

F10_SITES = ('flowsplit_ctd.py:_calc_transition_flowsplit',)
EXC_F10 = ('KeyError', 'TypeError', 'IndexError')


# ----------------------------------------------------------------------
# case generation


def same_family(mix, ff, fs):
    if fs in CT or mix in CT:
        return ff in CT and fs in CT
    return True


def _fixed_geoms():
    return [
        {'g': 'in37', 'nr': 4, 'pd': 1.2, 'hd': 20.0, 'wf': 0.9,
         'slack': 0.05, 'n_duct': 1},
        {'g': 'eng7', 'nr': 2, 'pd': 1.075, 'hd': 8.0, 'wf': 0.95,
         'slack': 0.03, 'n_duct': 1},
        {'g': 'bare19', 'nr': 3, 'pd': 1.25, 'hd': 15.0, 'wf': 0.0,
         'slack': 0.1, 'n_duct': 1},
        # beyond every applicability range: P/D 1.5, H/D 70, W/D 1.6 (the
        # reader refuses W/D > 1.666 for the Cheng-Todreas correlations)
        {'g': 'far61', 'nr': 5, 'pd': 1.5, 'hd': 70.0, 'wf': 0.6,
         'slack': 0.6, 'n_duct': 1},
        # double duct with bypass flow: interior flow < assembly flow
        {'g': 'dd19', 'nr': 3, 'pd': 1.12, 'hd': 30.0, 'wf': 0.8,
         'slack': 0.15, 'n_duct': 2, 'byp': 0.1},
        # pin bundle that does not start at the core bottom (unrodded
        # regions below and above): bundle length != core length != z_top
        {'g': 'lo19', 'nr': 3, 'pd': 1.18, 'hd': 25.0, 'wf': 0.85,
         'slack': 0.08, 'n_duct': 1, 'lower': 0.12, 'upper': 0.85},
        # bare rods that touch (P/D = 1, the lower end of the Cheng-Todreas
        # range; the reader accepts it): no gap between pins
        {'g': 'touch19', 'nr': 3, 'pd': 1.0, 'hd': 15.0, 'wf': 0.0,
         'slack': 0.1, 'n_duct': 1},
    ]


def _random_geom(rng, k, max_rings):
    nr = int(rng.integers(2, max_rings + 1))
    u = rng.random()
    if u < 0.2:
        pd = 1.005 + 0.06 * rng.random()          # below most ranges
    elif u < 0.7:
        pd = 1.06 + 0.36 * rng.random()           # inside
    else:
        pd = 1.42 + 0.18 * rng.random()           # beyond
    u = rng.random()
    if u < 0.2:
        hd = 3.0 + 5.0 * rng.random()
    elif u < 0.75:
        hd = 8.0 + 44.0 * rng.random()
    else:
        hd = 52.0 + 58.0 * rng.random()
    bare = rng.random() < 0.2
    u = rng.random()
    slack = 0.01 + (0.2 * rng.random() if u < 0.6 else 1.1 * rng.random())
    g = {'g': 'rnd%d' % k, 'nr': nr, 'pd': float(pd), 'hd': float(hd),
         'wf': 0.0 if bare else float(0.5 + 0.5 * rng.random()),
         'slack': float(slack),
         'n_duct': 2 if rng.random() < 0.25 else 1}
    if bare and rng.random() < 0.4:
        g['hd'] = 0.0                              # wire_pitch = 0 as well
    if g['n_duct'] == 2:
        g['byp'] = float(rng.uniform(0.02, 0.2))
    if rng.random() < 0.3:
        g['lower'] = float(rng.uniform(0.03, 0.18))
        g['upper'] = float(rng.uniform(0.65, 0.97))
    return g


def cases(tier, seed):
    rng = np.random.default_rng([seed, 12])
    geoms = _fixed_geoms()
    n_rnd = 1 if tier == 'quick' else 16
    max_rings = 7 if tier == 'quick' else 11
    for k in range(n_rnd):
        geoms.append(_random_geom(rng, k, max_rings))
    out = []
    i = 0
    for gi, g in enumerate(geoms):
        bare = g['wf'] == 0.0
        for mi, m in enumerate(MIX):
            for fi, f in enumerate(FF):
                if bare and f not in CT and not (mi == 0 and fi < 2):
                    # the reader rejects these; two cases per bare geometry
                    # are kept to observe the rejection
                    continue
                if tier == 'quick':
                    modes = ['none', GRID_MODES[1 + (gi + mi + fi + seed) % 3]]
                else:
                    modes = GRID_MODES
                for gm in modes:
                    out.append({'name': '%s-%s-%s-%s' % (g['g'], gm, m, f),
                                'geom': g, 'grid': gm, 'mix': m, 'ff': f,
                                'tier': tier, 'seed': [seed, 12, i]})
                    i += 1
    return out


# ----------------------------------------------------------------------
# problem construction


def core_length(re):
    """Core length of a full build: the explicit march needs ~L/Re steps, so
    low-Re builds use a proportionally shorter core (the oracle reads the
    length from the region)."""
    return LENGTH * min(1.0, re / RE_FULL_LENGTH)


def make_type(g, triple, gm, length=LENGTH):
    """Assembly type with prescribed P/D, H/D, wire fraction and wall slack
    (pin diameter follows from the fixed duct size)."""
    ftf_outer, wall, gap = 0.1175, 0.003, 0.002
    ftf = []
    o = ftf_outer
    for _ in range(g['n_duct']):
        ftf = [o - 2 * wall, o] + ftf
        o = o - 2 * wall - 2 * gap
    if g.get('f_in'):
        # sibling bundle: prescribed inner flat-to-flat, one (thick) duct
        ftf = [float(g['f_in']), ftf_outer]
    f_in = ftf[0]
    nr, pd, wf = g['nr'], g['pd'], g['wf']
    D = f_in / (gen.SQ3 * (nr - 1) * pd + 1.0 + 2 * wf * (pd - 1.0)
                + g['slack'])
    t = {'num_rings': int(nr), 'pin_pitch': pd * D, 'pin_diameter': D,
         'clad_thickness': 0.08 * D, 'wire_pitch': g['hd'] * D,
         'wire_diameter': wf * (pd * D - D),
         'wire_direction': 'counterclockwise',
         'duct_ftf': [float(x) for x in ftf],
         'duct_material': 'steel_const',
         'corr_mixing': triple[0], 'corr_friction': triple[1],
         'corr_flowsplit': triple[2]}
    if g['n_duct'] > 1:
        t['bypass_gap_flow_fraction'] = g.get('byp', 0.05)
    if g.get('lower'):
        t['AxialRegion'] = {
            'lo0': {'z_lo': 0.0, 'z_hi': float(g['lower'] * length),
                    'vf_coolant': 0.3, 'model': 'simple'},
            'up0': {'z_lo': float(g['upper'] * length), 'z_hi': float(length),
                    'vf_coolant': 0.3, 'model': 'simple'}}
    grid_z = [float(f * length) for f in GRID_FRAC]
    if gm == 'reh':
        t['SpacerGrid'] = {'corr': 'REH', 'axial_positions': grid_z,
                           'solidity': 0.3}
    elif gm == 'cdd':
        t['SpacerGrid'] = {'corr': 'CDD', 'axial_positions': grid_z,
                           'solidity': 0.25}
    elif gm == 'lc':
        t['SpacerGrid'] = {'loss_coeff': LC_VALUE, 'axial_positions': grid_z}
    return t


def sibling_geometry(g):
    """A bundle of the SAME pins, wire and wall clearance with one ring
    less, in a thicker duct: anything remembered per pin geometry alone
    (and not per bundle) is wrong for the second of the two."""
    if g['nr'] < 3:
        return None
    t = make_type(g, ('CTD', 'CTD', 'CTD'), 'none')
    D = t['pin_diameter']
    pd, wf = g['pd'], g['wf']
    f_in2 = D * (gen.SQ3 * (g['nr'] - 2) * pd + 1.0 + 2 * wf * (pd - 1.0)
                 + g['slack'])
    g2 = dict(g, nr=g['nr'] - 1, f_in=f_in2, n_duct=1, g=g['g'] + '_sib')
    g2.pop('byp', None)
    g2.pop('lower', None)
    g2.pop('upper', None)
    return g2


def flow_for(G, g, re):
    fr = re * MU * G['A_b'] / G['De_b']
    if g['n_duct'] > 1:
        fr = fr / (1.0 - g.get('byp', 0.05))
    return float(fr)


def make_problem(g, triple, gm, G, re):
    length = core_length(re)
    P = gen.base_problem(length=length, inlet=T_IN)
    P['types']['a'] = make_type(g, triple, gm, length)
    gen.add_position(P, 'a', 1, 1, flowrate=flow_for(G, g, re), dT=5.0,
                     shape='flat')
    return P


def oracle_geometry(g):
    t = make_type(g, ('CTD', 'CTD', 'CTD'), 'none')
    return ct.geometry(t['num_rings'], t['pin_pitch'], t['pin_diameter'],
                       t['wire_pitch'], t['wire_diameter'],
                       min(t['duct_ftf']))


def re_points(tier, pd, rng):
    bl_c, bt = ct.re_bounds('CTD', pd)
    bl_u, _ = ct.re_bounds('UCTD', pd)
    pts = [10.0, 16.0, 17.5, 25.0, 50.0, 100.0, 200.0, 300.0, 600.0, 1000.0,
           2000.0, 3500.0, 7000.0, 1e4, 2e4, 5e4, 1e5, 3e5, 1e6]
    bnds = [bl_c, bl_u, bt, 400.0, 5000.0]
    eps = [1e-9] if tier == 'quick' else [1e-12, 1e-9, 1e-6, 1e-3]
    for b in bnds:
        pts.append(b)
        for e in eps:
            pts += [b * (1.0 - e), b * (1.0 + e)]
    if tier != 'quick':
        pts += list(np.logspace(1, 6, 31))
        pts += [float(10 ** rng.uniform(1, 6)) for _ in range(6)]
    return sorted(set(float(p) for p in pts))


def rep_points(pd):
    bl = max(ct.re_bounds('CTD', pd)[0], ct.re_bounds('UCTD', pd)[0])
    bt = ct.re_bounds('CTD', pd)[1]
    # turbulent first: its full-length region becomes the clone template
    return [8.0e4, math.sqrt(bl * bt), 120.0]


# ----------------------------------------------------------------------
# the monitor


def _site(tb):
    frames = traceback.extract_tb(tb)
    inner = None
    for fr in frames:
        if '/dassh/' in fr.filename.replace('\\', '/'):
            inner = fr
    if inner is None:
        inner = frames[-1]
    return '%s:%s' % (inner.filename.replace('\\', '/').split('/')[-1],
                      inner.name), inner.lineno


def _kind(v):
    try:
        v = float(v)
    except Exception:
        return 'not_scalar'
    if v != v:
        return 'nan'
    if v in (float('inf'), float('-inf')):
        return 'inf'
    return 'nonpositive' if v <= 0.0 else 'positive'


class Monitor(object):
    """Evaluates the C12 oracle on a live RoddedRegion whenever one of the
    two real parameter-update methods returns."""

    def __init__(self, res, g, gm, G):
        self.res = res
        self.g = g
        self.gm = gm
        self.G = G
        self.pd = G['P'] / G['D']
        self.cf = {f: ct.subchannel_constants(f, G) for f in CT}
        self.bnds = {f: ct.re_bounds(f, self.pd) for f in CT}
        self.ctx = None
        self.checked_geom = False
        self.seen = {}

    # -- recording (every evaluation is counted; at most one witness per
    #    distinct (monitor, mechanism key) are written out per case so that
    #    one frequent mechanism cannot crowd out another in the case's
    #    capped violation list) ------------------------------------------
    def check(self, monitor, ok, msg, key=None, data=None):
        res = self.res
        if ok:
            return res.check(monitor, True, msg)
        sig = (monitor, json.dumps(key or {}, sort_keys=True, default=str))
        n = self.seen.get(sig, 0)
        self.seen[sig] = n + 1
        if n < 1:
            return res.check(monitor, False, msg, key, data)
        res.count(monitor)
        res.count('violations_raw')
        res.count('violations_not_written_out')
        return False

    def close(self, monitor, resid, scale, tol, msg, key=None, data=None):
        scale = abs(float(scale))
        r = abs(float(resid))
        rel = r / scale if scale > 0 else (0.0 if r == 0 else float('inf'))
        self.res.stat(monitor + '_rel', rel)
        ok = (rel <= tol) and (rel == rel)
        d = dict(data or {})
        d.update({'resid': float(resid), 'scale': scale, 'rel': rel,
                  'tol': tol})
        return self.check(monitor, ok, msg + ' (rel %.3e > %.1e)' % (rel, tol),
                          key, d)

    # -- context ---------------------------------------------------------
    def point(self, triple, re, path):
        self.ctx = {'triple': triple, 're': re, 'path': path,
                    'static': 0, 'update': 0, 'approx': 0}

    def regime_key(self, re):
        """Regime as seen by the Cheng-Todreas components of the triple
        (those are the ones that switch code paths); a point within 1e-12
        of a boundary counts as transition (round-off decides the side)."""
        mix, ff, fs = self.ctx['triple']
        fams = [c for c in (mix, fs) if c in CT] or \
            [c for c in (ff,) if c in CT] or ['CTD']
        rs = set()
        for f in set(fams):
            for e in (-1e-12, 0.0, 1e-12):
                rs.add(ct.regime(re * (1.0 + e), self.bnds[f]))
        if 'transition' in rs:
            return 'transition'
        return rs.pop() if len(rs) == 1 else 'mixed'

    def base_key(self, re):
        mix, ff, fs = self.ctx['triple']
        return {'regime': self.regime_key(re),
                'mismatch': not same_family(mix, ff, fs),
                'grid': self.grid_class()}

    def grid_class(self):
        return {'none': 'none', 'lc': 'loss_coeff'}.get(self.gm, 'corr')

    def hybrid(self):
        """Split and friction are different members of the CTD/UCTD
        family."""
        mix, ff, fs = self.ctx['triple']
        return bool(fs in CT and ff in CT and ff != fs)

    def data(self, reg=None):
        d = {'triple': '/'.join(self.ctx['triple']), 'Re': self.ctx['re'],
             'path': self.ctx['path'], 'geom': self.g}
        return d

    # -- hooks -----------------------------------------------------------
    def post_static(self, args, kwargs, result, tok):
        reg = args[0]
        if self.ctx is None or not getattr(reg, 'is_rodded', False):
            return
        if reg.int_flow_rate <= 0.0:
            return
        self.ctx['static'] += 1
        self.on_static(reg)

    def post_update(self, args, kwargs, result, tok):
        reg = args[0]
        if self.ctx is None or not getattr(reg, 'is_rodded', False):
            return
        if reg.int_flow_rate <= 0.0:
            return
        self.ctx['update'] += 1
        self.on_update(reg)

    def nov_re1(self, re):
        """Interior-subchannel Reynolds number as the Novendstern friction
        correlation defines it: with Novendstern's own flow split
        X1 = A_b / sum_j n_j A_j (De_j / De_1)^0.714, whatever split the
        region uses."""
        G = self.G
        x1 = 1.0 / float(np.sum(G['s'] * (G['de'] / G['de'][0]) ** 0.714))
        return re * x1 * G['de'][0] / G['De_b']

    def pre_static(self, args, kwargs):
        if self.ctx is not None:
            self.ctx['reg'] = args[0]

    def kink_band(self, width=0.05):
        """After a StopIteration: does the equal-gradient split (own
        constants, damped solve) put a subchannel within `width` of one of
        its own regime boundaries - or can even the damped solve not settle
        (solution on the kink)? None when it cannot be computed."""
        try:
            mix, ff, fs = self.ctx['triple']
            reg = self.ctx.get('reg')
            if fs not in CT or reg is None:
                return None
            G, cf, bnds = self.G, self.cf[fs], self.bnds[fs]
            cip = reg.coolant_int_params
            re = float(cip['Re'])
            k = 0.0
            if self.gm != 'none':
                k = float(cip['grid_loss_coeff']) * len(GRID_FRAC)
            L = float(reg.z[1] - reg.z[0])
            xs, conv = ct.solve_split(fs, G, cf, bnds, re, np.ones(3), k, L)
            if not conv:
                return True
            re_i = re * xs * G['de'] / G['De_b']
            xl = ct.constant_split(G, cf, 'laminar')
            xt = ct.constant_split(G, cf, 'turbulent')
            r_l = re_i / (bnds[0] * xl * G['de'] / G['De_b'])
            r_t = re_i / (bnds[1] * xt * G['de'] / G['De_b'])
            return bool(np.any(np.abs(r_l - 1.0) <= width)
                        or np.any(np.abs(r_t - 1.0) <= width))
        except Exception:
            return None

    def pre_approx(self, args, kwargs):
        if self.ctx is not None:
            self.ctx['approx'] += 1
            self.res.count('approx_fallback_calls')

    # -- oracles ----------------------------------------------------------
    def crosscheck(self, reg):
        res, G = self.res, self.G
        key = {'mech': 'oracle_precondition'}
        for nm, mine, theirs in (('area', G['area'], reg.params['area']),
                                 ('de', G['de'], reg.params['de']),
                                 ('A_b', G['A_b'], reg.bundle_params['area']),
                                 ('De_b', G['De_b'], reg.bundle_params['de'])):
            r = float(np.max(np.abs(np.asarray(mine) - np.asarray(theirs))
                             / np.abs(np.asarray(mine))))
            self.close('AUX_geometry_crosscheck', r, 1.0, TOL_ID,
                      'published %s differs from the Table-1 formulas' % nm,
                      dict(key, what=nm), self.data())
        n = np.array([reg.subchannel.n_sc['coolant'][k]
                      for k in ('interior', 'edge', 'corner')], dtype=float)
        self.check('AUX_geometry_crosscheck', bool(np.all(n == G['n'])),
                  'subchannel counts differ', dict(key, what='n_sc'),
                  self.data())

    def on_static(self, reg):
        res, G = self.res, self.G
        mix, ff, fs = self.ctx['triple']
        cip = reg.coolant_int_params
        re = float(cip['Re'])
        key = self.base_key(re)
        if not self.checked_geom:
            self.crosscheck(reg)
            self.checked_geom = True
        self.close('AUX_Re_as_prescribed', re - self.ctx['re'],
                  self.ctx['re'], 1e-12,
                  'bundle Re in use differs from the prescribed one',
                  {'mech': 'oracle_precondition'}, self.data())
        x = np.array(cip['fs'], dtype=float)
        # --- flow split: positivity, mass conservation
        ok = bool(np.all(np.isfinite(x)) and np.all(x > 0.0))
        self.ctx['split_ok'] = ok
        self.check('X_positive', ok,
                   '' if ok else 'flow split not positive/finite: %r' % x,
                   {'mech': ('split_nan' if np.any(np.isnan(x)) else
                             'split_nonpositive'),
                    'fs_ct': fs in CT, 'hybrid': self.hybrid(),
                    'approx_fallback': bool(self.ctx['approx']),
                    'grid': self.grid_class()}, self.data())
        if ok:
            self.close('M_mass_conservation', float(np.sum(G['s'] * x)) - 1.0,
                      1.0, TOL_ID, 'sum n_t A_t X_t != A_bundle',
                      {'mech': 'mass', 'fs': fs}, dict(self.data(), x=x))
            m = np.asarray(reg.sc_mfr, dtype=float)
            self.close('M_sc_flows_sum', float(np.sum(m)) - reg.int_flow_rate,
                      reg.int_flow_rate, TOL_ID,
                      'subchannel flows do not sum to the bundle flow',
                      {'mech': 'mass_flows', 'fs': fs}, self.data())
            typ = np.asarray(reg.subchannel.type[:len(m)])
            exp = (reg.int_flow_rate * G['area'] * x / G['A_b'])[typ]
            self.close('M_sc_flows_sum',
                      float(np.max(np.abs(m - exp) / exp)), 1.0, 1e-11,
                      'subchannel flow != area share * split * bundle flow',
                      {'mech': 'mass_flows_per_cell', 'fs': fs}, self.data())
        # --- friction factor
        f_b = cip['ff']
        fok = bool(np.ndim(f_b) == 0 and np.isfinite(f_b) and f_b > 0.0)
        re1 = self.nov_re1(re)
        self.check('FF_positive_finite', fok,
                  '' if fok else 'bundle friction factor not positive/finite: '
                  '%r' % (f_b,),
                  {'mech': 'ff_value', 'ff': ff, 'value': _kind(f_b),
                   'nov_re1_le_16_76': bool(ff == 'NOV' and re1 <= 16.76),
                   'split_ok': ok},
                  dict(self.data(), ff_value=repr(f_b), Re1=re1))
        if fok:
            res.stat('ff_value', float(f_b))
        # --- grid coefficient
        k_tot = 0.0
        if self.gm != 'none':
            k1 = cip.get('grid_loss_coeff')
            kok = bool(k1 is not None and np.isfinite(k1) and k1 >= 0.0)
            self.check('GRID_coeff_finite', kok,
                      'grid loss coefficient missing/negative: %r' % (k1,),
                      {'mech': 'grid_coeff', 'grid': self.gm}, self.data())
            if self.gm == 'lc' and kok:
                self.close('GRID_coeff_finite', k1 - LC_VALUE, LC_VALUE, 1e-12,
                          'user loss coefficient not the one in use',
                          {'mech': 'grid_coeff_user'}, self.data())
            if not kok:
                return
            k_tot = float(k1) * len(GRID_FRAC)
        # --- Cheng-Todreas family: pressure gradients
        if fs in CT and ok:
            self.pressure_gradients(reg, x, re, f_b if fok else None, k_tot,
                                    key)

    def pressure_gradients(self, reg, x, re, f_b, k_tot, key):
        res, G = self.res, self.G
        mix, ff, fs = self.ctx['triple']
        cf, bnds = self.cf[fs], self.bnds[fs]
        L = float(reg.z[1] - reg.z[0])
        # cross-check of the constants dassh publishes for this split
        try:
            pub = reg.corr_constants['fs']['Cf_sc']
            r = max(float(np.max(np.abs(pub[k] - cf[k]) / np.abs(cf[k])))
                    for k in ('laminar', 'turbulent'))
            self.close('AUX_Cf_crosscheck', r, 1.0, 1e-11,
                      'published subchannel friction constants differ from '
                      'the Cheng-Todreas formulas',
                      {'mech': 'oracle_precondition', 'fs': fs}, self.data())
        except (KeyError, TypeError):
            pass
        rg = ct.regime(re, bnds)
        amb = min(abs(re / b - 1.0) for b in bnds) < 1e-13
        # with a grid term there is no closed form in any regime
        iterated = (k_tot > 0.0) or rg == 'transition'
        g, f_i, psi = ct.gradients(fs, G, cf, bnds, re, x, k_tot, L)
        gm = float(np.mean(g))
        spread = float((np.max(g) - np.min(g)) / gm)
        k2 = {'grid': self.grid_class(),
              'split': 'iterated' if (iterated or amb) else 'constant'}
        dat = dict(self.data(), x=x, g=g, psi=psi, spread=spread)
        res.tag('pg:%s:%s:%s' % (fs, rg, self.gm))
        if iterated or amb:
            # (a) gross equality in gradient space, (b) the split is within
            # 10x its stated stopping tolerance (componentwise) of a point
            # where the three gradients coincide: the ranges of G_i over
            # [x_i - d, x_i + d] must have a common value. (b) is the
            # well-conditioned form of "equal up to the solver tolerance":
            # near a subchannel's own regime boundary dG/dx is unbounded.
            gap = self.interval_gap(fs, re, x, k_tot, L, CONV_DELTA)
            mech = None
            if spread > TOL_COARSE or gap > 1e-9:
                mech = self.diagnose(reg, x, re, k_tot, L, fs, ff)
            self.check('PG_equal_iterated_coarse', spread <= TOL_COARSE,
                       'pressure gradients of the three subchannel types '
                       'differ by %.3e (iterated split)' % spread,
                       dict(k2, mech=mech), dat)
            res.stat('PG_equal_iterated_rel', spread)
            res.stat('PG_split_converged_gap_rel', max(gap, 0.0))
            self.check('PG_split_converged', gap <= 1e-9,
                       'no point within %.0e of the split equalises the '
                       'three pressure gradients (gap %.3e, spread %.3e)'
                       % (CONV_DELTA, gap, spread),
                       dict(k2, mech=mech), dict(dat, gap=gap))
        else:
            mech = None
            if not spread <= TOL_PG:
                mech = self.diagnose(reg, x, re, k_tot, L, fs, ff)
            self.close('PG_equal_const', spread, 1.0, TOL_PG,
                       'pressure gradients of the three subchannel types '
                       'differ (constant split)', dict(k2, mech=mech), dat)
        # bundle value (laminar / turbulent, friction of the same correlation,
        # no grid term in the split)
        if (not iterated and not amb and self.gm == 'none' and ff == fs
                and f_b is not None):
            gb = ct.bundle_gradient(float(f_b), G)
            self.close('PG_equals_bundle', gm - gb, gb, TOL_PG,
                      'common subchannel pressure gradient != bundle value '
                      'f_b/De_b', dict(k2, mech='bundle_value', fs=fs,
                                       fs_regime=rg),
                      dict(dat, f_b=float(f_b)))
        elif f_b is not None and ff == fs:
            gb = ct.bundle_gradient(float(f_b), G, k_tot, L)
            res.stat('PG_vs_bundle_iterated_rel', abs(gm - gb) / gb)

    def interval_gap(self, fs, re, x, k_tot, L, delta):
        """max_i min G_i - min_i max G_i over x_i +- delta, relative to the
        mean gradient; <= 0 means a common value exists."""
        w = np.linspace(-1.0, 1.0, 81)[:, None] * delta
        xs = np.maximum(np.asarray(x)[None, :] + w, 1e-9)
        g, _, _ = ct.gradients(fs, self.G, self.cf[fs], self.bnds[fs], re,
                               xs, k_tot, L)
        lo = np.min(g, axis=0)
        hi = np.max(g, axis=0)
        return float((np.max(lo) - np.min(hi)) / np.mean(g))

    def diagnose(self, reg, x, re, k_tot, L, fs, ff):
        """Which mechanism(s) explain unequal gradients - used for the
        violation key only, never for the verdict. Candidate models of what
        the code may have solved: own constants (the property) or, when
        friction is the other Cheng-Todreas correlation, the friction
        correlation's constants and regime bounds inside the split's own
        blend; with or without the grid term when the grid is a user loss
        coefficient. The best-fitting candidate names the mechanism."""
        G = self.G
        xl = ct.constant_split(G, self.cf[fs], 'laminar')
        xt = ct.constant_split(G, self.cf[fs], 'turbulent')
        cands = [((), fs, k_tot)]
        if self.gm == 'lc' and k_tot > 0.0:
            cands.append((('grid_term_ignored_by_split',), fs, 0.0))
        if self.hybrid():
            for lab, fam_c, k in list(cands):
                cands.append((lab + ('friction_family_constants',), ff, k))
        if self.ctx['approx']:
            # the closed-form fallback was seen to run; which constants it
            # was fed is decided by reproducing the split, not by the
            # configuration (the fallback has no grid term at all)
            lab = []
            if k_tot > 0.0:
                lab.append('grid_term_ignored_by_split')
            fams = [((), fs)]
            if self.hybrid():
                fams.append((('friction_family_constants',), ff))
            for extra, fam_c in fams:
                # (right on a boundary the closed form is sensitive to the
                # last bit of Re: try the neighbouring doubles as well)
                res_ = [re]
                for _ in range(2):
                    res_ = [float(np.nextafter(res_[0], 0.0))] + res_ + \
                        [float(np.nextafter(res_[-1], np.inf))]
                for re_ in sorted(res_, key=lambda v: abs(v - re)):
                    try:
                        xa = ct.approx_split(G, self.cf[fam_c],
                                             self.bnds[fam_c], re_)
                    except Exception:
                        xa = None
                    if xa is not None and \
                            float(np.max(np.abs(xa - x))) < 1e-8:
                        return '+'.join(lab + list(extra) + [
                            'approx_fallback_after_nonconvergence'])
            return '+'.join(lab + ['approx_fallback_after_nonconvergence',
                                   'unexplained'])
        for lab, fam_c, k in cands:          # simplest model first
            try:
                g, f, _ = ct.gradients(fs, G, self.cf[fam_c],
                                       self.bnds[fam_c], re, x, k, L, xl, xt)
                sp = float((np.max(g) - np.min(g)) / np.mean(g))
                if np.isfinite(sp) and sp <= 1e-4 and lab:
                    return '+'.join(lab)
                xs, conv = ct.solve_split(fs, G, self.cf[fam_c],
                                          self.bnds[fam_c], re, x, k, L,
                                          xl, xt)
                if conv and float(np.max(np.abs(xs - x))) <= CONV_DELTA \
                        and lab:
                    return '+'.join(lab)
                rep = ct.successive_approx(fs, G, self.cf[fam_c],
                                           self.bnds[fam_c], re, k, L, xl, xt)
                if rep is not None and \
                        float(np.max(np.abs(rep - x))) < 1e-7:
                    return '+'.join(list(lab)
                                    + ['stopped_on_edge_split_only'])
            except Exception:
                continue
        return 'unexplained'

    def on_update(self, reg):
        res = self.res
        mix, ff, fs = self.ctx['triple']
        cip = reg.coolant_int_params
        re = float(cip['Re'])
        eddy = cip['eddy']
        sw = np.asarray(cip['swirl'], dtype=float)
        ok = bool(np.ndim(eddy) == 0 and np.isfinite(eddy) and eddy >= 0.0
                  and np.all(np.isfinite(sw)) and np.all(sw >= 0.0))
        split_ok = bool(np.all(np.isfinite(cip['fs'])))
        self.check('MIX_nonneg_finite', ok,
                   '' if ok else 'mixing parameters negative or not finite: '
                   'eddy %r swirl %r' % (eddy, sw),
                   dict({'mech': ('mix_value' if split_ok else
                                  'mix_nan_from_split_nan'), 'mix': mix,
                         'hybrid': self.hybrid()},
                        **({'touching_pins': True}
                           if float(self.g.get('pd', 0.0)) == 1.0 else {})),
                   dict(self.data(), eddy=repr(eddy), swirl=sw))
        if ok:
            res.stat('eddy_value', float(eddy))
            res.stat('swirl_value', float(sw[1]))


# ----------------------------------------------------------------------
# driving one point


def _record_exception(res, mon, e, tb, stage):
    site, lineno = _site(tb)
    key = dict(mon.base_key(mon.ctx['re']), exc=type(e).__name__, site=site,
               fs_ct=mon.ctx['triple'][2] in CT)
    if float(mon.g.get('pd', 0.0)) == 1.0:
        key['touching_pins'] = True
    if isinstance(e, StopIteration):
        key['kink_band'] = mon.kink_band()
    mon.check('E_evaluable', False,
              'unhandled %s in %s (line %d): %s' % (type(e).__name__, site,
                                                    lineno, str(e)[:120]),
              key, dict(mon.data(), line=lineno, stage=stage))
    res.tag('exc:%s@%s|%s|%s|%s' % (type(e).__name__, site, key['regime'],
                                    'mismatch' if key['mismatch'] else
                                    'same-family', key['grid']))


def run_point_build(res, mon, hk_state, g, gm, G, triple, re, march=True):
    """Full path: input file -> reader -> Reactor -> two march steps."""
    mon.point(triple, re, 'build')
    P = make_problem(g, triple, gm, G, re)
    r = None
    try:
        with drive.scratch() as d:
            stage = 'build'
            inp, r = drive.build(P, d)
            reg = r.assemblies[0].rodded
            stage = 'update'
            with drive.quiet():
                reg._update_coolant_int_params(T_IN)
            if march:
                stage = 'march'
                with drive.quiet():
                    r._data_setup()
                    r._data_open()
                    r.axial_step0()
                    for i in (1, 2):
                        if i < len(r.z):
                            r.axial_step(r.z[i], r.dz[i - 1], i)
                    try:
                        r._data_close()
                    except (AttributeError, KeyError):
                        pass
                pd_ = reg.pressure_drop
                res.check('DP_finite', bool(np.isfinite(pd_) and pd_ >= 0.0),
                          'bundle pressure drop after two steps not finite: '
                          '%r' % (pd_,),
                          {'mech': 'dp_value', 'ff': triple[1],
                           'ff_ok': bool(np.isfinite(
                               reg.coolant_int_params['ff'])),
                           'nov_re1_le_16_76': bool(
                               triple[1] == 'NOV' and mon.nov_re1(float(
                                   reg.coolant_int_params['Re'])) <= 16.76)},
                          mon.data())
        res.check('E_evaluable', True, '')
        res.count('points_build')
        if mon.ctx['static'] == 0 or mon.ctx['update'] == 0:
            res.count('hook_not_reached')
        return r
    except CaseTimeout:
        raise
    except drive.Rejected as e:
        res.count('points_rejected_by_dassh')
        res.tag('rejected:%s:%s' % (e.stage, str(e)[:60]))
        return None
    except SystemExit:
        res.count('points_rejected_by_dassh')
        res.tag('rejected:systemexit:' + stage)
        return None
    except Exception as e:
        _record_exception(res, mon, e, sys.exc_info()[2], stage)
        res.count('points_build')
        return hk_state.get('reactor')


def run_point_clone(res, mon, template, g, G, triple, re):
    """What Reactor._setup_asm does for one assembly, at a new flow rate."""
    mon.point(triple, re, 'clone')
    stage = 'clone'
    try:
        from vmon import env
        env.log_records()
        with drive.quiet():
            asm = template.clone((0, 0), new_flowrate=flow_for(G, g, re))
            reg = asm.rodded
            stage = 'static'
            reg._init_static_correlated_params(T_IN + 2.5)
            stage = 'update'
            reg._update_coolant_int_params(T_IN)
        res.check('E_evaluable', True, '')
        res.count('points_clone')
    except CaseTimeout:
        raise
    except SystemExit:
        res.count('points_rejected_by_dassh')
        res.tag('rejected:clone:' + stage)
    except Exception as e:
        _record_exception(res, mon, e, sys.exc_info()[2], stage)
        res.count('points_clone')


def run_case(case):
    from vmon import env
    dassh = env.import_dassh()
    import dassh.region_rodded as rrmod
    import dassh.reactor as reactor_mod
    import dassh.correlations.flowsplit_ctd as fsc_mod
    res = Result(case)
    g, gm, mix, ff = case['geom'], case['grid'], case['mix'], case['ff']
    tier = case.get('tier', 'quick')
    rng = np.random.default_rng(case['seed'])
    G = oracle_geometry(g)
    mon = Monitor(res, g, gm, G)
    pd = G['P'] / G['D']
    pts = re_points(tier, pd, rng)
    reps = rep_points(pd)
    res.stat('geom_P_over_D', pd)
    res.stat('geom_W_over_D', G['W'] / G['D'])
    res.stat('geom_H_over_D', (G['H'] / G['D']))
    res.stat('geom_rings', g['nr'])
    res.tag('grid=' + gm)
    res.tag('geom=' + ('bare' if G['Dw'] == 0 else 'wire'))
    res.tag('n_duct=%d' % g['n_duct'])
    full = 0
    hk_state = {}
    # history: a sibling bundle (same pins, other ring count) is built in
    # this process first, with the Cheng-Todreas correlations
    g2 = sibling_geometry(g) if not g.get('f_in') else None
    if g2 is not None and G['Dw'] > 0:
        try:
            G2 = oracle_geometry(g2)
            for tr in (('CTD', 'CTD', 'CTD'), ('UCTD', 'UCTD', 'UCTD')):
                with drive.scratch() as d:
                    drive.build(make_problem(g2, tr, 'none', G2, 3.0e4), d)
            res.tag('sibling_bundle_built_first')
        except drive.Rejected:
            res.tag('sibling_bundle_rejected')
        except Exception as e:
            res.tag('sibling_bundle_failed:' + type(e).__name__)

    def cap(args, kwargs, result, tok):
        hk_state['reactor'] = args[0]

    with Hooks() as hk:
        hk.wrap(rrmod.RoddedRegion, '_init_static_correlated_params',
                pre=mon.pre_static, post=mon.post_static)
        hk.wrap(rrmod.RoddedRegion, '_update_coolant_int_params',
                post=mon.post_update)
        hk.wrap(reactor_mod.Reactor, '_setup_asm_templates', post=cap)
        hk.wrap(fsc_mod, '_calc_transition_flowsplit_APPROX',
                pre=mon.pre_approx)
        for fs in FS:
            triple = (mix, ff, fs)
            res.tag('triple=%s/%s/%s' % triple)
            hk_state.pop('reactor', None)
            template = None
            n0 = res.d['counts'].get('points_rejected_by_dassh', 0)
            for re in reps:
                r = run_point_build(res, mon, hk_state, g, gm, G, triple, re)
                if r is not None and template is None:
                    try:
                        template = r.asm_templates['a']
                    except Exception:
                        template = None
            if template is None:
                if res.d['counts'].get('points_rejected_by_dassh', 0) > n0:
                    res.tag('triple_rejected_by_dassh')
                else:
                    res.count('triples_without_template')
                continue
            seen = set()
            for re in pts:
                run_point_clone(res, mon, template, g, G, triple, re)
                seen.add(ct.regime(re, mon.bnds['CTD']))
            if len(seen) == 3 and len(pts) >= 10:
                full += 1
    if full:
        res.nontrivial('%s/%s/%s/%s' % (g['g'], gm, mix, ff))
    res.sample({'case': case, 'oracle_geometry': {
        'P/D': pd, 'W/D': G['W'] / G['D'], 'H/D': G['H'] / G['D'],
        'A_b': G['A_b'], 'De_b': G['De_b']}, 'n_Re': len(pts)})
    return res


# ----------------------------------------------------------------------


def extra_coverage(results):
    """The finite part of the quantifier: which of the 4x6x5 triples were
    executed (every wire-wrapped geometry runs all 120)."""
    triples = set()
    for r in results:
        for t in r.get('tags', {}):
            if t.startswith('triple='):
                triples.add(t[7:])
    return {'triple_space': len(MIX) * len(FF) * len(FS),
            'distinct_triples_executed': len(triples),
            'triple_space_exhaustive': len(triples) == len(MIX) * len(FF)
            * len(FS)}


FINDINGS = {
    'F10': 'CTD/UCTD flow split or mixing combined with a friction or '
           'flow-split correlation of another family raises '
           'KeyError/TypeError/IndexError in the transition regime '
           '(flowsplit_ctd._calc_transition_flowsplit reads '
           "corr_constants['ff'] / ['fs']['fs'][regime])",
    'F121': 'UCTD flow split or mixing with ENG/REH friction: TypeError at '
           'set-up in every regime (friction_uctd.calculate_bundle_friction_'
           'factor_const does not catch TypeError for corr_constants[ff] '
           'None)',
    'F122': 'SpacerGrid with a correlation (REH/CDD) + NOV/SE2/MIT flow '
           "split: TypeError unexpected keyword 'grid' in every regime",
    'F123': 'SpacerGrid with a correlation + CTD/UCTD flow split + friction '
           'of another family: KeyError/TypeError in _calc_bundle_plus_grid_'
           'flow_split in every regime',
    'F124': 'Novendstern friction factor is NaN when the interior-subchannel '
           'Reynolds number is <= 16.76 (log10 of a negative number)',
    'F125': 'SpacerGrid given as loss_coeff is ignored by the CTD/UCTD flow '
           "split (test on self.corr instead of self.corr_constants)",
    'F126': 'successive-approximation split stops on the edge split alone; '
           'interior/corner splits are off by up to ~1e-3..1e-2',
    'F127': 'successive approximation does not converge near a subchannel '
           'regime boundary (2-cycle): fallback approximation leaves the '
           'gradients unequal by up to 30 %; with a correlated grid '
           'StopIteration escapes',
    'F128': 'CTD split with UCTD friction (or vice versa): the iterated '
           'split uses the friction correlation\'s constants and bounds '
           '(unequal gradients, NaN split next to the boundary)',
}

_PG_LABEL_ID = (('friction_family_constants', 'F128'),
                ('grid_term_ignored_by_split', 'F125'),
                ('approx_fallback_after_nonconvergence', 'F127'),
                ('stopped_on_edge_split_only', 'F126'))


def classify(v, case):
    """Finding id of the mechanism a witness shows, else None.

    F10 (DESIGN.md section 4) ONLY for: KeyError/TypeError/IndexError raised
    in flowsplit_ctd._calc_transition_flowsplit, flow in the transition
    regime, and a triple that mixes the CTD/UCTD family with another family.
    A same-family failure, another site, another exception type or another
    regime is not F10. The other ids (F121-F128, property-prefixed) are
    new: see FINDINGS."""
    k = v.get('key', {}) or {}
    mon = v['monitor']
    if mon == 'E_evaluable':
        exc, site = k.get('exc'), k.get('site')
        if (exc in EXC_F10 and site in F10_SITES
                and k.get('regime') == 'transition'
                and k.get('mismatch') is True):
            return 'F10'
        if (exc == 'TypeError' and k.get('mismatch') is True and site ==
                'friction_uctd.py:calculate_bundle_friction_factor_const'):
            return 'F121'
        if (exc == 'TypeError' and k.get('grid') == 'corr'
                and k.get('fs_ct') is False and site ==
                'region_rodded.py:_init_static_correlated_params'):
            return 'F122'
        if (exc in ('KeyError', 'TypeError') and k.get('grid') == 'corr'
                and k.get('mismatch') is True and k.get('fs_ct') is True
                and site ==
                'flowsplit_ctd.py:_calc_bundle_plus_grid_flow_split'):
            return 'F123'
        if (exc == 'StopIteration' and k.get('grid') in ('corr', 'loss_coeff')
                and k.get('fs_ct') is True and k.get('kink_band') is True
                and site == 'flowsplit_ctd.py:_iterate'):
            # the grid path has no fallback: the non-converging successive
            # approximation (a subchannel next to its own regime boundary)
            # escapes as StopIteration
            return 'F127'
        if (exc == 'ZeroDivisionError' and k.get('touching_pins') is True
                and site == 'mixing_mit.py:calculate_mixing_params'):
            return 'F131'
        if (exc == 'StopIteration' and k.get('grid') in ('corr', 'loss_coeff')
                and k.get('fs_ct') is True and k.get('kink_band') is False
                and k.get('regime') == 'transition'
                and site == 'flowsplit_ctd.py:_iterate'):
            # the same missing fallback, reached away from the band: the
            # successive approximation with a grid term also fails to
            # converge in the middle of the transition regime for bundles
            # far outside the correlation's range
            return 'F130'
        return None
    if mon == 'FF_positive_finite':
        if (k.get('ff') == 'NOV' and k.get('value') == 'nan'
                and k.get('nov_re1_le_16_76') is True):
            return 'F124'
        return None
    if mon == 'DP_finite':
        # a NaN friction factor (F124) makes the friction pressure drop NaN
        if (k.get('ff') == 'NOV' and k.get('ff_ok') is False
                and k.get('nov_re1_le_16_76') is True):
            return 'F124'
        return None
    if mon in ('PG_equal_iterated_coarse', 'PG_split_converged'):
        # (the closed-form monitors PG_equal_const / PG_equals_bundle have
        # no known finding: any failure there is new)
        labels = (k.get('mech') or 'unexplained').split('+')
        known = dict(_PG_LABEL_ID)
        if any(lb not in known for lb in labels):
            return None
        for lb, fid in _PG_LABEL_ID:
            if lb in labels:
                return fid
        return None
    if mon == 'X_positive':
        if (k.get('mech') == 'split_nan' and k.get('hybrid') is True
                and k.get('approx_fallback') is True):
            return 'F128'
        return None
    if mon == 'MIX_nonneg_finite':
        if (k.get('touching_pins') is True and k.get('mix') == 'KC-BARE'
                and k.get('mech') == 'mix_value'):
            return 'F131'
        if (k.get('mech') == 'mix_nan_from_split_nan'
                and k.get('hybrid') is True):
            return 'F128'
        return None
    return None
