"""C03 - power deposited over the sweep equals the power assigned."""
import os
import copy
import shutil
import numpy as np
from vmon import gen, drive, workloads as wl, env
from vmon.harness import Result
from vmon.probe import Hooks
from vmon.stepmon import StepMonitor, sc_flows, byp_flows

dassh = env.import_dassh()

PROPERTY = 'C03'
LEVEL = 'exploration'
TECHNIQUE = ('runtime monitoring: independent tally of dz*power at an '
             'Assembly.calculate hook compared with exact polynomial '
             'integrals of the generated power file after normalisation; '
             'metamorphic power-scaling pairs; VARPOW binary path executed')
LEVEL_TEXT = ('For generated user-power files (1-6 axial cells, order 0-4, '
              'zero cells, missing components, normalisation on/off, scaling, '
              'user step sizes, bundle bounds aligned and not aligned with '
              'the power mesh) the power tallied step by step at the hook '
              'equals the exact integral of the file to 1e-9. Held on the '
              'executions observed.')
LEVEL_NOTE = ('The generator knows every coefficient it wrote, so the '
              'expected power is an exact polynomial integral; trusts numpy '
              'and the CSV round trip (repr floats).')
DESIGN_REF = 'DESIGN.md section 3, C03'
RULE = ('random single assemblies and 7-position cores with random power '
        'files; dimensions: cells 1-6, order 0-4, shapes, component subsets, '
        'total_power normalisation on/off, scaling 0.1-3, axial_mesh_size '
        'from the limit to 1/20, unrodded axial regions whose bounds are or '
        'are not power-cell bounds; non-trivial when power > 0 and >= 10 '
        'steps; distinct by (cells, order, normalisation, alignment, regions)')
RULE += (' Later rounds added: VARPOW data sets also with another requested power, a scaling factor and the low-fidelity option; inputs in inches; total_power = 0; pins unpowered over a stretch; several time points from one parsed input (kind timepoints).')
DECIDING = ['P1_delivered_equals_assigned', 'P2_assigned_equals_file_integral',
            'P4_scaling_linearity', 'P6_coolant_heatup_equals_power_used']
CASE_TIMEOUT = {'quick': 200, 'thorough': 900}
BUDGET = {'quick': 700, 'thorough': 3300}
ASSUMPTIONS = ['non-negative generated profiles (DASSH clips negative '
               'linear power to zero by design)',
               'VARPOW path asserted to 1e-7 relative: flux-fitted monomials '
               'dip below zero where power is negligible and are clipped '
               '(measured 7e-9)']
TOL = 1e-9
# flux-fitted monomials can dip below zero where the power is negligible;
# DASSH clips those values to zero by design (measured effect 7e-9)
VARPOW_TOL = 1e-7

_DATA = os.path.join(env.SRC, 'tests', 'test_data')

MAX_STEPS = 8000


def cases(tier, seed):
    n = 70 if tier == 'quick' else 2000
    out = []
    for i in range(n):
        out.append({'name': 'power-%d' % i, 'kind': 'power',
                    'seed': [seed, 31, i]})
    ncore = 8 if tier == 'quick' else 200
    for i in range(ncore):
        out.append({'name': 'corepower-%d' % i, 'kind': 'core',
                    'seed': [seed, 32, i]})
    nlin = 10 if tier == 'quick' else 300
    for i in range(nlin):
        out.append({'name': 'linear-%d' % i, 'kind': 'linear',
                    'seed': [seed, 33, i]})
    nh = 6 if tier == 'quick' else 120
    for i in range(nh):
        out.append({'name': 'history-%d' % i, 'kind': 'history',
                    'seed': [seed, 35, i]})
    nd = 16 if tier == 'quick' else 400
    for i in range(nd):
        out.append({'name': 'heatup-%d' % i, 'kind': 'heatup',
                    'seed': [seed, 36, i]})
    nt = 6 if tier == 'quick' else 120
    for i in range(nt):
        out.append({'name': 'timepoints-%d' % i, 'kind': 'timepoints',
                    'seed': [seed, 37, i]})
    for ds in ('single_asm_refl', 'single_asm_vac'):
        # the repository's input as it is; the same with another requested
        # core power and a scaling factor; the same with the assembly
        # modelled without pins (low-fidelity)
        for n, var in enumerate(('asis', 'scaled', 'lowfidelity')):
            out.append({'name': 'varpow-%s-%s' % (ds, var), 'kind': 'varpow',
                        'dataset': ds, 'variant': var, 'seed': [seed, 34, n]})
    return out


def build_problem(case):
    rng = np.random.default_rng(case['seed'])
    if case['kind'] == 'core':
        P, feats = wl.core_problem(rng, n_ring=2, gap=wl.choose(
            rng, ['flow', 'none', 'no_flow']), empty_frac=0.2, max_rings=4,
            length=0.5, vel_range=(0.3, 5.0))
        wl.random_power(rng, P, max_cells=4, max_order=3)
        for sp in P['power']['asm'].values():
            sp.pop('zb', None)
        feats['own_power_meshes'] = wl.own_power_meshes(rng, P, 0.5)
    else:
        P, feats = wl.single_assembly(
            rng, tdep=False, max_rings=5,
            regions=(rng.random() < 0.6), lf=(rng.random() < 0.1),
            vel=wl.loguniform(rng, 0.2, 6.0), length=1.0)
        wl.random_power(rng, P, max_cells=6, max_order=4)
        # re-draw the per-assembly spec for the new cell count
        nc = len(P['power']['zb']) - 1
        sp = P['power']['asm']['0']
        sp['axial'] = [float(x) for x in rng.uniform(0.1, 1.6, nc)]
        sp['zero_cells'] = ([int(rng.integers(nc))]
                            if nc > 1 and rng.random() < 0.3 else [])
        sp['comps'] = wl.choose(rng, [[1, 2, 3], [1, 2, 3], [1], [1, 3],
                                      [2, 3], [1, 2], [3]])
        sp['shape'] = wl.choose(rng, ['rand', 'rand', 'flat', 'hotpin'])
        sp['zero_pin_cells'] = ([int(rng.integers(nc))] if nc > 1 and
                                rng.random() < 0.25 else [])
        # align power-cell bounds with region bounds in ~half of the cases
        t = P['types']['a']
        regs = t.get('AxialRegion', {})
        feats['aligned'] = True
        if regs:
            bnds = sorted(set([v['z_lo'] for v in regs.values()]
                              + [v['z_hi'] for v in regs.values()]))
            bnds = [b for b in bnds if 0.0 < b < P['length']]
            if rng.random() < 0.5:
                P['power']['zb'] = [0.0] + bnds + [P['length']]
                nc = len(P['power']['zb']) - 1
                sp['axial'] = [float(x) for x in rng.uniform(0.1, 1.6, nc)]
                sp['zero_cells'] = []
                sp['zero_pin_cells'] = []
            else:
                inner = P['power']['zb'][1:-1]
                feats['aligned'] = all(any(abs(b - z) < 1e-9 for z in inner)
                                       for b in bnds)
    if rng.random() < 0.5:
        P['power']['total_power'] = float(rng.uniform(0.2, 3.0) * 1e5)
        if rng.random() < 0.12:
            # an unpowered run asked for through the normalisation
            P['power']['total_power'] = 0.0
    if rng.random() < 0.5:
        P['power']['scaling'] = float(wl.choose(rng, [0.1, 0.5, 2.0, 3.0]))
    feats['norm'] = P['power'].get('total_power') is not None
    feats['scaling'] = P['power'].get('scaling')
    feats['cells'] = len(P['power']['zb']) - 1
    feats['order'] = P['power']['order']
    feats['inches'] = False
    if case['kind'] != 'core' and rng.random() < 0.25:
        # written in inches, bounds at half-inch values
        Q = wl.in_inches(P)
        if Q is not None:
            P = Q
            feats['inches'] = True
    return P, feats


def expected_assigned(P):
    """Expected power per position after normalisation and scaling."""
    raw = {int(k): gen.expected_power(P, int(k))['total']
           for k in P['power']['asm']}
    s = P['power'].get('scaling')
    s = 1.0 if s is None else s
    tp = P['power'].get('total_power')
    tot = sum(raw.values())
    if tp is not None:
        f = 0.0 if (tp == 0.0 or tot == 0.0) else tp / tot
        return {k: v * f * s for k, v in raw.items()}, tot * f * s
    return {k: v * s for k, v in raw.items()}, tot * s


def run_power(case, res):
    P, feats = build_problem(case)
    rng = np.random.default_rng(case['seed'] + [5])
    key = {'norm': feats['norm'], 'aligned': feats.get('aligned', True),
           'regions': bool(feats.get('regions')), 'lf': feats.get('lf')}
    tally = {}

    def on_step(rec):
        a = rec['asm']
        pw = rec['pow'] or {}
        t = tally.setdefault(id(a), 0.0)
        tally[id(a)] = t + rec['dz'] * sum(float(np.sum(v))
                                           for v in pw.values()
                                           if v is not None)

    with drive.scratch() as d, Hooks() as hk:
        inp, r = drive.build(P, d, max_steps=MAX_STEPS)
        if rng.random() < 0.5:
            # user step: from the limit down to 1/20 of it
            P['setup']['axial_mesh_size'] = float(
                r.req_dz * wl.choose(rng, [1.0, 0.7, 0.31, 0.1, 0.05])
                / (0.0254 if feats['inches'] else 1.0))
            feats['user_dz'] = P['setup']['axial_mesh_size']
        else:
            feats['user_dz'] = None
    with drive.scratch() as d, Hooks() as hk:
        inp, r = drive.build(P, d, max_steps=MAX_STEPS)
        if len(r.z) > 8000:
            res.status('rejected', 'too many steps')
            res.tag('skipped_too_many_steps')
            return feats
        StepMonitor(hk, on_step)
        drive.sweep(r)
        exp, exp_tot = expected_assigned(P)
        res.close('P3_core_total', r.total_power - exp_tot, abs(exp_tot),
                  TOL, 'Reactor.total_power != requested core power x scaling',
                  key, {'got': r.total_power, 'exp': exp_tot})
        for a in r.assemblies:
            e = exp[a.id]
            res.close('P2_assigned_equals_file_integral', a.total_power - e,
                      abs(e) + 1e-12, TOL,
                      'Assembly.total_power != integral of the power file '
                      'after normalisation', key,
                      {'asm': a.id, 'got': a.total_power, 'exp': e})
            got = float(sum(a._power_delivered.values()))
            res.close('P1_delivered_equals_assigned', got - e, abs(e) + 1e-12,
                      TOL, 'power delivered during the sweep != power '
                      'assigned', dict(key, mech=('unaligned_bundle_bounds'
                                                  if not key['aligned']
                                                  else 'aligned')),
                      {'asm': a.id, 'got': got, 'exp': e,
                       'user_dz': feats['user_dz']})
            res.close('P1b_tally_matches_hook', got - tally.get(id(a), 0.0),
                      abs(e) + 1e-12, TOL,
                      'Assembly._power_delivered != independent dz*power '
                      'tally', key)
        if P['power'].get('total_power') == 0.0:
            res.tag('total_power_zero_requested')
        for k in ('norm', 'aligned', 'cells', 'order', 'scaling', 'inches'):
            res.tag('%s=%s' % (k, feats.get(k)))
        res.tag('user_dz=%s' % (feats['user_dz'] is not None))
        if exp_tot > 0 and len(r.z) > 10:
            res.nontrivial(repr((feats['cells'], feats['order'], feats['norm'],
                                 feats.get('aligned'), feats.get('regions'),
                                 feats.get('nr'), case['seed'][-1])))
    return feats


def run_history(case, res):
    """Several models built one after another in the same process from the
    same power-file path: each must get the power its own input asks for
    (different scaling, different normalisation, rewritten file)."""
    rng = np.random.default_rng(case['seed'])
    P, feats = wl.single_assembly(rng, tdep=False, max_rings=4, lf=False,
                                  gap=wl.choose(rng, ['none', 'flow']),
                                  vel=wl.loguniform(rng, 0.5, 5.0),
                                  length=0.5)
    key = {'kind': 'history'}
    with drive.scratch() as d:
        for rnd in range(4):
            what = wl.choose(rng, ['scaling', 'norm', 'rewrite', 'same'])
            if rnd == 0:
                what = 'first'
            if what == 'scaling':
                P['power']['scaling'] = float(wl.choose(
                    rng, [0.25, 0.5, 2.0, 3.0]))
            elif what == 'norm':
                P['power']['total_power'] = float(rng.uniform(0.2, 3.0) * 1e5)
            elif what == 'rewrite':
                P['power']['asm']['0']['total'] *= float(rng.uniform(0.5, 2))
                P['power']['asm']['0']['seed_k0'] = int(rng.integers(1 << 30))
            inp, r = drive.build(P, d, max_steps=MAX_STEPS)
            exp, exp_tot = expected_assigned(P)
            k = dict(key, round=rnd, change=what)
            res.close('P3_core_total', r.total_power - exp_tot, abs(exp_tot),
                      TOL, 'Reactor.total_power != requested core power x '
                      'scaling (model built after others, same file path)',
                      k, {'got': r.total_power, 'exp': exp_tot})
            a = r.assemblies[0]
            res.close('P2_assigned_equals_file_integral',
                      a.total_power - exp[0], abs(exp[0]) + 1e-12, TOL,
                      'Assembly.total_power != integral of the power file '
                      '(model built after others, same file path)', k,
                      {'got': a.total_power, 'exp': exp[0]})
            if rnd == 3:
                drive.sweep(r)
                got = float(sum(a._power_delivered.values()))
                res.close('P1_delivered_equals_assigned', got - exp[0],
                          abs(exp[0]) + 1e-12, TOL, 'power delivered during '
                          'the sweep != power assigned (model built after '
                          'others)', dict(k, mech='aligned'))
            res.tag('history_change=' + what)
    res.nontrivial('hist/%s' % case['seed'][-1])
    return feats


def run_timepoints(case, res):
    """Several time points (one power file each, different totals and
    shapes) and one model per time point built from the SAME parsed input,
    as a serial multi-time-point run does: every model gets the power of
    its own file (with the input's normalisation / scaling, if any)."""
    rng = np.random.default_rng(case['seed'])
    if rng.random() < 0.5:
        P, feats = wl.single_assembly(rng, tdep=False, max_rings=4, lf=False,
                                      gap=wl.choose(rng, ['none', 'flow']),
                                      vel=wl.loguniform(rng, 0.5, 5.0),
                                      length=0.5)
    else:
        P, feats = wl.core_problem(rng, n_ring=2, gap=wl.choose(
            rng, ['flow', 'none']), empty_frac=0.2, max_rings=3, length=0.5,
            vel_range=(0.5, 5.0), lf_frac=0.0)
    mode = wl.choose(rng, ['plain', 'plain', 'norm', 'scaling'])
    if mode == 'norm':
        P['power']['total_power'] = float(rng.uniform(0.2, 3.0) * 1e5)
    elif mode == 'scaling':
        P['power']['scaling'] = float(wl.choose(rng, [0.5, 2.0, 3.0]))
    n_tp = int(rng.integers(2, 4))
    key = {'kind': 'timepoints', 'mode': mode}
    with drive.scratch() as d:
        path = gen.render(P, d)
        variants, names = [P], ['power.csv']
        for i in range(1, n_tp):
            Qi = copy.deepcopy(P)
            Qi['power']['seed'] = int(rng.integers(1 << 30))
            for sp in Qi['power']['asm'].values():
                sp['total'] = sp['total'] * float(rng.uniform(0.5, 1.8))
            nm = 'power_tp%d.csv' % (i + 1)
            gen.write_power_csv(Qi, os.path.join(d, nm))
            names.append(nm)
            variants.append(Qi)
        txt = open(path).read().replace('user_power = power.csv',
                                        'user_power = ' + ', '.join(names))
        open(path, 'w').write(txt)
        inp = drive.read_input(path)
        for t in range(n_tp):
            r = drive.build_reactor(inp, timestep=t,
                                    path=os.path.join(d, 'tp%d' % (t + 1)))
            exp, exp_tot = expected_assigned(variants[t])
            k = dict(key, timepoint=t + 1)
            res.close('P3_core_total', r.total_power - exp_tot, abs(exp_tot),
                      TOL, 'Reactor.total_power of time point %d != power of '
                      'its own file (x normalisation / scaling of the input)'
                      % (t + 1), k, {'got': r.total_power, 'exp': exp_tot})
            for a in r.assemblies:
                res.close('P2_assigned_equals_file_integral',
                          a.total_power - exp[a.id], abs(exp[a.id]) + 1e-12,
                          TOL, 'Assembly.total_power of time point %d != '
                          'integral of its own power file' % (t + 1), k,
                          {'asm': a.id, 'got': a.total_power,
                           'exp': exp[a.id]})
            if t == n_tp - 1:
                drive.sweep(r)
                for a in r.assemblies:
                    got = float(sum(a._power_delivered.values()))
                    res.close('P1_delivered_equals_assigned',
                              got - exp[a.id], abs(exp[a.id]) + 1e-12, TOL,
                              'power delivered in the last time point != '
                              'power of its own file', dict(k, mech='aligned'))
    res.tag('timepoints=%d' % n_tp)
    res.tag('timepoints_mode=' + mode)
    res.nontrivial('tp/%s/%s' % (mode, case['seed'][-1]))
    return feats


def run_heatup(case, res):
    """Power 'as used': with constant properties and an adiabatic outer
    wall, the heat all coolant of the assembly picks up in a step is the
    pin, coolant and duct-wall power of that step (wall temperatures are
    solved first in the step and the walls store nothing)."""
    rng = np.random.default_rng(case['seed'])
    nd = int(wl.choose(rng, [1, 2, 2, 3]))
    want_inches = bool(rng.random() < 0.5)
    P, feats = wl.single_assembly(rng, tdep=False, max_rings=4, lf=False,
                                  gap='none',
                                  regions=bool(want_inches or
                                               rng.random() < 0.5),
                                  n_duct=nd,
                                  vel=wl.loguniform(rng, 0.3, 5.0),
                                  length=(0.8 if want_inches else 0.4))
    for m in P['types'].values():
        m['duct_material'] = 'steel_const'
    sp = P['power']['asm']['0']
    sp['frac'] = [0.6, 0.3, 0.1]
    sp['shape'] = 'rand'
    sp['comps'] = [1, 2, 3]
    cp = gen.CP
    key = {'n_duct': nd, 'byp': bool(feats.get('byp'))}
    inches = False
    if want_inches:
        # the same written in inches, core height and region bounds at
        # half-inch values
        Q = wl.in_inches(P)
        if Q is not None:
            P, inches = Q, True

    def on_step(rec):
        reg = rec['reg']
        pw = rec['pow'] or {}
        if not reg.is_rodded:
            # unrodded region (below / above the bundle): everything the
            # profile holds at this height goes to the region's coolant
            dz = rec['dz']
            T0, T1 = rec['pre']['coolant_int'], rec['post']['coolant_int']
            n = len(T0)
            dH = float(np.sum(reg.flow_rate / n * cp * (T1 - T0)))
            q = sum(float(np.sum(v)) for v in pw.values() if v is not None)
            res.close('P6_coolant_heatup_equals_power_used', dH - dz * q,
                      dz * abs(q) + abs(dH)
                      + 1e-6 * reg.flow_rate * cp * 700.0, 1e-8,
                      'coolant heat-up of an unrodded region in a step != '
                      'power of the profile at that height (adiabatic wall)',
                      dict(key, region=reg.model),
                      {'z': rec['z1'], 'dH': dH, 'heat': dz * q,
                       'kinds': sorted(k for k, v in pw.items()
                                       if v is not None)})
            return
        if reg.n_bypass and not np.sum(reg.byp_flow_rate) > 0:
            # stagnant gap between walls: heat crosses it with a lag that
            # C02 owns (known finding F11); not a statement about power
            res.count('P6_skipped_stagnant_bypass_steps')
            return
        dz = rec['dz']
        mdot = sc_flows(reg)
        dH = float(np.sum(mdot * cp * (rec['post']['coolant_int']
                                       - rec['pre']['coolant_int'])))
        floor = 1e-6 * float(np.sum(mdot)) * cp * 700.0  # x tol: rounding of T
        if reg.n_bypass:
            for i in range(reg.n_bypass):
                mb, _, _ = byp_flows(reg, i)
                dH += float(np.sum(mb * cp * (
                    rec['post']['coolant_byp'][i]
                    - rec['pre']['coolant_byp'][i])))
        # everything handed to the region at this height counts, whatever
        # its kind
        q = sum(float(np.sum(v)) for v in pw.values() if v is not None)
        res.close('P6_coolant_heatup_equals_power_used', dH - dz * q,
                  dz * abs(q) + abs(dH) + floor, 1e-8,
                  'coolant heat-up in a step != pin + coolant + duct-wall '
                  'power of the step (adiabatic outer wall)', key,
                  {'z': rec['z1'], 'dH': dH, 'heat': dz * q})

    with drive.scratch() as d, Hooks() as hk:
        inp, r = drive.build(P, d, max_steps=MAX_STEPS)
        StepMonitor(hk, on_step)
        drive.sweep(r)
        a = r.assemblies[0]
        if a.total_power > 0:
            res.nontrivial('heatup/%d/%s/%s' % (nd, feats.get('nr'),
                                                case['seed'][-1]))
    res.tag('heatup_inches=%s' % inches)
    res.tag('heatup_n_duct=%d' % nd)
    res.tag('heatup_bypass_flow=%s' % bool(feats.get('byp')))
    return feats


def run_linear(case, res):
    """power x s => (T - T_in) x s for a constant-property problem."""
    rng = np.random.default_rng(case['seed'])
    P, feats = wl.single_assembly(rng, tdep=False, max_rings=4, lf=False,
                                  gap=wl.choose(rng, ['none', 'flow']),
                                  vel=wl.loguniform(rng, 0.3, 5.0),
                                  length=0.5)
    for m in P['types'].values():
        m['duct_material'] = 'steel_const'
    s = float(wl.choose(rng, [0.25, 0.5, 2.0, 3.0]))
    fields = []
    for sc in (1.0, s):
        P['power']['scaling'] = sc
        with drive.scratch() as d:
            inp, r = drive.build(P, d, max_steps=MAX_STEPS)
            drive.sweep(r)
            a = r.assemblies[0]
            f = [a.active_region.temp['coolant_int'].copy(),
                 a.active_region.temp['duct_mw'].ravel().copy(),
                 r.core.coolant_gap_temp.copy() if r.core.model else
                 np.zeros(1) + P['inlet']]
            fields.append(np.concatenate(f) - P['inlet'])
    rise = float(np.max(np.abs(fields[0])))
    if rise < 1e-6:
        res.count('P4_not_informative')
        return feats
    res.close('P4_scaling_linearity',
              float(np.max(np.abs(fields[1] - s * fields[0]))),
              s * rise, 1e-9, 'temperature rises do not scale with power',
              {'gap': feats['gap']}, {'s': s})
    res.nontrivial('lin/%s/%s/%s' % (feats['nr'], feats['gap'], s))
    return feats


def run_varpow(case, res):
    ds = os.path.join(_DATA, case['dataset'])
    if not os.path.isdir(ds):
        res.tag('varpow_dataset_missing')
        return {}
    tmpl = {'single_asm_refl': 'input_single_asm.txt',
            'single_asm_vac': 'input_power_verif_vac.txt'}[case['dataset']]
    src = os.path.join(env.SRC, 'tests', 'test_inputs', tmpl)
    txt = open(src).read()
    with drive.scratch() as d:
        for f in os.listdir(ds):
            shutil.copy(os.path.join(ds, f), os.path.join(d, f))
        for f in ('sodium_se2anl.csv',):
            p = os.path.join(env.SRC, 'tests', 'test_inputs', f)
            if os.path.exists(p):
                shutil.copy(p, os.path.join(d, f))
        import re
        txt = re.sub(r'\.\./test_data/\w+/', '', txt)
        txt = re.sub(r'(?ms)^\s*\[\[AssemblyTables\]\].*?(?=^\[|\Z)', '',
                     txt, count=1)
        var = case.get('variant', 'asis')
        rng = np.random.default_rng(case['seed'])
        if var != 'asis':
            ptot = float(rng.uniform(2.0e6, 8.0e6))
            scale = float(wl.choose(rng, [0.5, 0.8, 1.25]))
            txt = re.sub(r'(?m)^(\s*total_power\s*=).*$',
                         r'\g<1> %r\n    power_scaling_factor = %r'
                         % (ptot, scale), txt, count=1)
        if var == 'lowfidelity':
            txt = re.sub(r'(?m)^(\s*)(num_rings\s*=.*)$',
                         r'\g<1>\g<2>\n\g<1>use_low_fidelity_model = True',
                         txt)
            # pin temperatures need pins
            txt = re.sub(r'(?ms)^\s*\[\[\[FuelModel\]\]\].*?(?=^\s*\[|^#|\Z)',
                         '', txt)
        path = os.path.join(d, 'input.txt')
        with open(path, 'w') as f:
            f.write(txt)
        inp = drive.read_input(path)
        tally = {}

        def on_step(rec):
            pw = rec['pow'] or {}
            tally[id(rec['asm'])] = tally.get(id(rec['asm']), 0.0) + \
                rec['dz'] * sum(float(np.sum(v)) for v in pw.values()
                                if v is not None)

        with Hooks() as hk:
            r = drive.build_reactor(inp, calc_power=True)
            StepMonitor(hk, on_step)
            drive.sweep(r)
        tot = 0.0
        key = {'dataset': case['dataset'], 'variant': var}
        for a in r.assemblies:
            got = float(sum(a._power_delivered.values()))
            tot += got
            res.close('P5_varpow_delivered', got - a.total_power,
                      abs(a.total_power), VARPOW_TOL,
                      'VARPOW power: delivered != assigned', key,
                      {'got': got, 'exp': a.total_power})
            res.close('P1b_tally_matches_hook', got - tally.get(id(a), 0.0),
                      abs(a.total_power) + 1e-12, TOL,
                      'Assembly._power_delivered != independent dz*power '
                      'tally', key)
        tp = inp.data['Power']['total_power']
        if tp is not None:
            res.close('P5_varpow_core_total', tot - tp
                      * inp.data['Power']['power_scaling_factor'], tp,
                      VARPOW_TOL,
                      'VARPOW power: core total != requested x scaling', key,
                      {'got': tot, 'requested': tp, 'scaling':
                       inp.data['Power']['power_scaling_factor']})
        res.tag('varpow_executed')
        res.tag('varpow_variant=' + var)
        res.nontrivial('varpow/%s/%s' % (case['dataset'], var))
    return {'dataset': case['dataset'], 'variant': var}


def run_case(case):
    res = Result(case)
    try:
        if case['kind'] in ('power', 'core'):
            feats = run_power(case, res)
        elif case['kind'] == 'linear':
            feats = run_linear(case, res)
        elif case['kind'] == 'history':
            feats = run_history(case, res)
        elif case['kind'] == 'heatup':
            feats = run_heatup(case, res)
        elif case['kind'] == 'timepoints':
            feats = run_timepoints(case, res)
        else:
            feats = run_varpow(case, res)
        res.sample({'case': case, 'features': feats})
    except drive.Rejected as e:
        res.status('rejected', str(e))
        res.tag('rejected:' + e.stage)
    return res


def classify(v, case):
    k = v.get('key', {})
    if v['monitor'] == 'P1_delivered_equals_assigned' and \
            k.get('mech') == 'unaligned_bundle_bounds':
        return 'F6'
    return None
