"""C17 - results do not depend on the unit system of the input.

Metamorphic monitor on the real parser (DASSH_Input) and the real Reactor:
one SI Problem (vmon.gen layout) is written in every supported unit system
with the monitor's OWN table of dimensional keys (vmon/oracle/c17_units.py,
written from the input schema) and must come back as the same SI data, the
same mesh and the same temperatures.
"""
import os
import copy
import json
import traceback
import numpy as np
from vmon import gen, drive, env, workloads as wl
from vmon.harness import Result
from vmon.oracle import c17_units as U

PROPERTY = 'C17'
LEVEL = 'exploration'
TECHNIQUE = ('runtime monitoring, metamorphic: the same generated problem '
             'rendered in all 90 unit systems (5 length x 3 temperature x 6 '
             'flow) and all accepted spellings is parsed by the real '
             'DASSH_Input and compared key by key with the SI values of an '
             'independent table of dimensional keys; Reactor mesh, flow '
             'rates, temperatures and pressure drops of short sweeps are '
             'compared with the SI run; every scalar converter of '
             'dassh.utils / dassh.table is compared with the exact unit '
             'definitions and round-tripped')
LEVEL_TEXT = ('Every dimensional key of the input schema (Setup, Core, '
              'Assembly incl. AxialRegion/SpacerGrid/FuelModel/PinModel, '
              'Assignment, Orificing) is observed after parsing in every '
              'unit combination and must equal its SI value to 1e-12; all '
              'other parsed entries must not depend on the units; held on '
              'the generated inputs observed, not proved.')
LEVEL_NOTE = ('The classification of schema keys into length / temperature '
              '/ temperature difference / flow rate / none is the '
              'monitor\'s own reading of input_template.txt (every template '
              'leaf must be classified or the run is inconclusive). The '
              'pound used to write lb flow rates is DASSH\'s own 6-digit '
              'pound (0.453592), checked separately against the exact '
              '0.45359237 to 1e-6. User-power CSV bounds are metres in '
              'every unit system.')
DESIGN_REF = 'DESIGN.md section 3, C17'
RULE = ('"parse" cases: a random 7-position core with two assembly types '
        'carrying every dimensional key of the schema (mesh size, planes, '
        'dump interval, table positions, axial regions with hydraulic '
        'diameter and roughness, spacer grids, fuel/pin model gaps, '
        'FLOWRATE / OUTLET_TEMP / DELTA_TEMP assignments, orificing target) '
        'parsed in all 90 unit combinations plus every spelling; "reactor" '
        'cases: random single assemblies and small cores built and swept '
        'in SI and in a sample (quick) / all (thorough, part) of the '
        'combinations (param_update_tol off: thresholded property updates '
        'amplify conversion round-off); "witness" cases: minimal inputs for '
        'each flow unit, spacer-grid default solidity, roughness, default '
        'dump interval, temperature rise vs absolute, region bounds written '
        'to user precision. The 90-combination space is enumerated in every '
        '"parse" case (values are sampled). A case is non-trivial when >= 20 dimensional entries were '
        'compared in >= 2 non-SI unit systems or a sweep of >= 10 steps '
        'with > 1 K rise was compared; distinct by (kind, features).')
DECIDING = ['P1_supported_units_accepted', 'K1_dimensional_key_converted_once',
            'K2_other_data_unit_independent', 'R1_mesh', 'R2_temperatures',
            'R5_region_active_per_plane',
            'S1_scalar_converter_value', 'S2_scalar_roundtrip']
CASE_TIMEOUT = {'quick': 240, 'thorough': 900}
BUDGET = {'quick': 600, 'thorough': 3000}
EXHAUSTIVE = {'quick': False, 'thorough': False}
ASSUMPTIONS = ['numpy float64 arithmetic',
               'unit definitions: 1 in = 0.0254 m, 1 ft = 0.3048 m, '
               '1 lb = 0.45359237 kg, t_F = 9/5 t_C + 32, t_C = T - 273.15',
               'key classification read from dassh/input_template.txt by '
               'the check author']
TOL = 1e-12
TEMPLATE = os.path.join(env.SRC, 'dassh', 'input_template.txt')

# canonical names of the dimensional keys of the schema (monitor K1 names
# the key of a mismatch with one of these)
DIM_KEYS = ['Setup.axial_mesh_size', 'Setup.axial_plane',
            'Setup.conv_approx_dz_cutoff', 'Setup.Dump.interval',
            'Setup.AssemblyTables.axial_positions',
            'Core.coolant_inlet_temp', 'Core.length', 'Core.assembly_pitch',
            'Assembly.pin_pitch', 'Assembly.pin_diameter',
            'Assembly.wire_pitch', 'Assembly.wire_diameter',
            'Assembly.clad_thickness', 'Assembly.duct_ftf',
            'AxialRegion.z_lo', 'AxialRegion.z_hi',
            'AxialRegion.hydraulic_diameter', 'AxialRegion.epsilon',
            'SpacerGrid.axial_positions',
            'FuelModel.gap_thickness', 'FuelModel.fcgap_thickness',
            'PinModel.gap_thickness', 'PinModel.fcgap_thickness',
            'Orificing.bulk_coolant_temp',
            'Assignment.flowrate', 'Assignment.outlet_temp',
            'Assignment.delta_temp']


def extra_coverage(results):
    """Which dimensional keys were seen stored correctly, in how many
    parses; which of the table were never exercised."""
    ok = {}
    for r in results:
        for k, v in r.get('tags', {}).items():
            if k.startswith('key_ok:'):
                ok[k[7:]] = ok.get(k[7:], 0) + v
    return {'dimensional_keys_stored_as_SI': ok,
            'dimensional_keys_never_stored_as_SI': [k for k in DIM_KEYS
                                                    if not ok.get(k)],
            'unit_combinations_per_parse_case': len(U.all_combos()),
            'schema_leaves': len(U.template_leaf_paths(TEMPLATE)),
            'schema_leaves_dimensional': len(
                [p for p in U.template_leaf_paths(TEMPLATE)
                 if U.SCHEMA.get(p, '-') != '-'])}



class Res(Result):
    """Result that keeps ONE witness per (monitor, mechanism key) and case:
    a known mechanism firing in all 90 unit systems must not crowd a new
    one out of the bounded violation list."""

    def __init__(self, case):
        Result.__init__(self, case)
        self._seen = set()

    def violation(self, monitor, msg, key=None, data=None):
        k = (monitor, json.dumps(key or {}, sort_keys=True, default=str))
        if k in self._seen:
            self.count('violations_repeated')
            return
        self._seen.add(k)
        Result.violation(self, monitor, msg, key, data)


# ----------------------------------------------------------------------
# cases


def cases(tier, seed):
    q = (tier == 'quick')
    out = [{'name': 'scalars', 'kind': 'scalars', 'seed': [seed, 0, 0],
            'n': 200 if q else 5000}]
    for w in ('flow_units', 'spacer_default_solidity', 'epsilon',
              'dump_default', 'delta_temp', 'region_bounds'):
        out.append({'name': 'witness-' + w, 'kind': 'witness', 'what': w,
                    'seed': [seed, 1, 0]})
    out.append({'name': 'spellings', 'kind': 'spell', 'seed': [seed, 2, 0]})
    for i in range(10 if q else 120):
        out.append({'name': 'parse-%d' % i, 'kind': 'parse',
                    'seed': [seed, 3, i]})
    for i in range(4 if q else 40):
        out.append({'name': 'spacer-%d' % i, 'kind': 'parse', 'spacer': True,
                    'seed': [seed, 4, i]})
    n_r = 28 if q else 260
    for i in range(n_r):
        out.append({'name': 'reactor-%d' % i, 'kind': 'reactor',
                    'seed': [seed, 5, i],
                    'n_units': 4 if q else (90 if i % 10 == 0 else 10)})
    for i in range(6 if q else 50):
        out.append({'name': 'rcore-%d' % i, 'kind': 'reactor', 'core': True,
                    'seed': [seed, 6, i], 'n_units': 3 if q else 8})
    return out


# ----------------------------------------------------------------------
# problems


def _r(x, n):
    return float(np.round(x, n))


def _offplane(x):
    """k * 1e-6 + 5e-7 m: mesh planes are multiples of 1e-6 m (step sizes
    are floored to 1e-6, bounds are given to 1e-3), so a spacer grid written
    like this is never within round-off of a plane (where whether it is
    counted is a knife-edge of its own, finding F7 / C14)."""
    return float(np.round(np.floor(x * 1e6) / 1e6 + 5e-7, 7))


def rich_problem(rng, spacer_default=False, small=False):
    """Two assembly types on a 7-position core, every dimensional key of
    the schema present somewhere."""
    L = float(wl.choose(rng, [0.6, 0.8, 1.0, 1.25]))
    inlet = _r(rng.uniform(560.0, 700.0), 2)
    gap = wl.choose(rng, ['flow', 'no_flow', 'duct_average', 'none'])
    P = gen.base_problem(length=L, asm_pitch=0.12, inlet=inlet,
                         gap_model=gap,
                         bypass_fraction=(0.0 if gap == 'none' else
                                          _r(rng.uniform(0.005, 0.05), 4)))
    P['materials']['fuel_a'] = {'thermal_conductivity': [18.0]}
    P['materials']['fuel_b'] = {'thermal_conductivity': [22.0, 0.001]}
    feats = {'gap': gap}
    # --- type 'fuel': one duct, axial regions, spacer grid, FuelModel
    wire = bool(rng.random() < 0.5)
    # the default grid solidity 0.6957 - 162.8 (P - D)[m] must lie in (0, 1)
    t = gen.make_type(rng, 3 if spacer_default else int(rng.integers(2, 4)),
                      0.1175, n_duct=1,
                      pd=(1.05 + 0.03 * rng.random() if spacer_default
                          else None),
                      wire=wire, duct_material='steel_const',
                      corr=(('MIT', 'CTD', 'CTD') if wire else
                            ('KC-BARE', 'CTD', 'CTD')))
    P['types']['fuel'] = t
    wl.add_axial_regions(rng, P, 'fuel', n_lower=int(rng.integers(1, 3)),
                         n_upper=int(rng.integers(0, 2)))
    for rn, r in t.get('AxialRegion', {}).items():
        r['hydraulic_diameter'] = _r(rng.uniform(0.002, 0.02), 5)
        r['epsilon'] = _r(rng.uniform(1e-6, 5e-5), 8)
    rods_lo, rods_hi = rods_bounds(t, L)
    ng = int(rng.integers(1, 4))
    mg = min(0.01, 0.25 * (rods_hi - rods_lo))
    zg = sorted(set(_offplane(rng.uniform(rods_lo + mg, rods_hi - mg))
                    for _ in range(ng)))
    sg = {'axial_positions': zg}
    if spacer_default:
        sg['corr'] = wl.choose(rng, ['REH', 'CDD'])
        feats['spacer'] = 'corr_default_solidity'
    else:
        mode = wl.choose(rng, ['loss', 'corr'])
        if mode == 'loss':
            sg['loss_coeff'] = _r(rng.uniform(0.5, 2.0), 3)
        else:
            sg['corr'] = wl.choose(rng, ['REH', 'CDD'])
            sg['solidity'] = _r(rng.uniform(0.15, 0.5), 3)
        feats['spacer'] = mode
    t['SpacerGrid'] = sg
    fm = {'clad_material': 'steel_const', 'gap_material': 'na_const',
          'r_frac': [0.0, 0.5], 'pu_frac': [0.2, 0.2],
          'zr_frac': [0.1, 0.1], 'porosity': [0.1, 0.2]}
    gk = wl.choose(rng, ['gap_thickness', 'fcgap_thickness'])
    fm[gk] = _r(rng.uniform(2e-5, 2e-4), 7)
    t['FuelModel'] = fm
    feats['fuel_gap_key'] = gk
    # --- type 'ctrl': two ducts, PinModel
    t2 = gen.make_type(rng, int(rng.integers(2, 4)), 0.1175, n_duct=2,
                       wire=True, duct_material='steel_const',
                       corr=('MIT', 'NOV', 'NOV'),
                       byp_ff=_r(rng.uniform(0.02, 0.15), 3))
    pm = {'clad_material': 'steel_const', 'gap_material': 'na_const',
          'r_frac': [0.0, 0.6], 'pin_material': ['fuel_a', 'fuel_b']}
    gk2 = wl.choose(rng, ['gap_thickness', 'fcgap_thickness'])
    pm[gk2] = _r(rng.uniform(2e-5, 2e-4), 7)
    t2['PinModel'] = pm
    feats['pin_gap_key'] = gk2
    P['types']['ctrl'] = t2
    if rng.random() < 0.5:
        wl.add_axial_regions(rng, P, 'ctrl', n_lower=1, n_upper=0)
        for rn, r in t2.get('AxialRegion', {}).items():
            r['hydraulic_diameter'] = _r(rng.uniform(0.002, 0.02), 5)
            r['epsilon'] = _r(rng.uniform(1e-6, 5e-5), 8)
    # --- power + positions with all three kinds of boundary condition
    wl.random_power(rng, P, max_cells=3, max_order=2)
    bcs = ['flowrate', 'outlet_temp', 'delta_temp']
    npos = 1 if small else 7
    # in half of the problems runs of neighbouring positions share one
    # Assignment line (same type, same boundary condition)
    shared = (not small) and rng.random() < 0.5
    feats['shared_lines'] = bool(shared)
    P['merge_lines'] = bool(shared)
    for k0 in range(npos):
        ring, pos = gen.ring_pos(k0)
        tn = 'fuel' if k0 in (0, 1, 3, 5) else 'ctrl'
        if shared:
            tn = 'fuel' if k0 in (0, 1, 2, 3) else 'ctrl'
        rise = _r(rng.uniform(40.0, 140.0), 2)
        gen.add_position(P, tn, ring, pos,
                         velocity=wl.loguniform(rng, 0.5, 5.0), dT=rise,
                         shape=wl.choose(rng, ['rand', 'flat']))
        a = P['positions'][-1]
        bc = bcs[k0 % 3] if k0 < 3 else wl.choose(rng, bcs)
        if bc == 'outlet_temp':
            a['flowrate'] = None
            a['outlet_temp'] = _r(inlet + rise, 2)
        elif bc == 'delta_temp':
            a['flowrate'] = None
            a['delta_temp'] = rise
        if shared and k0 in (2, 3, 5, 6):
            b = P['positions'][-2]
            for kk in ('flowrate', 'outlet_temp', 'delta_temp'):
                a[kk] = b.get(kk)
    # --- setup
    st = P['setup']
    st['axial_mesh_size'] = float(wl.choose(rng, [0.002, 0.0025, 0.004,
                                                  0.005, 0.0073, 0.01]))
    pl = [_r(rng.uniform(0.05, 0.95) * L, 3) for _ in range(
        int(rng.integers(1, 4)))]
    if rng.random() < 0.3:
        pl.append(pl[0])
    st['axial_plane'] = pl
    st['conv_approx'] = True
    st['conv_approx_dz_cutoff'] = float(wl.choose(rng, [0.001, 0.0005,
                                                        0.002]))
    P['setup_sub']['Dump'] = {'coolant': True,
                              'interval': float(wl.choose(
                                  rng, [0.01, 0.025, 0.05, 0.1, 0.0]))}
    P['setup_sub']['AssemblyTables'] = {
        'tab1': {'type': 'coolant_subchannel',
                 'assemblies': [1] if small else [1, 3],
                 'axial_positions': [_r(rng.uniform(0.1, 0.9) * L, 3)
                                     for _ in range(2)]},
        'tab2': {'type': 'duct_mw', 'assemblies': [1],
                 'axial_positions': [_r(0.5 * L, 3)]}}
    P['orificing'] = {'assemblies_to_group': ['fuel'], 'n_groups': 2,
                      'value_to_optimize': 'peak coolant temp',
                      'bulk_coolant_temp': _r(inlet + rng.uniform(80, 160),
                                              2),
                      'pressure_drop_limit': 1.0}
    return P, feats


def rods_bounds(t, L):
    """Pin-bundle interval left between the unrodded stacks (SI)."""
    regs = t.get('AxialRegion', {})
    lo = max([r['z_hi'] for r in regs.values() if _is_lower(r, regs)]
             + [0.0])
    hi = min([r['z_lo'] for r in regs.values() if not _is_lower(r, regs)]
             + [L])
    return lo, hi


def mini_problem(rise=None, outlet=None, nr=2, pd=1.2):
    """Smallest complete SI input: one small assembly, flat power."""
    rng = np.random.default_rng(12345)
    P = gen.base_problem(length=0.5, asm_pitch=0.12, inlet=623.15)
    P['types']['a'] = gen.make_type(rng, nr, 0.1175, pd=pd, wall=0.003,
                                    slack=0.1, hd=20.0,
                                    duct_material='steel_const')
    gen.add_position(P, 'a', 1, 1, velocity=2.0, dT=80.0, shape='flat')
    a = P['positions'][0]
    if rise is not None:
        a['flowrate'] = None
        a['delta_temp'] = rise
    if outlet is not None:
        a['flowrate'] = None
        a['outlet_temp'] = outlet
    return P


# ----------------------------------------------------------------------
# running the real parser


def dassh_pound():
    """DASSH's own pound (kg); exact pound if it cannot be measured."""
    try:
        import dassh.utils as du
        v = float(du._pounds_to_kilograms(1.0))
        if abs(v / U.MASS['lb'] - 1.0) < 1e-3:
            return v
    except Exception:
        pass
    return U.MASS['lb']


def plain(d):
    """ConfigObj sections -> plain containers (deep copy)."""
    if isinstance(d, dict):
        return {k: plain(v) for k, v in d.items()}
    if isinstance(d, (list, tuple)):
        return [plain(v) for v in d]
    if isinstance(d, np.generic):
        return d.item()
    return copy.copy(d)


def parse(P, u, d, fname):
    """Render P in unit system u (None = as is) and run the real parser.
    -> (data | None, outcome dict)."""
    Q = U.convert_problem(P, u) if u is not None else P
    path = gen.render(Q, d, name=fname)
    try:
        inp = drive.read_input(path)
    except drive.Rejected as e:
        return None, {'outcome': 'rejected', 'msg': str(e)[:300]}, None
    except Exception as e:   # the property is about these
        tb = traceback.extract_tb(e.__traceback__)
        site = [f.name for f in tb if f.filename.endswith('read_input.py')]
        return None, {'outcome': 'exception', 'type': type(e).__name__,
                      'msg': str(e)[:200],
                      'site': site[-1] if site else '?'}, None
    data = plain(inp.data)
    # the Material objects the parser creates are part of the internal data
    # every model is built from: their state (temperature they were put at,
    # property values) belongs to "the same internal SI data"
    ms = {}
    for nm, o in (getattr(inp, 'materials', None) or {}).items():
        e = {}
        for a in ('temperature', 'thermal_conductivity', 'density',
                  'viscosity', 'heat_capacity'):
            try:
                v = getattr(o, a)
            except Exception:     # noqa: property not defined for it
                continue
            if isinstance(v, (int, float, np.floating)):
                e[a] = float(v)
        ms[str(nm)] = e
    data['MaterialState'] = ms
    return data, {'outcome': 'ok'}, inp


def check_parsed_ok(res, u, oc, extra=None):
    """P1: a supported unit system must be accepted by the parser."""
    key = None
    if oc['outcome'] == 'exception':
        if 'convert unit to itself' in oc['msg']:
            unit = u.flow_name if oc['site'] == 'convert_mass_flow_rate' \
                else (u.length if oc['site'] == 'check_spacergrid'
                      else u.name)
            key = {'mech': 'unit_to_itself', 'unit': unit,
                   'site': oc['site']}
        else:
            key = {'mech': 'exception', 'type': oc['type'],
                   'site': oc['site']}
    elif oc['outcome'] == 'rejected':
        key = {'mech': 'rejected', 'units': u.name}
    if extra and key:
        key.update(extra)
    # later stages (rejected_setup, exception_sweep, ...) are judged by R0
    parsed = oc['outcome'] not in ('exception', 'rejected')
    res.check('P1_supported_units_accepted', parsed,
              'input in units (%s; written %r) not accepted: %s'
              % (u.name, u.block(), oc.get('msg')), key,
              {'units': u.as_json(), 'outcome': oc})
    return parsed


def _rel(a, b):
    s = max(abs(a), abs(b))
    return 0.0 if s == 0.0 else abs(a - b) / s


def check_dimensional(res, P, u, data, bad):
    """K1: every dimensional entry written in units u is stored as its SI
    value: converted, and exactly once. `bad` collects canonical names of
    keys that came out wrong."""
    n = 0
    for name, kind, where, si in U.dimensional_items(P):
        try:
            got = U.locate(data, where)
        except (KeyError, IndexError, TypeError):
            res.check('K1_dimensional_key_converted_once', False,
                      'entry %s missing from parsed data' % (where,),
                      {'mech': 'missing', 'key': name}, {'units': u.name})
            bad.add(name)
            continue
        if kind == 'L*':        # order-free list
            exp = sorted(set(si))
            g = sorted(got) if isinstance(got, list) else got
            ok = isinstance(g, list) and len(g) == len(exp) and all(
                _rel(x, y) <= TOL for x, y in zip(g, exp))
            mech = 'mismatch'
            if not ok and isinstance(g, list) and len(g) == len(exp):
                mech = U.diagnose('L', u, exp[-1], g[-1])
            n += len(exp)
            res.check('K1_dimensional_key_converted_once', ok,
                      '%s: expected set %r m, parsed %r (units %s)'
                      % (name, exp, got, u.name),
                      {'mech': mech, 'key': name},
                      {'units': u.name, 'expected': exp, 'got': got})
            if not ok:
                bad.add(name)
            else:
                res.tag('key_ok:' + name)
            continue
        if kind == 'L[]':
            exp = list(si)
            ok = isinstance(got, list) and len(got) == len(exp) and all(
                _rel(x, y) <= TOL for x, y in zip(got, exp))
            mech = 'mismatch'
            if not ok and isinstance(got, list) and len(got) == len(exp):
                j = int(np.argmax([_rel(x, y) for x, y in zip(got, exp)]))
                mech = U.diagnose('L', u, exp[j], got[j])
            n += len(exp)
            res.check('K1_dimensional_key_converted_once', ok,
                      '%s: expected %r m, parsed %r (units %s)'
                      % (name, exp, got, u.name),
                      {'mech': mech, 'key': name},
                      {'units': u.name, 'expected': exp, 'got': got})
            if not ok:
                bad.add(name)
            else:
                res.tag('key_ok:' + name)
            continue
        exp = si if kind != 'dT' else P['inlet'] + si
        ok = isinstance(got, float) and _rel(got, exp) <= TOL
        mech = 'mismatch'
        if not ok and isinstance(got, (int, float)):
            mech = U.diagnose(kind, u, si, float(got), P['inlet'])
        if isinstance(got, float):
            res.stat('K1_rel', _rel(got, exp))
        n += 1
        res.check('K1_dimensional_key_converted_once', ok,
                  '%s (%s): SI value %r%s, user wrote %r, parser stored %r '
                  '(units %s): %s' % (name, kind, exp,
                                      (' (= inlet %r K + rise %r K)'
                                       % (P['inlet'], si)) if kind == 'dT'
                                      else '',
                                      u.conv(kind, si), got, u.name, mech),
                  {'mech': mech, 'key': name},
                  {'units': u.name, 'expected_si': exp,
                   'written': u.conv(kind, si), 'stored': got})
        if not ok:
            bad.add(name)
        else:
            res.tag('key_ok:' + name)
    return n


def flatten(d, pre=''):
    out = {}
    if isinstance(d, dict):
        for k, v in d.items():
            out.update(flatten(v, pre + '/' + str(k)))
    elif isinstance(d, list):
        if pre.endswith('/axial_plane'):
            d = sorted(d)
        if not d:
            out[pre] = []
        for i, v in enumerate(d):
            out.update(flatten(v, '%s[%d]' % (pre, i)))
    else:
        out[pre] = d
    return out


def canon(path, data):
    """'/Assembly/fuel/AxialRegion/lo0/z_lo' -> 'AxialRegion.z_lo'."""
    p = [x for x in path.split('/') if x]
    p = [x.split('[')[0] for x in p]
    if p[0] == 'Assembly' and len(p) > 2:
        if p[2] == 'AxialRegion':
            nm = 'rods.' if p[3] == 'rods' else ''
            return 'AxialRegion.' + nm + '.'.join(p[4:])
        if p[2] in ('SpacerGrid', 'FuelModel', 'PinModel', 'Hotspot'):
            return '.'.join(p[2:])
        return 'Assembly.' + '.'.join(p[2:])
    if p[0] == 'Setup' and len(p) > 2 and p[1] == 'AssemblyTables':
        return 'Setup.AssemblyTables.' + '.'.join(p[3:])
    if p[0] == 'Materials' and len(p) > 2:
        return 'Materials.' + '.'.join(p[2:])
    if p[0] == 'Assignment':
        return 'Assignment.' + (p[-1] if len(p) > 2 else 'ByPosition')
    return '.'.join(p)


def check_same_data(res, P, u, ref, data, bad, ref_name='SI'):
    """K2: every parsed entry equals the one of the reference parse (SI
    input), whatever the units: covers defaults, derived entries (the pin
    bundle bounds) and non-dimensional keys."""
    fa, fb = flatten(ref), flatten(data)
    n = 0
    # entries already judged against their SI value by K1
    done = ['/' + '/'.join('[%d]' % w if isinstance(w, int) else str(w)
                           for w in it[2]).replace('/[', '[')
            for it in U.dimensional_items(P)]
    for k in sorted(set(fa) | set(fb)):
        if k.startswith('/Setup/Units/'):
            continue
        if any(k == p or k.startswith(p + '[') for p in done):
            continue
        a, b = fa.get(k, '<absent>'), fb.get(k, '<absent>')
        if k == '/Setup/Dump/interval' and P.get('setup_sub', {}).get(
                'Dump', {}).get('interval') is None:
            # a default, not a converted key: observation only
            res.tag('obs_dump_interval_default:%s->%r' % (
                'SI' if u.length == 'm' else 'nonSI', b))
            if a != b:
                res.count('obs_dump_interval_default_differs')
            continue
        n += 1
        if isinstance(a, float) and isinstance(b, float):
            ok = _rel(a, b) <= TOL
        else:
            ok = (a == b) and (type(a) is type(b) or
                               isinstance(a, (int, float)))
        name = canon(k, data)
        res.check('K2_other_data_unit_independent', ok,
                  'parsed %s = %r with units (%s) but %r with %s input'
                  % (k, b, u.name, a, ref_name),
                  {'mech': 'differs', 'key': name},
                  {'units': u.name, 'path': k, 'ref': a, 'got': b})
        if not ok:
            bad.add(name)
    return n


def units_for(case_seed, n, lb, always=()):
    """n distinct unit systems (sample of the 90), deterministic."""
    combos = U.all_combos()
    rng = np.random.default_rng(list(case_seed) + [17])
    idx = list(rng.permutation(len(combos)))
    out = [c for c in always]
    for i in idx:
        if len(out) >= n:
            break
        if combos[i] not in out and combos[i] != ('m', 'K', 'kg', 's'):
            out.append(combos[i])
    return [U.Units(*c, lb=lb) for c in out[:n]]


# ----------------------------------------------------------------------
# case kinds


def run_parse(case, res):
    rng = np.random.default_rng(case['seed'])
    P, feats = rich_problem(rng, spacer_default=bool(case.get('spacer')))
    lb = dassh_pound()
    n_cmp = 0
    n_sys = 0
    with drive.scratch() as d:
        ref, oc, _ = parse(P, None, d, 'si.txt')
        si = U.Units(lb=lb)
        ref_name = 'SI'
        if not check_parsed_ok(res, si, oc):
            ref = None
        else:
            check_dimensional(res, P, si, ref, set())
        for c in U.all_combos():
            u = U.Units(*c, lb=lb)
            data, oc, _ = parse(P, u, d, 'v.txt')
            res.tag('len=' + u.length)
            res.tag('temp=' + u.temp)
            res.tag('flow=' + u.flow_name)
            if not check_parsed_ok(res, u, oc):
                continue
            bad = set()
            n = check_dimensional(res, P, u, data, bad)
            if ref is None:
                ref, ref_name = data, u.name
                res.tag('reference_not_SI')
            n += check_same_data(res, P, u, ref, data, bad, ref_name)
            n_cmp += n
            if c != ('m', 'K', 'kg', 's'):
                n_sys += 1
    res.stat('entries_compared_per_case', n_cmp)
    res.tag('spacer=' + str(feats.get('spacer')))
    res.tag('gapkeys=%s/%s' % (feats['fuel_gap_key'], feats['pin_gap_key']))
    if n_sys >= 2 and n_cmp >= 20:
        res.nontrivial('parse/' + repr(sorted(feats.items())))
    res.sample({'case': case, 'features': feats,
                'unit_systems_parsed': n_sys})


def run_spell(case, res):
    """Every spelling of every unit (lower, upper, capitalised), one unit
    family at a time; flow-rate spellings with '/' and 'per'."""
    rng = np.random.default_rng(case['seed'])
    P, feats = rich_problem(rng, small=True)
    lb = dassh_pound()
    variants = []
    forms = (str.lower, str.upper, str.capitalize)
    for l, sp in U.LENGTH_SPELL.items():
        for s in sp:
            for f in forms:
                variants.append(U.Units(length=l, lb=lb,
                                        spell={'length': f(s)}))
    for t, sp in U.TEMP_SPELL.items():
        for s in sp:
            for f in forms:
                variants.append(U.Units(temp=t, lb=lb, spell={'temp': f(s)}))
    for m, msp in U.MASS_SPELL.items():
        for ms in msp:
            for t, tsp in U.TIME_SPELL.items():
                for ts in tsp:
                    for sep in ('/', 'per'):
                        variants.append(U.Units(
                            mass=m, time=t, lb=lb,
                            spell={'mass': ms, 'time': ts, 'sep': sep}))
    # upper-case flow spellings
    for m, t in (('kg', 's'), ('lb', 'hr'), ('lb', 'min')):
        variants.append(U.Units(mass=m, time=t, lb=lb,
                                spell={'mass': m.upper(), 'time': t.upper()}))
    n_ok = 0
    with drive.scratch() as d:
        ref, oc, _ = parse(P, None, d, 'si.txt')
        if oc['outcome'] != 'ok':
            res.status('rejected', 'SI reference not parsed: %r' % (oc,))
            return
        for u in variants:
            data, oc, _ = parse(P, u, d, 'v.txt')
            res.tag('spelled')
            if not check_parsed_ok(res, u, oc):
                continue
            bad = set()
            check_dimensional(res, P, u, data, bad)
            check_same_data(res, P, u, ref, data, bad)
            n_ok += 1
        # spellings with blanks ("kg / s", "kg per s"): convert_units is
        # written to accept them; whether check_units does is observed only
        for sp in ('kg / s', 'lb per hr'):
            u = U.Units(mass=sp.split(' ')[0], time=sp.split(' ')[-1], lb=lb)
            Q = U.convert_problem(P, u)
            Q['units']['mass_flow_rate'] = sp
            path = gen.render(Q, d, name='b.txt')
            try:
                drive.read_input(path)
                res.tag('obs_blank_spelling_accepted')
            except drive.Rejected:
                res.tag('obs_blank_spelling_rejected')
            except Exception:
                res.tag('obs_blank_spelling_exception')
    res.stat('spellings_parsed', n_ok)
    if n_ok >= 2:
        res.nontrivial('spell')
    res.sample({'case': case, 'spellings': len(variants), 'parsed': n_ok})


def _setup_results(r):
    return {'z': np.array(r.z, dtype=float), 'dz': np.array(r.dz, float),
            'flow': np.array([a.flow_rate for a in r.assemblies]),
            'regions': [list(a.region_bnd) for a in r.assemblies],
            # the real region selector, asked at every mesh plane
            'active': [[int(a._identify_active_region(z)) for z in r.z]
                       for a in r.assemblies],
            'partial': True}


def _sweep_results(r):
    out = {'z': np.array(r.z, dtype=float), 'dz': np.array(r.dz, float),
           'flow': np.array([a.flow_rate for a in r.assemblies]),
           'tout': np.array([a.avg_coolant_temp for a in r.assemblies]),
           'dp': np.array([a.pressure_drop for a in r.assemblies]),
           'tcool': [np.array(a.temp_coolant, dtype=float).ravel()
                     for a in r.assemblies],
           'tduct': [np.array(a.duct_outer_surf_temp, dtype=float).ravel()
                     for a in r.assemblies],
           'tgap': np.array(r.core.coolant_gap_temp, dtype=float).ravel(),
           'regions': [list(a.region_bnd) for a in r.assemblies],
           # the real region selector, asked at every mesh plane
           'active': [[int(a._identify_active_region(z)) for z in r.z]
                      for a in r.assemblies]}
    return out


def _full(X):
    return X is not None and not X.get('partial')


def _run_reactor(P, u, d, fname):
    data, oc, inp = parse(P, u, d, fname)
    if inp is None:
        return data, oc, None
    pre = None
    try:
        r = drive.build_reactor(inp)
        if len(r.z) > 3000:
            return data, {'outcome': 'too_long', 'msg': '%d steps'
                          % len(r.z)}, None
        pre = _setup_results(r)
        drive.sweep(r)
    except drive.Rejected as e:
        return data, {'outcome': 'rejected_' + e.stage,
                      'msg': str(e)[:300]}, pre
    except Exception as e:
        if u is None:       # SI run: not a matter of units, harness error
            raise
        return data, {'outcome': 'exception_' + ('sweep' if pre else 'setup'),
                      'msg': '%s: %s' % (type(e).__name__, str(e)[:200])}, pre
    return data, oc, _sweep_results(r)


def check_region_planes(res, u, A, B, bad):
    """R5: the step that ends on a region boundary is computed by the same
    axial region in every unit system. Returns `bad` (+ the mechanism)."""
    same_n = len(A['z']) == len(B['z'])
    if same_n:
        n_bad, first = 0, None
        for i, (x, y) in enumerate(zip(A['active'], B['active'])):
            for j, (p, q) in enumerate(zip(x, y)):
                if p != q:
                    n_bad += 1
                    if first is None:
                        first = (i, j)
        dat = {'units': u.name}
        if first is not None:
            i, j = first
            dat.update({'asm': i, 'plane_z': float(A['z'][j]),
                        'region_si': A['active'][i][j],
                        'region': B['active'][i][j],
                        'region_bnd_si': A['regions'][i],
                        'region_bnd': B['regions'][i]})
        exact = all(_rel(p, q) <= TOL for x, y in zip(A['regions'],
                                                      B['regions'])
                    for p, q in zip(x, y))
        res.check('R5_region_active_per_plane', n_bad == 0,
                  'in units (%s) %d mesh plane(s) are assigned to another '
                  'axial region than with SI input (first: %r)'
                  % (u.name, n_bad, dat),
                  {'mech': ('region_bound_roundoff' if exact
                            else 'region_bounds_differ')}, dat)
        if n_bad:
            bad = set(bad) | {'Assembly.region_switch_roundoff'}
    return bad


def compare_results(res, u, A, B, bad, inlet):
    """R1..R5: SI run A vs run B of the same problem in units u."""
    same_n = len(A['z']) == len(B['z'])
    bad = check_region_planes(res, u, A, B, bad)
    of = sorted(bad)
    key = {'mech': 'consequence', 'of': of} if of else {'mech': 'reactor'}
    dzmax = float(np.max(np.abs(A['z'] - B['z']))) if same_n else float('inf')
    res.check('R1_mesh', same_n and dzmax <= 2e-12,
              'axial mesh differs from the SI run in units (%s): %d vs %d '
              'planes, max |dz| %.3e' % (u.name, len(A['z']), len(B['z']),
                                         dzmax), key,
              {'units': u.name, 'n_si': len(A['z']), 'n': len(B['z'])})
    if same_n:
        res.stat('R1_max_abs_dz_m', dzmax)
    res.close('R4_flow_rates', float(np.max(np.abs(A['flow'] - B['flow']))),
              float(np.max(np.abs(A['flow']))), 1e-10,
              'assembly flow rates differ from the SI run in units (%s)'
              % u.name, key, {'units': u.name, 'si': A['flow'],
                              'got': B['flow']})
    rise = max(float(np.max(A['tout'])) - inlet, 1.0)
    worst = float(np.max(np.abs(A['tout'] - B['tout'])))
    if same_n:
        for k in ('tcool', 'tduct'):
            for x, y in zip(A[k], B[k]):
                if x.shape == y.shape and x.size:
                    worst = max(worst, float(np.max(np.abs(x - y))))
        if A['tgap'].shape == B['tgap'].shape and A['tgap'].size:
            worst = max(worst, float(np.max(np.abs(A['tgap'] - B['tgap']))))
    res.close('R2_temperatures', worst, rise, 1e-9,
              'outlet / coolant / duct / gap temperatures differ from the SI '
              'run in units (%s): max %.3e K' % (u.name, worst), key,
              {'units': u.name, 'tout_si': A['tout'], 'tout': B['tout']})
    res.stat('R2_max_abs_dT_K', worst)
    dps = float(np.max(np.abs(A['dp'])))
    res.close('R3_pressure_drop', float(np.max(np.abs(A['dp'] - B['dp']))),
              dps if dps > 0 else 1.0, 1e-9,
              'assembly pressure drops differ from the SI run in units (%s)'
              % u.name, key, {'units': u.name, 'dp_si': A['dp'],
                              'dp': B['dp']})


def judge_run(res, u, A, oc, B, bad, inlet, what=None):
    """R0 + R1..R5 for one unit system: the SI run A was set up and swept;
    the same problem in units u must be too, with the same results."""
    if _full(B):
        res.check('R0_same_outcome', True, '')
        compare_results(res, u, A, B, bad, inlet)
        return True
    if B is not None:
        bad = check_region_planes(res, u, A, B, bad)
    k0 = {'mech': 'outcome', 'outcome': oc['outcome']}
    if bad:
        k0 = {'mech': 'consequence', 'of': sorted(bad),
              'outcome': oc['outcome']}
    dat = {'units': u.name, 'outcome': oc}
    dat.update(what or {})
    res.check('R0_same_outcome', False,
              'SI input was set up and swept, the same problem in units (%s) '
              'was not: %r %r' % (u.name, oc, what or ''), k0, dat)
    return False


def reactor_problem(case, rng):
    if case.get('core'):
        P, feats = wl.core_problem(rng, n_ring=2, length=0.5, max_rings=3,
                                   tdep=False,
                                   gap=wl.choose(rng, ['flow', 'no_flow',
                                                       'duct_average',
                                                       'none']),
                                   empty_frac=0.2, lf_frac=0.1,
                                   vel_range=(0.3, 5.0))
    else:
        P, feats = wl.single_assembly(rng, max_rings=4,
                                      length=float(wl.choose(rng,
                                                             [0.3, 0.5])),
                                      vel=wl.loguniform(rng, 0.3, 6.0))
    inlet = P['inlet']
    # lazy (thresholded) property updates turn 1e-13 K of conversion
    # round-off into a one-step shift of an update (measured 5e-8 relative):
    # equality to round-off is only expected with the threshold off
    P['setup'].pop('param_update_tol', None)
    feats.pop('ptol', None)
    # decorate with the dimensional keys the shared builders do not set
    for tn, t in P['types'].items():
        for rn, r in t.get('AxialRegion', {}).items():
            if rng.random() < 0.5:
                r['epsilon'] = _r(rng.uniform(1e-6, 5e-5), 8)
                feats['epsilon'] = True
            if 'hydraulic_diameter' not in r and rng.random() < 0.5:
                r['hydraulic_diameter'] = _r(rng.uniform(0.003, 0.02), 5)
        if not t.get('use_low_fidelity_model') and rng.random() < 0.5:
            lo, hi = rods_bounds(t, P['length'])
            if hi - lo > 0.05:
                sg = {'axial_positions': sorted(
                    _offplane(rng.uniform(lo + 0.01, hi - 0.01))
                    for _ in range(int(rng.integers(1, 3))))}
                if rng.random() < 0.5:
                    sg['loss_coeff'] = _r(rng.uniform(0.5, 2.0), 3)
                else:
                    sg['corr'] = wl.choose(rng, ['REH', 'CDD'])
                    sg['solidity'] = _r(rng.uniform(0.15, 0.5), 3)
                t['SpacerGrid'] = sg
                feats['spacer'] = True
    for a in P['positions']:
        x = rng.random()
        k0 = gen.pos_index0(a['ring'], a['pos'])
        spec = P['power']['asm'][str(k0)]
        if spec.get('shape') == 'zero' or spec['total'] <= 0:
            continue
        rise = spec['total'] / (a['flowrate'] * gen.CP)
        if x < 0.25:
            a['outlet_temp'] = _r(inlet + rise, 3)
            a['flowrate'] = None
            feats['bc_outlet'] = True
        elif x < 0.5:
            a['delta_temp'] = _r(rise, 3)
            a['flowrate'] = None
            feats['bc_delta'] = True
    if case.get('core') and rng.random() < 0.5:
        # neighbours of one type on a ring share the first one's boundary
        # condition and are written as one Assignment line
        P['merge_lines'] = True
        prev = None
        for a in P['positions']:
            if prev is not None and a['type'] == prev['type'] and \
                    a['ring'] == prev['ring'] and a['pos'] == prev['pos'] + 1:
                k0 = gen.pos_index0(a['ring'], a['pos'])
                sp = P['power']['asm'][str(k0)]
                if not (prev.get('flowrate') is None and
                        (sp.get('shape') == 'zero' or sp['total'] <= 0)):
                    for kk in ('flowrate', 'outlet_temp', 'delta_temp'):
                        a[kk] = prev.get(kk)
                    feats['shared_lines'] = True
            prev = a
    if rng.random() < 0.6:
        P['setup']['axial_mesh_size'] = float(wl.choose(
            rng, [0.001, 0.002, 0.0025, 0.004, 0.005, 0.01]))
        feats['mesh'] = P['setup']['axial_mesh_size']
    if rng.random() < 0.6:
        P['setup']['axial_plane'] = [_r(rng.uniform(0.05, 0.95)
                                        * P['length'], 3)
                                     for _ in range(int(rng.integers(1, 4)))]
        feats['planes'] = len(P['setup']['axial_plane'])
    if P['setup'].get('conv_approx') and \
            P['setup'].get('conv_approx_dz_cutoff') is None and \
            rng.random() < 0.5:
        P['setup']['conv_approx_dz_cutoff'] = 0.002
    return P, feats


def _is_lower(r, regs):
    """Region belongs to the contiguous stack starting at z = 0."""
    z = 0.0
    los = sorted(regs.values(), key=lambda q: q['z_lo'])
    for q in los:
        if q['z_lo'] == z:
            if q is r:
                return True
            z = q['z_hi']
    return False


def run_reactor(case, res):
    rng = np.random.default_rng(case['seed'])
    P, feats = reactor_problem(case, rng)
    lb = dassh_pound()
    inlet = P['inlet']
    # make sure the working flow units and a kg/s variant are always there
    always = []
    r2 = np.random.default_rng(list(case['seed']) + [5])
    ls = list(U.LENGTH)
    always.append((ls[1 + int(r2.integers(4))], U.TEMPS[1 + int(
        r2.integers(2))], 'kg', 's'))
    always.append((ls[1 + int(r2.integers(4))], U.TEMPS[int(
        r2.integers(3))], 'lb', ['min', 'hr'][int(r2.integers(2))]))
    us = units_for(case['seed'], case['n_units'], lb, always)
    n_ok = 0
    with drive.scratch() as d:
        ref, oc, A = _run_reactor(P, None, d, 'si.txt')
        if not _full(A):
            res.status('rejected', 'SI run: %r' % (oc,))
            res.tag('rejected:' + oc['outcome'])
            if oc['outcome'] == 'exception':
                check_parsed_ok(res, U.Units(lb=lb), oc)
            return
        steps = len(A['z']) - 1
        rise = float(np.max(A['tout'])) - inlet
        for u in us:
            res.tag('len=' + u.length)
            res.tag('temp=' + u.temp)
            res.tag('flow=' + u.flow_name)
            data, oc, B = _run_reactor(P, u, d, 'v.txt')
            if oc['outcome'] in ('exception', 'rejected'):
                check_parsed_ok(res, u, oc)
                continue
            check_parsed_ok(res, u, {'outcome': 'ok'})
            bad = set()
            check_dimensional(res, P, u, data, bad)
            check_same_data(res, P, u, ref, data, bad)
            if judge_run(res, u, A, oc, B, bad, inlet):
                n_ok += 1
    res.stat('sweep_steps', steps)
    res.stat('coolant_rise_K', rise)
    for k in ('epsilon', 'spacer', 'bc_outlet', 'bc_delta', 'mesh', 'planes'):
        if feats.get(k):
            res.tag('feat:' + k)
    for k in ('gap', 'tdep', 'lf', 'conv_approx'):
        if k in feats:
            res.tag('%s=%s' % (k, feats[k]))
    if feats.get('regions'):
        res.tag('feat:axial_regions')
    if n_ok >= 1 and steps >= 10 and rise > 1.0:
        res.nontrivial('reactor/' + repr(sorted(feats.items(), key=str)))
    res.sample({'case': case, 'features': feats, 'steps': steps,
                'units_compared': n_ok})


def run_witness(case, res):
    """Minimal inputs for the mechanisms recorded as F12 in DESIGN.md."""
    lb = dassh_pound()
    what = case['what']
    with drive.scratch() as d:
        if what == 'flow_units':
            P = mini_problem()
            ref, oc, A = _run_reactor(P, None, d, 'si.txt')
            for m in U.MASS:
                for t in U.TIME:
                    u = U.Units(mass=m, time=t, lb=lb)
                    data, oc, B = _run_reactor(P, u, d, 'v.txt')
                    res.tag('flow=' + u.flow_name)
                    if not check_parsed_ok(res, u, oc):
                        continue
                    bad = set()
                    check_dimensional(res, P, u, data, bad)
                    check_same_data(res, P, u, ref, data, bad)
                    if _full(A):
                        judge_run(res, u, A, oc, B, bad, P['inlet'])
            res.nontrivial('witness/flow_units')
        elif what == 'spacer_default_solidity':
            P = mini_problem(nr=3, pd=1.06)
            t = P['types']['a']
            t['wire_diameter'] = 0.0
            t['wire_pitch'] = 0.0
            t['corr_mixing'] = 'KC-BARE'
            t['SpacerGrid'] = {'corr': 'REH',
                               'axial_positions': [0.1234567, 0.3456789]}
            outs = {}
            for l in U.LENGTH:
                u = U.Units(length=l, lb=lb)
                data, oc, B = _run_reactor(P, u if l != 'm' else None, d,
                                           'v.txt')
                res.tag('len=' + l)
                if check_parsed_ok(res, u, oc):
                    bad = set()
                    check_dimensional(res, P, u, data, bad)
                    outs[l] = (data, B, bad)
            ks = list(outs)
            for l in ks[1:]:
                u = U.Units(length=l, lb=lb)
                check_same_data(res, P, u, outs[ks[0]][0], outs[l][0],
                                outs[l][2], ks[0])
                if _full(outs[ks[0]][1]) and _full(outs[l][1]):
                    compare_results(res, u, outs[ks[0]][1], outs[l][1],
                                    outs[l][2], P['inlet'])
            res.nontrivial('witness/spacer')
        elif what == 'epsilon':
            P = mini_problem()
            P['types']['a']['AxialRegion'] = {
                'lower': {'z_lo': 0.0, 'z_hi': 0.2, 'vf_coolant': 0.3,
                          'hydraulic_diameter': 0.004, 'epsilon': 2e-5}}
            ref, oc, A = _run_reactor(P, None, d, 'si.txt')
            for l in ('cm', 'mm', 'in', 'ft'):
                u = U.Units(length=l, lb=lb)
                data, oc, B = _run_reactor(P, u, d, 'v.txt')
                res.tag('len=' + l)
                if not check_parsed_ok(res, u, oc):
                    continue
                bad = set()
                check_dimensional(res, P, u, data, bad)
                check_same_data(res, P, u, ref, data, bad)
                if _full(A) and judge_run(res, u, A, oc, B, bad,
                                          P['inlet']):
                    res.stat('witness_epsilon_dp_ratio_' + l,
                             float(B['dp'][0] / A['dp'][0]))
            res.nontrivial('witness/epsilon')
        elif what == 'dump_default':
            P = mini_problem()
            P['setup_sub']['Dump'] = {'coolant': True}
            ref, oc, _ = parse(P, None, d, 'si.txt')
            for c in (('cm', 'K', 'kg', 's'), ('m', 'C', 'kg', 's'),
                      ('in', 'F', 'lb', 'hr')):
                u = U.Units(*c, lb=lb)
                data, oc, _ = parse(P, u, d, 'v.txt')
                if check_parsed_ok(res, u, oc):
                    bad = set()
                    check_dimensional(res, P, u, data, bad)
                    check_same_data(res, P, u, ref, data, bad)
                    res.tag('obs_dump_interval[%s]=%r (SI input: %r)' % (
                        c[0], data['Setup']['Dump']['interval'],
                        ref['Setup']['Dump']['interval']))
            res.nontrivial('witness/dump')
        elif what == 'region_bounds':
            # region bounds written to 3 decimals (m) / 1 decimal (cm), the
            # way a user writes them, below and above the pin bundle
            for zb in (0.082, 0.171, 0.219, 0.35):
                for side in ('lower', 'upper', 'upper6'):
                    P = mini_problem()
                    reg = {'vf_coolant': 0.3, 'hydraulic_diameter': 0.004}
                    if side == 'upper6':
                        reg['model'] = '6node'
                    reg.update({'z_lo': 0.0, 'z_hi': zb} if side == 'lower'
                               else {'z_lo': zb, 'z_hi': 0.5})
                    P['types']['a']['AxialRegion'] = {side: reg}
                    ref, oc, A = _run_reactor(P, None, d, 'si.txt')
                    if not _full(A):
                        continue
                    for l in ('cm', 'mm', 'in', 'ft'):
                        u = U.Units(length=l, lb=lb)
                        data, oc, B = _run_reactor(P, u, d, 'v.txt')
                        res.tag('len=' + l)
                        if not check_parsed_ok(res, u, oc):
                            continue
                        bad = set()
                        check_dimensional(res, P, u, data, bad)
                        check_same_data(res, P, u, ref, data, bad)
                        judge_run(res, u, A, oc, B, bad, P['inlet'],
                                  {'bound_m': zb, 'side': side,
                                   'written': u.L(zb)})
            res.nontrivial('witness/region_bounds')
        elif what == 'delta_temp':
            # a rise must be scaled, not shifted: 90 K = 90 C = 162 F
            for bc in ('delta', 'outlet'):
                P = mini_problem(rise=90.0) if bc == 'delta' else \
                    mini_problem(outlet=623.15 + 90.0)
                ref, oc, A = _run_reactor(P, None, d, 'si.txt')
                for t in ('C', 'F'):
                    u = U.Units(temp=t, lb=lb)
                    data, oc, B = _run_reactor(P, u, d, 'v.txt')
                    res.tag('temp=' + t)
                    if not check_parsed_ok(res, u, oc):
                        continue
                    bad = set()
                    check_dimensional(res, P, u, data, bad)
                    check_same_data(res, P, u, ref, data, bad)
                    if _full(A):
                        judge_run(res, u, A, oc, B, bad, P['inlet'])
            res.nontrivial('witness/delta_temp')
    res.sample({'case': case})


def run_scalars(case, res):
    """S1: every scalar converter against the exact unit definitions;
    S2: value -> unit -> back; S3: the output converters of dassh.table are
    the inverse of what the parser applied."""
    import dassh.utils as du
    import dassh.table as dt
    rng = np.random.default_rng(case['seed'])
    n = int(case['n'])
    # schema completeness of the monitor's own table
    miss = U.unclassified(TEMPLATE)
    if miss:
        res.status('error', 'input_template.txt keys not classified by the '
                   'C17 table (update vmon/oracle/c17_units.py): %r' % miss)
        return
    res.count('schema_leaves_classified',
              len(U.template_leaf_paths(TEMPLATE)))
    lens = np.concatenate([[0.0, 1.0, 1e-6, 12.0, 39.37007874015748],
                           np.exp(rng.uniform(np.log(1e-7), np.log(1e3), n))])
    temps_k = np.concatenate([[273.15, 255.3722222222222, 233.15, 0.0,
                               623.15, 1000.0],
                              rng.uniform(1.0, 2500.0, n)])
    masses = np.concatenate([[0.0, 1.0, 2.2046226218487757],
                             np.exp(rng.uniform(np.log(1e-4), np.log(1e4),
                                                n))])
    times = masses

    def get(fn, a, b):
        try:
            with drive.quiet():
                return fn(a, b)
        except Exception as e:
            return e

    def pair(mon_kind, fn, a, b, exact_fwd, exact_back, xs, tol, absfl=0.0,
             s1='S1_scalar_converter_value'):
        f = get(fn, a, b)
        g = get(fn, b, a)
        for nm, h in (('%s->%s' % (a, b), f), ('%s->%s' % (b, a), g)):
            res.check('S0_converter_available', callable(h),
                      'no converter %s %s: %r' % (mon_kind, nm, h),
                      {'mech': 'no_converter', 'pair': nm})
        if not (callable(f) and callable(g)):
            return
        for x in xs:
            x = float(x)
            y = f(x)
            res.close(s1, y - exact_fwd(x),
                      abs(exact_fwd(x)) + absfl, tol,
                      '%s %s->%s of %r gives %r, exact %r'
                      % (mon_kind, a, b, x, y, exact_fwd(x)),
                      {'mech': 'wrong_factor', 'conv': '%s->%s' % (a, b)})
            xb = g(y)
            res.close('S2_scalar_roundtrip', xb - x, abs(x) + absfl, 1e-12,
                      '%s %r -> %s -> %s gives %r' % (mon_kind, x, b, a, xb),
                      {'mech': 'roundtrip', 'conv': '%s<->%s' % (a, b)})
            yb = g(x)
            res.close(s1, yb - exact_back(x),
                      abs(exact_back(x)) + absfl, tol,
                      '%s %s->%s of %r gives %r, exact %r'
                      % (mon_kind, b, a, x, yb, exact_back(x)),
                      {'mech': 'wrong_factor', 'conv': '%s->%s' % (b, a)})
        res.tag('conv:%s:%s<->%s' % (mon_kind, a, b))

    for l, fac in U.LENGTH.items():
        if l == 'm':
            continue
        for sp in U.LENGTH_SPELL[l]:
            pair('length', du.get_length_conversion, sp, 'm',
                 lambda x, f=fac: x * f, lambda x, f=fac: x / f,
                 lens if sp == l else lens[:8], 1e-14)
    for t in ('C', 'F'):
        for sp in U.TEMP_SPELL[t]:
            pair('temperature', du.get_temperature_conversion, sp, 'K',
                 lambda x, t=t: U.temp_to_K(t, x),
                 lambda x, t=t: U.temp_from_K(t, x),
                 temps_k if sp == U.TEMP_SPELL[t][0] else temps_k[:8],
                 1e-13, absfl=500.0)
    lbx = U.MASS['lb']
    for sp in U.MASS_SPELL['lb']:
        # DASSH's pound is a 6-digit constant: 1e-6 against the exact one
        pair('mass', du.get_mass_conversion, sp, 'kg',
             lambda x: x * lbx, lambda x: x / lbx,
             masses if sp == 'lb' else masses[:8], 1e-6,
             s1='S1_pound_within_1e-6_of_exact')
    res.stat('obs_pound_rel_dev_from_exact',
             abs(dassh_pound() / lbx - 1.0))
    for t in ('min', 'hr'):
        for sp in U.TIME_SPELL[t]:
            pair('time', du.get_time_conversion, sp, 's',
                 lambda x, t=t: x * U.TIME[t], lambda x, t=t: x / U.TIME[t],
                 times if sp == t else times[:8], 1e-14)
    # identity requests: API answer is observed, not asserted
    for fn, a in ((du.get_length_conversion, 'm'),
                  (du.get_temperature_conversion, 'k'),
                  (du.get_mass_conversion, 'kg'),
                  (du.get_time_conversion, 's')):
        h = get(fn, a, a)
        res.tag('obs_identity_conversion_%s:%s' % (
            a, 'callable' if callable(h) else type(h).__name__))
    # S3: output side (dassh.table) inverts the input side for the unit
    # names the parser keeps in data['Setup']['Units']
    tab = dt.DASSH_Table(1)
    lb = dassh_pound()
    for c in U.all_combos():
        u = U.Units(*c, lb=lb)
        try:
            lc = tab._get_len_conv(u.length)
            tc = tab._get_temp_conv(U.TEMP_NORMAL[u.temp])
            fc = tab._get_mfr_conv(u.flow_name)
        except Exception as e:
            res.check('S3_output_converter_inverse', False,
                      'dassh.table cannot build output converters for units '
                      '(%s): %r' % (u.name, e),
                      {'mech': 'table_exception', 'type': type(e).__name__})
            continue
        for x in lens[:6]:
            res.close('S3_output_converter_inverse', lc(float(x)) - u.L(x),
                      abs(u.L(x)), 1e-13, 'table length m->%s' % u.length,
                      {'mech': 'table', 'kind': 'length', 'unit': u.length})
        for x in temps_k[:6]:
            res.close('S3_output_converter_inverse', tc(float(x)) - u.T(x),
                      abs(u.T(x)) + 500.0, 1e-13,
                      'table temperature K->%s' % u.temp,
                      {'mech': 'table', 'kind': 'temp', 'unit': u.temp})
        for x in masses[:6]:
            res.close('S3_output_converter_inverse', fc(float(x)) - u.F(x),
                      abs(u.F(x)), 1e-13,
                      'table flow kg/s->%s' % u.flow_name,
                      {'mech': 'table', 'kind': 'flow',
                       'unit': u.flow_name})
    res.nontrivial('scalars')
    res.sample({'case': case, 'n_values': n})


def run_case(case):
    res = Res(case)
    kind = case['kind']
    try:
        if kind == 'scalars':
            run_scalars(case, res)
        elif kind == 'witness':
            run_witness(case, res)
        elif kind == 'spell':
            run_spell(case, res)
        elif kind == 'parse':
            run_parse(case, res)
        else:
            run_reactor(case, res)
    except drive.Rejected as e:
        res.status('rejected', str(e))
        res.tag('rejected:' + e.stage)
    return res


def classify(v, case):
    k = v.get('key') or {}
    mon = v['monitor']
    if mon == 'P1_supported_units_accepted' and \
            k.get('mech') == 'unit_to_itself':
        if k.get('site') == 'convert_mass_flow_rate' and \
                k.get('unit') in ('kg/min', 'kg/hr', 'lb/s'):
            return 'F12a'
        if k.get('site') == 'check_spacergrid' and k.get('unit') == 'm':
            return 'F12c'
    if mon == 'K1_dimensional_key_converted_once' and \
            k.get('mech') == 'unconverted' and \
            k.get('key') == 'AxialRegion.epsilon':
        return 'F12b'
    if mon == 'R3_pressure_drop' and k.get('mech') == 'consequence' and \
            k.get('of') == ['AxialRegion.epsilon']:
        return 'F12b'
    # converted region bounds differ from the (rounded) mesh plane in the
    # last bit: the step ending on the bound is given to the next region
    if mon == 'R5_region_active_per_plane' and \
            k.get('mech') == 'region_bound_roundoff':
        return 'F12d'
    if mon in ('R0_same_outcome', 'R2_temperatures', 'R3_pressure_drop') \
            and k.get('mech') == 'consequence' and \
            'Assembly.region_switch_roundoff' in (k.get('of') or []) and \
            set(k['of']) <= {'Assembly.region_switch_roundoff',
                             'AxialRegion.epsilon'}:
        return 'F12d'
    return None
