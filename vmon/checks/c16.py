"""C16 - runs are repeatable: setup never mutates the input, serial = parallel."""
import os
import re
import sys
import json
import copy
import shutil
import subprocess
import numpy as np
from vmon import gen, drive, workloads as wl, env
from vmon.harness import Result
from vmon.checks.c06 import snapshot, diff

dassh = env.import_dassh()

PROPERTY = 'C16'
LEVEL = 'exploration'
TECHNIQUE = ('runtime monitoring of histories and schedules: deep snapshots '
             'of DASSH_Input.data around successive real Reactor '
             'constructions / sweeps / postprocessing; bitwise comparison of '
             'fields; the real command-line entry point run in fresh '
             'processes (different PYTHONHASHSEED, serial / parallel with '
             '1-4 workers / one time point at a time) under a sys.audit '
             'open() log, outputs compared byte by byte')
LEVEL_TEXT = ('For generated inputs (pin/fuel models, hot-spot requests, '
              'assembly tables, dumps) the parsed input is byte-identical '
              'after any number of model constructions, repeated '
              'constructions give bitwise identical temperatures, and the '
              'command-line runs produce identical per-time-point outputs '
              'under every schedule tried, each written only inside its own '
              'directory. Held on the histories and schedules observed.')
LEVEL_NOTE = ('Schedules are process-level (multiprocessing.Pool in '
              'dassh.__main__); the audit hook is inherited by forked '
              'workers; dassh.out is compared after masking the timestamp '
              'line; interleavings inside a time point do not exist (no '
              'threads).')
DESIGN_REF = 'DESIGN.md section 3, C16'
RULE = ('random single assemblies / small cores with Fuel/PinModel, Hotspot, '
        'AssemblyTables and Dump requests; histories of 3 constructions from '
        'one input object; command-line runs with 1-4 time points, serial, '
        'parallel n_cpu 2-4, and one at a time, two hash seeds; non-trivial '
        'when a pin model is present (history cases) or >= 2 time points '
        '(schedule cases); distinct by (features, time points, workers)')
RULE += (' Later rounds added: an orificing optimisation between two constructions, spacer grids, user heat-transfer parameter lists with convection factors, a construction with keyword overrides in between.')
DECIDING = ['H1_input_unchanged', 'H2_reconstruction_succeeds',
            'H3_reconstruction_bitwise_equal', 'S1_schedule_outputs_equal',
            'S2_writes_stay_in_own_directory', 'H4_fresh_process_bitwise']
CASE_TIMEOUT = {'quick': 400, 'thorough': 1200}
BUDGET = {'quick': 800, 'thorough': 3300}
ASSUMPTIONS = ['process-level schedules only (DASSH has no threads)']
MAX_STEPS = 3000
PY = sys.executable

_RUNNER = r'''
import os, sys, json
sys.path.insert(0, %(src)r)
os.environ['MPLBACKEND'] = 'Agg'
LOG = os.environ['VMON_AUDIT_LOG']
STATE = {'wdir': None}
def hook(event, args):
    if event == 'open':
        path, mode = args[0], args[1]
        if isinstance(path, (str, bytes)) and mode and any(c in str(mode) for c in 'wax+') and '_audit.' not in str(path):
            try:
                with open('%%s.%%d' %% (LOG, os.getpid()), 'a') as f:
                    f.write(json.dumps([STATE['wdir'], os.fspath(path) if not isinstance(path, bytes) else path.decode(), str(mode)]) + '\n')
            except Exception:
                pass
sys.addaudithook(hook)
import dassh, dassh.__main__ as M
_orig = M._run_dassh
def _wrapped(*a, **k):
    # the directory this time point is meant to write in, however the
    # function is handed it (positional, keyword or inside the settings)
    wdir = k.get('wdir')
    if wdir is None and len(a) >= 4:
        wdir = a[3]
    if wdir is None and len(a) >= 2 and isinstance(a[1], dict):
        wdir = a[1].get('wdir')
    STATE['wdir'] = wdir if wdir is not None else a[0].path
    try:
        return _orig(*a, **k)
    finally:
        STATE['wdir'] = None
M._run_dassh = _wrapped
M.main([sys.argv[1]] + sys.argv[2:])
'''


def cases(tier, seed):
    out = []
    n = 30 if tier == 'quick' else 600
    for i in range(n):
        out.append({'name': 'history-%d' % i, 'kind': 'history',
                    'seed': [seed, 161, i]})
    n = 10 if tier == 'quick' else 120
    for i in range(n):
        out.append({'name': 'schedule-%d' % i, 'kind': 'schedule',
                    'seed': [seed, 162, i]})
    n = 6 if tier == 'quick' else 80
    for i in range(n):
        out.append({'name': 'fresh-%d' % i, 'kind': 'fresh',
                    'seed': [seed, 163, i]})
    n = 5 if tier == 'quick' else 60
    for i in range(n):
        out.append({'name': 'orifice-%d' % i, 'kind': 'orifice',
                    'seed': [seed, 164, i]})
    return out


def build_problem(rng, small=False):
    if rng.random() < 0.7 or small:
        P, feats = wl.single_assembly(
            rng, tdep=(rng.random() < 0.5), max_rings=3, length=0.3,
            gap=wl.choose(rng, ['none', 'flow', 'no_flow']),
            vel=wl.loguniform(rng, 0.5, 5.0), lf=False,
            regions=(rng.random() < 0.3),
            bc=wl.choose(rng, ['flowrate', 'outlet_temp', 'delta_temp']))
        names = ['a']
    else:
        P, feats = wl.core_problem(rng, n_ring=2, tdep=(rng.random() < 0.5),
                                   gap=wl.choose(rng, ['none', 'flow',
                                                       'flow', 'no_flow']),
                                   empty_frac=0.3, max_rings=3, length=0.3,
                                   vel_range=(0.5, 5.0), lf_frac=0.1,
                                   own_power_mesh=0.4,
                                   bc_kinds=('flowrate', 'outlet_temp',
                                             'delta_temp'))
        names = list(P['types'])
    feats['pin'] = None
    for nm in names:
        t = P['types'][nm]
        if not t.get('use_low_fidelity_model') and rng.random() < 0.75:
            feats['pin'] = wl.add_pin_model(rng, P, nm)
            if rng.random() < 0.5:
                # built-in hot-channel factors
                t['Hotspot'] = {'clad': {
                    'temperature': 'clad_mw',
                    'subfactors': 'fftf_clad_mw' if False else
                    'hcf_fftf_clad_mw',
                    'input_sigma': 3, 'output_sigma': 2}}
                t['Hotspot']['clad']['subfactors'] = wl.choose(
                    rng, ['fftf_clad_mw', 'crbr_fuel_clad_mw'])
                feats['hotspot'] = True
    # user heat-transfer parameter lists (objects of the parsed input that
    # the regions are handed) together with convection factors
    for nm in names:
        t = P['types'][nm]
        if rng.random() < 0.35:
            t['htc_params_duct'] = [float(rng.uniform(0.02, 0.03)), 0.8, 0.8,
                                    float(rng.uniform(4.0, 8.0))]
            if t.get('use_low_fidelity_model'):
                t['convection_factor'] = float(wl.choose(rng, [0.3, 0.5,
                                                               0.8]))
            feats['user_htc'] = True
        for rn, rg in t.get('AxialRegion', {}).items():
            if rng.random() < 0.6:
                rg['htc_params'] = [float(rng.uniform(0.02, 0.03)), 0.8, 0.8,
                                    float(rng.uniform(4.0, 8.0))]
                rg['convection_factor'] = float(wl.choose(rng, [0.3, 0.5,
                                                                0.8]))
                feats['user_htc'] = True
    feats['grids'] = 0
    for nm in names:
        t = P['types'][nm]
        if not t.get('use_low_fidelity_model') and rng.random() < 0.4:
            # spacer grids (their positions are a list of the parsed input)
            feats['grids'] += len(wl.add_spacer_grid(rng, P, nm))
    P['setup_sub']['Dump'] = {'coolant': True, 'duct': True,
                              'average': True, 'maximum': True,
                              'pins': bool(feats['pin']),
                              'pressure_drop': True,
                              'gap': P['gap_model'] != 'none',
                              'gap_fine': bool(P['gap_model'] != 'none'
                                               and rng.random() < 0.5)}
    if rng.random() < 0.5:
        P['setup_sub']['Dump']['interval'] = 0.05
    P['setup'].pop('param_update_tol', None)
    # options whose handling has state that could leak between constructions
    if rng.random() < 0.5:
        P['power']['scaling'] = float(wl.choose(rng, [0.5, 2.0, 3.0]))
        P['power'].pop('total_power', None)
    elif rng.random() < 0.4:
        P['power']['total_power'] = float(rng.uniform(0.5, 2.0) * 1e5)
    if rng.random() < 0.5:
        L = P['length']
        P['setup']['axial_plane'] = [float(x) for x in np.round(
            np.sort(rng.uniform(0.05, 0.95, int(rng.integers(1, 4)))) * L, 4)]
    if rng.random() < 0.6:
        # data tables at requested heights: on or next to likely planes, in
        # between planes, and just above the top (DASSH snaps those)
        L = P['length']
        ids = [1 + i for i in range(len(P['positions']))]
        tabs = {}
        kinds = ['coolant_subchannel', 'duct_mw']
        if feats['pin']:
            kinds += ['clad_mw', 'fuel_cl', 'coolant_pin']
        for j in range(int(rng.integers(1, 3))):
            zs = [float(np.round(rng.uniform(0.05, 0.95) * L, 5))
                  for _ in range(int(rng.integers(1, 4)))]
            if rng.random() < 0.5:
                zs.append(float(np.round(0.01 * rng.integers(1, int(
                    L / 0.01)) + wl.choose(rng, [0.0, 2e-4, -3e-4]), 6)))
            if rng.random() < 0.3:
                zs.append(float(L + wl.choose(rng, [0.0, 4e-4])))
            tabs['tab%d' % j] = {
                'type': wl.choose(rng, kinds),
                'assemblies': [int(wl.choose(rng, ids))],
                'axial_positions': sorted(set(zs))}
        P['setup_sub']['AssemblyTables'] = tabs
        P['setup_sub']['Dump']['interval'] = None
        feats['tables'] = [t['type'] for t in tabs.values()]
    feats['scaling'] = P['power'].get('scaling')
    feats['axial_plane'] = bool(P['setup'].get('axial_plane'))
    return P, feats


def fields(r):
    out = []
    for a in r.assemblies:
        for reg in a.region:
            for k in sorted(reg.temp):
                out.append(np.asarray(reg.temp[k], dtype=float).ravel())
            if hasattr(reg, 'pin_temps'):
                out.append(reg.pin_temps.ravel())
        out.append(np.array([a.pressure_drop, a._peak['cool'][0],
                             a._peak['cool'][1]]))
    if r.core.model is not None:
        out.append(r.core.coolant_gap_temp.ravel())
    return np.concatenate(out)


def _scramble_heap(rng, n):
    """Leave freed blocks of many sizes holding other numbers before each
    construction: results must not depend on what uninitialised memory
    happens to contain (np.empty) - the same construction has to give the
    same result whatever was in the heap before."""
    fill = [0.0, 1.0e3, -7.5e2][n % 3]
    junk = []
    for size in list(range(1, 400)) + [int(x) for x in
                                      rng.integers(400, 20000, 200)]:
        a = np.empty(size)
        a.fill(fill + 0.001 * size)
        junk.append(a)
    for k in range(2, 40):
        a = np.empty((k, 3 * k))
        a.fill(fill - k)
        junk.append(a)
    del junk


def run_history(case, res):
    rng = np.random.default_rng(case['seed'])
    P, feats = build_problem(rng)
    if rng.random() < 0.4:
        # the same problem written in user units (the parsed input then
        # holds converted values and materials created before conversion)
        from vmon.oracle import c17_units as U
        u = U.Units(length=wl.choose(rng, ['m', 'cm', 'in']),
                    temp=wl.choose(rng, ['C', 'F', 'C', 'K']),
                    mass=wl.choose(rng, ['kg', 'lb']),
                    time=wl.choose(rng, ['s', 'hr']))
        P = U.convert_problem(P, u)
        feats['units'] = u.name
    key = {'pin': feats['pin'], 'hotspot': bool(feats.get('hotspot'))}
    with drive.scratch() as d:
        path = gen.render(P, d)
        inp = drive.read_input(path)
        s0 = snapshot(inp.data)
        m0 = snapshot(inp.materials)
        results = []
        for n in range(3):
            env.log_records()
            stage = 'construct'
            _scramble_heap(rng, n)
            try:
                with drive.quiet():
                    r = dassh.Reactor(inp, write_output=True)
                    if len(r.z) > MAX_STEPS:
                        raise drive.TooManySteps('too_many_steps', [])
                    stage = 'sweep'
                    r.temperature_sweep()
                    stage = 'postprocess'
                    r.postprocess()
            except SystemExit:
                if n == 0:
                    raise drive.Rejected(stage, env.log_records())
                res.check('H2_reconstruction_succeeds', False,
                          'construction no. %d from the same input object '
                          'ended in DASSH\'s error exit during %s although '
                          'the first one succeeded: %r'
                          % (n + 1, stage, env.log_records()[-1:]),
                          dict(key, stage=stage, nth=n + 1))
                break
            except drive.Rejected:
                raise
            except Exception as e:
                if n == 0:
                    # first construction failing is C18's business
                    res.tag('first_construction_crash:' + type(e).__name__)
                    res.status('rejected', 'first construction raised %r'
                               % (e,))
                    return feats
                res.check('H2_reconstruction_succeeds', False,
                          'construction no. %d from the same input object '
                          'raised %s: %s' % (n + 1, type(e).__name__, e),
                          dict(key, stage=stage, exc=type(e).__name__,
                               nth=n + 1))
                break
            if n > 0:
                res.check('H2_reconstruction_succeeds', True, '', key)
            s1 = snapshot(inp.data)
            bad = diff(s0, s1)
            res.check('H1_input_unchanged', not bad,
                      'DASSH_Input.data changed by construction/sweep/'
                      'postprocess no. %d: %s' % (n + 1, ', '.join(bad[:5])),
                      dict(key, paths=sorted(set(re.sub(r"\['[^']*'\]", '[.]',
                                                        p, count=2)
                                                 for p in bad))[:4]),
                      {'paths': bad})
            m1 = snapshot(inp.materials)
            badm = diff(m0, m1)
            res.check('H1m_input_materials_unchanged', not badm,
                      'DASSH_Input.materials changed by construction no. %d:'
                      ' %s' % (n + 1, ', '.join(badm[:4])), key)
            results.append(fields(r))
            if n == 0 and rng.random() < 0.4:
                # a construction with keyword overrides (a caller's own
                # step size / energy-balance switch) in between: they belong
                # to that model, not to the parsed input
                try:
                    with drive.quiet():
                        dassh.Reactor(inp, axial_mesh_size=float(
                            r.req_dz) * 0.5, calc_energy_balance=True)
                except SystemExit:
                    pass
                s_kw = snapshot(inp.data)
                bad_kw = diff(s0, s_kw)
                res.check('H1_input_unchanged', not bad_kw,
                          'DASSH_Input.data changed by a construction with '
                          'keyword overrides: %s' % ', '.join(bad_kw[:5]),
                          dict(key, paths=sorted(set(re.sub(
                              r"\['[^']*'\]", '[.]', p_, count=2)
                              for p_ in bad_kw))[:4], how='keywords'),
                          {'paths': bad_kw})
                res.tag('construction_with_keyword_overrides')
                if bad_kw:
                    s0 = s_kw
            if bad:
                # keep going from the mutated state: later constructions
                # see what a real second time point would see
                s0 = s1
        for n in range(1, len(results)):
            same = (results[n].shape == results[0].shape and
                    np.array_equal(results[n], results[0]))
            res.check('H3_reconstruction_bitwise_equal', same,
                      'construction no. %d gives different temperatures '
                      'than the first (max diff %.3e)'
                      % (n + 1, float(np.max(np.abs(
                          results[n] - results[0])))
                         if results[n].shape == results[0].shape
                         else float('nan')), key)
    res.tag('bc=%s' % '+'.join(sorted(set(k for q in P['positions'] for k in ('flowrate', 'outlet_temp', 'delta_temp') if k in q))))
    res.tag('pin=%s' % feats['pin'])
    res.tag('assembly_tables=%s' % bool(feats.get('tables')))
    res.tag('units=%s' % ('SI' if not feats.get('units') else 'user'))
    res.tag('hotspot=%s' % bool(feats.get('hotspot')))
    res.tag('spacer_grids=%s' % bool(feats.get('grids')))
    res.tag('user_htc_params=%s' % bool(feats.get('user_htc')))
    if feats['pin']:
        res.nontrivial(repr(sorted((k, str(v)) for k, v in feats.items())))
    elif len(results) == 3:
        res.nontrivial('nopin/' + repr(case['seed'][-1]))
    return feats


# ----------------------------------------------------------------------
# command-line runs


def run_cli(workdir, input_name, hashseed, audit=True, extra=()):
    runner = os.path.join(workdir, '_runner.py')
    with open(runner, 'w') as f:
        f.write(_RUNNER % {'src': env.SRC})
    e = dict(os.environ)
    e['PYTHONHASHSEED'] = str(hashseed)
    e['VMON_AUDIT_LOG'] = os.path.join(workdir, '_audit')
    e['PYTHONDONTWRITEBYTECODE'] = '1'
    p = subprocess.run([PY, runner, os.path.join(workdir, input_name)]
                       + list(extra),
                       cwd=workdir, env=e, stdout=subprocess.PIPE,
                       stderr=subprocess.STDOUT, timeout=600)
    return p.returncode, p.stdout.decode(errors='replace')[-1500:]


def collect(dirpath):
    """{relative file name: bytes} of the result files of one time point."""
    out = {}
    for f in sorted(os.listdir(dirpath)):
        p = os.path.join(dirpath, f)
        if not os.path.isfile(p):
            continue
        if f.endswith('.csv') and not f.startswith('power'):
            out[f] = open(p, 'rb').read()
        elif f == 'dassh.out':
            txt = open(p).read()
            txt = re.sub(r'(?m)^Executed .*$', 'Executed <masked>', txt)
            out[f] = txt.encode()
    return out


def audit_entries(workdir):
    ent = []
    for f in os.listdir(workdir):
        if f.startswith('_audit.'):
            for ln in open(os.path.join(workdir, f)):
                try:
                    ent.append(json.loads(ln))
                except Exception:
                    pass
    return ent


def write_multi(P, d, n_tp, parallel, n_cpu, share_csv=False):
    Q = copy.deepcopy(P)
    Q['setup'] = dict(Q['setup'])
    Q['setup']['parallel'] = bool(parallel)
    if n_cpu is not None:
        Q['setup']['n_cpu'] = int(n_cpu)
    path = gen.render(Q, d)
    names = ['power.csv']
    rr = np.random.default_rng([int(Q['power'].get('seed', 0)), n_tp, 99])
    for i in range(1, n_tp):
        if share_csv and i == n_tp - 1:
            # the same file named by two time points
            names.append(names[0])
            continue
        Qi = copy.deepcopy(Q)
        Qi['power']['seed'] = int(Q['power'].get('seed', 0)) + 1000 * i
        # a different axial segmentation per time point
        L = Q['length']
        inner = sorted(set(float(x) for x in np.round(
            rr.uniform(0.1, 0.9, int(rr.integers(1, 4))) * L, 3)))
        Qi['power']['zb'] = [0.0] + inner + [L]
        for sp in Qi['power']['asm'].values():
            sp['total'] = sp['total'] * (1.0 + 0.2 * i)
            sp['axial'] = [1.0] * (len(Qi['power']['zb']) - 1)
            sp['zero_cells'] = []
        nm = 'power_tp%d.csv' % (i + 1)
        gen.write_power_csv(Qi, os.path.join(d, nm))
        names.append(nm)
    txt = open(path).read().replace('user_power = power.csv',
                                    'user_power = ' + ', '.join(names))
    open(path, 'w').write(txt)
    return path, names


def run_schedule(case, res):
    rng = np.random.default_rng(case['seed'])
    P, feats = build_problem(rng, small=True)
    n_tp = int(rng.integers(2, 5))
    share = bool(rng.random() < 0.5)
    save = bool(case['seed'][-1] % 2 == 0)   # --save_reactor: one more output
    extra = ['--save_reactor'] if save else []
    key = {'n_tp': n_tp, 'share_csv': share, 'save_reactor': save}
    ref = {}
    with drive.scratch() as base:
        # reference: every time point alone (single-time-point input)
        for i in range(n_tp):
            d = os.path.join(base, 'alone%d' % i)
            os.makedirs(d)
            path, names = write_multi(P, d, n_tp, False, None, share)
            txt = open(path).read().replace(
                'user_power = ' + ', '.join(names),
                'user_power = ' + names[i])
            open(path, 'w').write(txt)
            rc, log = run_cli(d, 'input.txt', 0, extra=extra)
            if rc != 0:
                raise drive.Rejected('cli', [('ERROR', log[-300:])])
            ref[i] = collect(d)
        schedules = [('serial', False, None)]
        for nc in sorted(set([2, min(n_tp, 3), 4])):
            schedules.append(('parallel%d' % nc, True, nc))
        for name, par, ncpu in schedules:
            d = os.path.join(base, name)
            os.makedirs(d)
            write_multi(P, d, n_tp, par, ncpu, share)
            rc, log = run_cli(d, 'input.txt', int(rng.integers(1, 1000)),
                              extra=extra)
            res.check('S0_schedule_run_completes', rc == 0,
                      'command-line run (%s, %d time points) exited %d: %s'
                      % (name, n_tp, rc, log[-300:]),
                      dict(key, schedule=name))
            if rc != 0:
                continue
            for i in range(n_tp):
                td = os.path.join(d, 'timestep_%d' % (i + 1))
                got = collect(td) if os.path.isdir(td) else {}
                if save:
                    res.check('S3_saved_model_in_own_directory',
                              os.path.exists(os.path.join(
                                  td, 'dassh_reactor.pkl')) and not
                              os.path.exists(os.path.join(
                                  d, 'dassh_reactor.pkl')),
                              'time point %d under schedule %s: saved model '
                              'not in its own directory (or one left next '
                              'to the input)' % (i + 1, name),
                              dict(key, schedule=name))
                same_names = sorted(got) == sorted(ref[i])
                diffs = [f for f in ref[i] if got.get(f) != ref[i][f]]
                res.check('S1_schedule_outputs_equal',
                          same_names and not diffs,
                          'time point %d under schedule %s differs from the '
                          'same time point run alone: files %r (missing/'
                          'extra: %r)' % (i + 1, name, diffs[:4],
                                          sorted(set(got) ^ set(ref[i]))[:4]),
                          dict(key, schedule=name))
            # audit: every write during time point i stays inside its dir
            bad = []
            n_w = 0
            for wdir, path, mode in audit_entries(d):
                if wdir is None:
                    continue
                n_w += 1
                ap = os.path.abspath(os.path.join(d, path))
                if not ap.startswith(os.path.abspath(wdir) + os.sep):
                    if os.path.basename(ap) in ('dassh.log',):
                        continue
                    bad.append((os.path.relpath(wdir, d),
                                os.path.relpath(ap, d)))
            res.check('S2_writes_stay_in_own_directory', not bad and n_w > 0,
                      'writes outside the time point directory under %s: %r '
                      '(%d writes seen)' % (name, bad[:4], n_w),
                      dict(key, schedule=name))
            res.count('audited_write_opens', n_w)
            res.tag('schedule:' + name)
    res.tag('n_tp=%d' % n_tp)
    res.nontrivial('sched/%d/%s/%s' % (n_tp, feats.get('nr'), feats['pin']))
    return feats


def run_fresh(case, res):
    """Two executions of one input in fresh processes (different hash
    seeds): bitwise identical outputs."""
    rng = np.random.default_rng(case['seed'])
    P, feats = build_problem(rng)
    outs = []
    with drive.scratch() as base:
        for hs in (1, 4242):
            d = os.path.join(base, 'h%d' % hs)
            os.makedirs(d)
            gen.render(P, d)
            rc, log = run_cli(d, 'input.txt', hs)
            if rc != 0:
                raise drive.Rejected('cli', [('ERROR', log[-300:])])
            outs.append(collect(d))
            if hs == 1:
                # ... and once more in the same directory (the natural way
                # to repeat a run): result files are replaced, not extended
                rc, log = run_cli(d, 'input.txt', 7)
                again = collect(d) if rc == 0 else {}
                bad = [f for f in outs[0] if again.get(f) != outs[0][f]]
                res.check('H4b_rerun_in_same_directory_bitwise',
                          rc == 0 and not bad and
                          sorted(again) == sorted(outs[0]),
                          'second execution in the same directory differs '
                          'from the first in %r (exit %d)' % (bad[:5], rc),
                          {'pin': feats['pin'],
                           'dump_gap_fine': bool(P['setup_sub']['Dump'].get(
                               'gap_fine'))})
    diffs = [f for f in outs[0] if outs[1].get(f) != outs[0][f]]
    res.check('H4_fresh_process_bitwise', not diffs and
              sorted(outs[0]) == sorted(outs[1]),
              'two executions of the same input differ in %r' % diffs[:5],
              {'pin': feats['pin']})
    res.count('files_compared', len(outs[0]))
    res.nontrivial('fresh/%s/%s' % (feats.get('nr', feats.get('types')), feats['pin']))
    return feats


def run_orifice(case, res):
    """An orificing optimisation between two model constructions from one
    parsed input: the optimiser works on copies (it rewrites the boundary
    conditions of every iteration), the parsed input stays as it was and the
    model built from it afterwards is the model built before."""
    import dassh.__main__  # noqa: F401  (optimize() uses dassh.__main__)
    from dassh.orificing import Orificing
    from vmon.checks import c20
    rng = np.random.default_rng(case['seed'])
    P, feats = c20.e2e_problem(rng)
    P['orificing']['iteration_limit'] = 2
    # boundary conditions of several kinds in the parsed input (the
    # optimiser overwrites all of them in its copies)
    for q in P['positions'][1:]:
        if rng.random() < 0.4:
            q.pop('flowrate', None)
            q['outlet_temp'] = float(P['inlet'] + rng.uniform(60, 140))
    key = {'history': 'orificing', 'pin': False}
    with drive.scratch() as d:
        path = gen.render(P, d)
        inp = drive.read_input(path)
        s0 = snapshot(inp.data)
        with drive.quiet():
            r = dassh.Reactor(inp, path=os.path.join(d, 'before'),
                              write_output=True)
            if len(r.z) > MAX_STEPS:
                raise drive.TooManySteps('too_many_steps', [])
            r.temperature_sweep()
        f0 = fields(r)
        env.log_records()
        try:
            with drive.quiet():
                o = Orificing(inp)
                o.optimize()
        except SystemExit:
            res.tag('orificing:error_exit')
        bad = diff(s0, snapshot(inp.data))
        res.check('H1_input_unchanged', not bad,
                  'DASSH_Input.data changed by an orificing optimisation: %s'
                  % ', '.join(bad[:5]),
                  dict(key, paths=sorted(set(re.sub(r"\['[^']*'\]", '[.]',
                                                    p, count=2)
                                             for p in bad))[:4]),
                  {'paths': bad})
        try:
            with drive.quiet():
                r2 = dassh.Reactor(inp, path=os.path.join(d, 'after'),
                                   write_output=True)
                r2.temperature_sweep()
        except (SystemExit, Exception) as e:   # noqa
            res.check('H2_reconstruction_succeeds', False,
                      'construction from the same input object after an '
                      'orificing optimisation failed: %s %s'
                      % (type(e).__name__, e), key)
            return feats
        res.check('H2_reconstruction_succeeds', True, '', key)
        f1 = fields(r2)
        same = f1.shape == f0.shape and np.array_equal(f0, f1)
        res.check('H3_reconstruction_bitwise_equal', same,
                  'the model built after an orificing optimisation gives '
                  'different temperatures than the one built before (max '
                  'diff %.3e)' % (float(np.max(np.abs(f1 - f0)))
                                  if f1.shape == f0.shape else float('nan')),
                  key)
    res.tag('history=orificing')
    res.nontrivial('orifice/%s' % case['seed'][-1])
    feats['pin'] = False
    return feats


def run_case(case):
    res = Result(case)
    try:
        feats = {'history': run_history, 'schedule': run_schedule,
                 'fresh': run_fresh, 'orifice': run_orifice}[
                     case['kind']](case, res)
        res.sample({'case': case, 'features': {k: str(v) for k, v in
                                               feats.items()}})
    except drive.Rejected as e:
        res.status('rejected', str(e))
        res.tag('rejected:' + e.stage)
    return res


def classify(v, case):
    return None
