"""C15 - reported peak temperatures are the maxima over the whole sweep."""
import re
import numpy as np
from vmon import gen, drive, workloads as wl, env
from vmon.harness import Result
from vmon.probe import Hooks

dassh = env.import_dassh()
from dassh.assembly import Assembly  # noqa: E402

PROPERTY = 'C15'
LEVEL = 'exploration'
TECHNIQUE = ('runtime monitoring: independent running-maximum fold recorded '
             'at an Assembly.calculate exit hook, compared with '
             'Assembly._peak and with the re-parsed summary tables')
LEVEL_TEXT = ('For generated sweeps (peaks at bottom / middle / top, '
              'plateaus, multi-region assemblies where the number of ducts '
              'changes, double ducts, pin models) the peaks DASSH keeps and '
              'prints equal an independently folded maximum over all planes '
              'and cells, with a height at which the maximum is attained and '
              'the radial profile of that pin and plane. Held on the '
              'executions observed.')
LEVEL_NOTE = ('The fold reads the same temperature arrays DASSH publishes '
              'after each step; tables are compared at print precision.')
DESIGN_REF = 'DESIGN.md section 3, C15'
RULE = ('random single assemblies and small cores with axial power shapes '
        'peaked at the bottom, middle or top or flat (several equal maxima), '
        'gap-coupled neighbours so that duct peaks occur mid-height, axial '
        'regions (duct count changes 2->1 for double-duct bundles), Fuel/'
        'PinModel; non-trivial when >= 20 planes and the peak differs from '
        'the outlet value or a pin model is present; distinct by (shape, '
        'regions, ducts, pin model)')
RULE += (' Later rounds added: duct face averages of the duct table and all five peak-pin tables.')
DECIDING = ['K1_peak_coolant', 'K2_peak_duct', 'K4_table_coolant_row']
CASE_TIMEOUT = {'quick': 200, 'thorough': 900}
BUDGET = {'quick': 600, 'thorough': 3000}
ASSUMPTIONS = ['peak coolant = interior / low-fidelity node coolant field '
               '(what DASSH reports as coolant temperature)']
MAX_STEPS = 6000


def cases(tier, seed):
    out = []
    n = 50 if tier == 'quick' else 1500
    for i in range(n):
        out.append({'name': 'asm-%d' % i, 'kind': 'asm',
                    'seed': [seed, 151, i]})
    n = 8 if tier == 'quick' else 200
    for i in range(n):
        out.append({'name': 'core-%d' % i, 'kind': 'core',
                    'seed': [seed, 152, i]})
    for n, nm in enumerate(drive.repo_inputs()):
        if tier == 'quick' and n % 3 != 2:
            continue
        out.append({'name': 'repo-' + nm[6:-4], 'kind': 'repo', 'input': nm,
                    'seed': [seed, 153, n]})
    return out


def shape_axial(rng, P, k0s, mode):
    L = P['length']
    nc = 6
    zb = [round(L * i / nc, 6) for i in range(nc + 1)]
    P['power']['zb'] = zb
    P['power']['order'] = int(rng.integers(0, 3))
    prof = {'bottom': [3.0, 1.0, 0.3, 0.1, 0.0, 0.0],
            'middle': [0.2, 1.0, 3.0, 3.0, 1.0, 0.2],
            'top': [0.0, 0.1, 0.3, 1.0, 2.0, 4.0],
            'flat': [1.0] * 6,
            'bottom_only': [4.0, 0.0, 0.0, 0.0, 0.0, 0.0]}[mode]
    for k0 in k0s:
        sp = P['power']['asm'][str(k0)]
        sp['axial'] = prof
        sp['zero_cells'] = [i for i, v in enumerate(prof) if v == 0.0]


def build_problem(case):
    rng = np.random.default_rng(case['seed'])
    mode = wl.choose(rng, ['bottom', 'middle', 'top', 'flat', 'bottom_only'])
    if case['kind'] == 'asm':
        P, feats = wl.single_assembly(
            rng, coolant_pool=True, max_rings=4, length=0.5,
            gap=wl.choose(rng, ['none', 'flow', 'no_flow', 'duct_average']),
            vel=wl.loguniform(rng, 0.1, 5.0), lf=(rng.random() < 0.08),
            regions=(rng.random() < 0.5))
        if not P['types']['a'].get('use_low_fidelity_model') and \
                rng.random() < 0.6:
            feats['pin'] = wl.add_pin_model(rng, P, 'a', gap=0.6)
        shape_axial(rng, P, [0], mode)
    else:
        P, feats = wl.core_problem(rng, n_ring=2, tdep=(rng.random() < 0.3),
                                   gap=wl.choose(rng, ['flow', 'no_flow']),
                                   empty_frac=0.2, max_rings=4, length=0.4,
                                   vel_range=(0.2, 5.0), regions_frac=0.5)
        for nm, t in P['types'].items():
            if not t.get('use_low_fidelity_model') and rng.random() < 0.5:
                wl.add_pin_model(rng, P, nm, gap=0.6)
        shape_axial(rng, P, [int(k) for k in P['power']['asm']], mode)
        # a cold neighbour next to hot ones: duct peaks move off the outlet
        ks = sorted(P['power']['asm'], key=int)
        if len(ks) > 2:
            P['power']['asm'][ks[1]]['total'] *= 0.05
    feats['axial'] = mode
    return P, feats


class Fold(object):
    """Independent running maxima for one assembly."""

    def __init__(self, asm):
        self.nd = max(len(reg.duct_ftf) if reg.is_rodded else 1
                      for reg in asm.region)
        self.cool = (-np.inf, [])
        self.duct = [(-np.inf, []) for _ in range(self.nd)]
        self.pin = {}
        self.planes = 0

    @staticmethod
    def _upd(cur, val, z):
        if val > cur[0]:
            return (val, [z])
        if val == cur[0]:
            cur[1].append(z)
        return cur

    def step(self, asm):
        z = float(asm.z)
        reg = asm.active_region
        self.planes += 1
        self.cool = self._upd(self.cool, float(np.max(
            reg.temp['coolant_int'])), z)
        mw = reg.temp['duct_mw']
        n = mw.shape[0]
        for i in range(n):
            g = self.nd - n + i      # outermost ducts are the same walls
            self.duct[g] = self._upd(self.duct[g], float(np.max(mw[i])), z)
        if hasattr(reg, 'pin_model'):
            pt = reg.pin_temps
            for name, col in (('clad_od', 4), ('clad_mw', 5), ('clad_id', 6),
                              ('fuel_od', 7), ('fuel_cl', 8)):
                j = int(np.argmax(pt[:, col]))
                v = float(pt[j, col])
                cur = self.pin.get(name)
                if cur is None or v > cur[0]:
                    self.pin[name] = (v, [(z, np.array(pt[j], copy=True))])
                elif v == cur[0]:
                    cur[1].append((z, np.array(pt[j], copy=True)))


def run_case(case):
    res = Result(case)
    if case['kind'] == 'repo':
        P, feats = None, {'axial': 'repo', 'repo_input': case['input']}
        key = {'axial': 'repo', 'gap': 'repo'}
    else:
        P, feats = build_problem(case)
        key = {'axial': feats['axial'], 'gap': P['gap_model']}
    folds = {}

    def post(args, kwargs, r_, tok):
        a = args[0]
        f = folds.get(id(a))
        if f is None:
            f = folds[id(a)] = Fold(a)
        f.step(a)

    try:
        with drive.scratch() as d, Hooks() as hk:
            if P is None:
                inp, r = drive.build_repo_input(case['input'], d,
                                                max_steps=MAX_STEPS)
                res.tag('repo_input')
            else:
                inp, r = drive.build(P, d, max_steps=MAX_STEPS)
            hk.wrap(Assembly, 'calculate', post=post)
            drive.sweep(r)
            hk.detach()
            interesting = False
            for i, a in enumerate(r.assemblies):
                f = folds[id(a)]
                k2 = dict(key, nd=f.nd,
                          n_regions=len(a.region),
                          ducts_change=bool(len(set(
                              (len(rg.duct_ftf) if rg.is_rodded else 1)
                              for rg in a.region)) > 1))
                v, z = a._peak['cool']
                res.check('K1_peak_coolant', v == f.cool[0],
                          'peak coolant temperature %.9f != maximum over the '
                          'sweep %.9f' % (v, f.cool[0]), k2, {'asm': a.id})
                res.check('K1z_peak_coolant_height',
                          any(abs(z - zz) < 1e-9 for zz in f.cool[1]),
                          'peak coolant height %.6f is not a plane where '
                          'the maximum occurs %r' % (z, f.cool[1][:4]), k2)
                for g in range(f.nd):
                    v, z = a._peak['duct'][g]
                    if f.duct[g][0] == -np.inf:
                        continue
                    res.check('K2_peak_duct', v == f.duct[g][0],
                              'peak duct mid-wall temperature of duct %d '
                              '(%.9f) != maximum over the sweep %.9f'
                              % (g, v, f.duct[g][0]), dict(k2, duct=g),
                              {'asm': a.id})
                    res.check('K2z_peak_duct_height',
                              any(abs(z - zz) < 1e-9 for zz in f.duct[g][1]),
                              'peak duct height not a plane where the '
                              'maximum occurs', dict(k2, duct=g))
                if 'pin' in a._peak:
                    for name, (val, col, row) in a._peak['pin'].items():
                        if name not in f.pin:
                            continue
                        fv, rows = f.pin[name]
                        res.check('K3_peak_pin', val == fv,
                                  'peak %s temperature %.9f != maximum over '
                                  'pins and planes %.9f' % (name, val, fv),
                                  dict(k2, pin_key=name))
                        ok = any(np.array_equal(np.asarray(row)[2:],
                                                rr[2:]) and
                                 abs(row[1] - zz) < 1e-9
                                 for zz, rr in rows)
                        res.check('K3r_peak_pin_profile', ok,
                                  'radial profile stored with the peak %s '
                                  'is not the row of the pin and plane of '
                                  'the maximum' % name, dict(k2,
                                                             pin_key=name))
                    interesting = True
                if f.cool[0] > float(np.max(a.temp_coolant)) + 1e-9:
                    interesting = True
            # ---- tables (printed in the user's units) --------------------
            from vmon.oracle import c17_units as U
            un = inp.data['Setup'].get('Units', {})
            ut = [k for k, v in U.TEMP_SPELL.items()
                  if str(un.get('temperature', 'k')).lower() in v
                  or str(un.get('temperature', 'k')).lower()
                  == U.TEMP_NORMAL[k]][0]
            ul = [k for k, v in U.LENGTH_SPELL.items()
                  if str(un.get('length', 'm')).lower() in v][0]

            def tT(x):
                return U.temp_from_K(ut, float(x))

            def tz(x):
                return float(x) / U.LENGTH[ul]
            with drive.quiet():
                ctab = dassh.table.CoolantTempTable().generate(r)
                dtab = dassh.table.DuctTempTable().generate(r)
            rows = [ln.split() for ln in ctab.splitlines()
                    if re.match(r'^\s*\d+\s', ln)]
            for i, a in enumerate(r.assemblies):
                row = [x for x in rows if int(x[0]) == i + 1]
                if not row:
                    res.check('K4_table_coolant_row', False,
                              'assembly %d missing from coolant table'
                              % (i + 1), key)
                    continue
                x = row[0]
                f = folds[id(a)]
                bulk, pk_out, pk_tot, pk_ht = (float(x[4]), float(x[5]),
                                               float(x[6]), float(x[8]))
                ok = (abs(bulk - tT(a.avg_coolant_temp)) < 0.006 and
                      abs(pk_out - tT(np.max(
                          a.active_region.temp['coolant_int']))) < 0.006 and
                      abs(pk_tot - tT(f.cool[0])) < 0.006 and
                      any(abs(pk_ht - tz(zz)) < 0.006 for zz in f.cool[1]))
                res.check('K4_table_coolant_row', ok,
                          'coolant summary row %r disagrees with the final-'
                          'plane fields / folded peak (%.3f, %r)'
                          % (x[4:], f.cool[0], f.cool[1][:3]), key)
            # duct table: one row per duct of the last region; the peak in
            # that row must belong to the same physical wall
            drows = [re.sub(r'\(\s*\d+,\s*\d+\)', 'LOC', ln).split()
                     for ln in dtab.splitlines()
                     if re.match(r'^\s*\d+\s', ln)]
            for i, a in enumerate(r.assemblies):
                f = folds[id(a)]
                mine = [x for x in drows if int(x[0]) == i + 1]
                n_last = a.region[-1].temp['duct_mw'].shape[0]
                for x in mine:
                    g = int(x[2]) - 1             # physical wall number
                    dnum = g - (f.nd - n_last)    # index among outlet walls
                    if not (0 <= dnum < n_last):
                        res.check('K5_table_duct_row', False,
                                  'duct table row labelled duct %d but the '
                                  'outlet region has walls %d..%d'
                                  % (g + 1, f.nd - n_last + 1, f.nd),
                                  dict(key, ducts_change=True))
                        continue
                    pk = float(x[-2])
                    k2 = dict(key, ducts_change=bool(n_last != f.nd))
                    # the six face averages of this wall at the outlet: each
                    # face is its cells between (and including) the two
                    # corners that bound it
                    tw = np.asarray(a.region[-1].temp['duct_mw'][dnum],
                                    dtype=float)
                    per = len(tw) // 6
                    faces = []
                    for sd in range(6):
                        cells = [(sd * per - 1) % len(tw)] + [
                            sd * per + j for j in range(per)]
                        faces.append(sum(tw[c] for c in cells) / len(cells))
                    got = [float(v) for v in x[3:9]]
                    res.check('K5b_table_duct_face_averages',
                              all(abs(g_ - tT(f_)) < 0.006
                                  for g_, f_ in zip(got, faces)),
                              'duct table row (wall %d of %d at the outlet) '
                              'shows face averages %r, the outlet plane '
                              'gives %r' % (dnum + 1, n_last, got,
                                            [round(tT(f_), 2)
                                             for f_ in faces]),
                              dict(k2, n_walls_outlet=int(n_last),
                                   outlet=('rodded' if a.region[-1].is_rodded
                                           else 'unrodded')))
                    res.check('K5_table_duct_row',
                              abs(pk - tT(f.duct[g][0])) < 0.006,
                              'duct table row (duct %d of %d at the outlet) '
                              'shows peak %.2f, folded peak of that wall is '
                              '%.2f' % (dnum + 1, n_last, pk, f.duct[g][0]),
                              k2)
            # peak pin tables: the row labelled with an assembly shows that
            # assembly's peak (value, pin) - rows exist exactly for the
            # assemblies that have a pin model
            if any('pin' in a._peak for a in r.assemblies):
                # (all five tables: those for clad OD/ID and fuel OD are
                # only printed with a hot-spot request for that location)
                for (what, loc, col, name) in (('clad', 'od', 6, 'clad_od'),
                                               ('clad', 'mw', 7, 'clad_mw'),
                                               ('clad', 'id', 8, 'clad_id'),
                                               ('fuel', 'od', 9, 'fuel_od'),
                                               ('fuel', 'cl', 10,
                                                'fuel_cl')):
                    try:
                        with drive.quiet():
                            ptab = dassh.table.PeakPinTempTable(
                                what, loc).generate(r, None)
                    except Exception as e:
                        res.tag('pin_table_failed:' + type(e).__name__)
                        continue
                    prow = {}
                    for ln in ptab.splitlines():
                        w = ln.split()
                        if len(w) >= 11 and re.match(r'^\d+$', w[0]):
                            prow[int(w[0])] = w
                    want = [i + 1 for i, a in enumerate(r.assemblies)
                            if 'pin' in a._peak]
                    res.check('K6_peak_pin_table_rows', sorted(prow) == want,
                              'peak %s table has rows for assemblies %r, '
                              'assemblies with a pin model are %r'
                              % (name, sorted(prow), want), key)
                    for i, a in enumerate(r.assemblies):
                        f = folds[id(a)]
                        if i + 1 not in prow or name not in f.pin:
                            continue
                        w = prow[i + 1]
                        fv, rows_ = f.pin[name]
                        ok = abs(float(w[col]) - tT(fv)) < 0.06 and any(
                            int(w[2]) == int(rr[2]) for _z, rr in rows_)
                        res.check('K6_peak_pin_table_rows', ok,
                                  'peak %s table row of assembly %d shows '
                                  '%s K at pin %s; folded peak %.2f K at '
                                  'pin(s) %r' % (name, i + 1, w[col], w[2],
                                                 tT(fv), [int(rr[2]) for
                                                          _z, rr in rows_]),
                                  key)
            for a in r.assemblies:
                for rg in a.region:
                    res.tag('region:' + ('rodded' if rg.is_rodded
                                         else rg.model))
            res.tag('axial=' + feats['axial'])
            if any('pin' in a._peak for a in r.assemblies):
                res.tag('pin_model')
            planes = max(f.planes for f in folds.values())
            if planes >= 20 and interesting:
                res.nontrivial(repr(sorted(feats.items(), key=str)))
            res.sample({'case': case, 'features': feats, 'planes': planes})
    except drive.Rejected as e:
        res.status('rejected', str(e))
        res.tag('rejected:' + e.stage)
    return res


def classify(v, case):
    return None
