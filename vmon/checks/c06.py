"""C06 - assemblies interact only through duct-wall heat transfer."""
import copy
import types
import logging
import numpy as np
from vmon import gen, drive, workloads as wl, env
from vmon.harness import Result
from vmon.probe import Hooks

dassh = env.import_dassh()
from dassh.assembly import Assembly  # noqa: E402

PROPERTY = 'C06'
LEVEL = 'exploration'
TECHNIQUE = ('runtime monitoring: (1) non-interference - deep state '
             'snapshots of every other assembly around each real '
             'Assembly.calculate call (hook), any change is a violation; '
             '(2) metamorphic pairs - per-step fields of an assembly in an '
             'adiabatic core vs its stand-alone run on the same planes')
LEVEL_TEXT = ('In generated adiabatic cores (2-7 assemblies, 1-2 types so '
              'that clones share a template, T-dependent and constant '
              'coolant, bypass ducts, pin models, low-fidelity regions) '
              'advancing one assembly leaves the complete reachable state of '
              'every other assembly unchanged, and every assembly reproduces '
              'its stand-alone per-step temperatures, pressure drop and '
              'peaks to 1e-11. Held on the executions observed.')
LEVEL_NOTE = ('The snapshot walks __dict__/list/dict/ndarray reachable from '
              'an Assembly (loggers, modules and functions skipped); the '
              'stand-alone run uses the same planes through axial_mesh_size.')
DESIGN_REF = 'DESIGN.md section 3, C06'
RULE = ('random adiabatic cores on 7 positions with 2-7 assemblies of 1-2 '
        'types (T-dependent sodium in ~60 %, double ducts, pin models, '
        'axial regions, low flow neighbours); snapshots taken at 3 steps for '
        'all ordered pairs; each of up to 3 assemblies re-run stand-alone; '
        'non-trivial when >= 2 assemblies share a type and the coolant rise '
        'is > 5 K; distinct by (types, count, tdep)')
RULE += (' Later rounds added: cores in user units with several positions on one Assignment line; kind gapcore (gap model on, twin model with all foreign gap cells heated by 75 K).')
RULE += (' Final refresh: unpowered assemblies; in low-flow-approximation cores the cut-off is steered just above the requirement of a wall-limited assembly that is not last, every assembly is re-run alone, and S2 compares the step requirement and wall treatment of each assembly in company and alone.')
DECIDING = ['N1_other_assembly_state_untouched', 'S1_standalone_same_fields']
CASE_TIMEOUT = {'quick': 300, 'thorough': 900}
BUDGET = {'quick': 800, 'thorough': 3300}
ASSUMPTIONS = ['adiabatic option for the metamorphic pairs (gap coupling is '
               'the allowed interaction and is covered by C02)']
MAX_STEPS = 3000

_SKIP_TYPES = (logging.Logger, types.ModuleType, types.FunctionType,
               types.MethodType, type, logging.Handler)


def cases(tier, seed):
    n = 72 if tier == 'quick' else 1000
    out = [{'name': 'core-%d' % i, 'seed': [seed, 61, i]}
           for i in range(n)]
    n = 10 if tier == 'quick' else 200
    out += [{'name': 'gapcore-%d' % i, 'kind': 'gapcore',
             'seed': [seed, 62, i]} for i in range(n)]
    return out


def snapshot(obj, out=None, path='', memo=None, depth=0):
    """Flat {path: value} description of everything reachable from obj."""
    if out is None:
        out, memo = {}, {}
    if depth > 12:
        return out
    if isinstance(obj, _SKIP_TYPES) or callable(obj) and not hasattr(
            obj, '__dict__'):
        return out
    if isinstance(obj, np.ndarray):
        out[path] = ('nd', obj.shape, obj.dtype.str, obj.tobytes())
        return out
    if isinstance(obj, (int, float, str, bool, type(None), np.generic)):
        out[path] = ('v', repr(obj))
        return out
    oid = id(obj)
    if oid in memo:
        out[path] = ('ref', memo[oid])
        return out
    memo[oid] = path
    if isinstance(obj, dict):
        for k in obj:
            snapshot(obj[k], out, '%s[%r]' % (path, k), memo, depth + 1)
        out[path + '#keys'] = ('v', repr(sorted(map(repr, obj))))
    elif isinstance(obj, (list, tuple)):
        out[path + '#len'] = ('v', len(obj))
        for i, v in enumerate(obj):
            snapshot(v, out, '%s[%d]' % (path, i), memo, depth + 1)
    elif hasattr(obj, '__dict__'):
        for k, v in vars(obj).items():
            if k in ('_logger',):
                continue
            snapshot(v, out, '%s.%s' % (path, k), memo, depth + 1)
    return out


def diff(s0, s1, limit=6):
    bad = []
    for k in s0:
        if k not in s1 or s0[k] != s1[k]:
            bad.append(k)
            if len(bad) >= limit:
                break
    for k in s1:
        if k not in s0 and len(bad) < limit:
            bad.append(k)
    return bad


def category(path):
    for name, cat in (('coolant.', 'material'), ('duct.', 'material'),
                      ('.clad', 'material'), ('_mat', 'material'),
                      ('pin_model', 'pin_model'),
                      ('coolant_int_params', 'correlation'),
                      ('coolant_byp_params', 'correlation'),
                      ('coolant_params', 'correlation'),
                      ('_coolant_tracker', 'correlation'),
                      ('corr', 'correlation'), ('_rr_equiv', 'correlation'),
                      ('.temp[', 'temperature'), ('pin_temps', 'temperature'),
                      ('_pressure_drop', 'tally'), ('ebal', 'tally'),
                      ('_peak', 'tally'), ('_power_delivered', 'tally'),
                      ('.power.', 'power')):
        if name in path:
            return cat
    return 'other'


def build_problem(case):
    rng = np.random.default_rng(case['seed'])
    tdep = rng.random() < 0.6
    P, feats = wl.core_problem(rng, n_ring=2,
                               n_types=int(wl.choose(rng, [1, 1, 2])),
                               tdep=tdep, gap='none', empty_frac=0.35,
                               max_rings=4, length=0.4, lf_frac=0.15,
                               regions_frac=0.35, dd_frac=0.4,
                               vel_range=(0.03, 4.0), own_power_mesh=0.5,
                               bc_kinds=('flowrate', 'flowrate',
                                         'outlet_temp', 'delta_temp'))
    for nm, t in P['types'].items():
        if not t.get('use_low_fidelity_model') and rng.random() < 0.4:
            wl.add_pin_model(rng, P, nm, kind='fuel')
        if not t.get('use_low_fidelity_model') and rng.random() < 0.5:
            # spacer grids (loss coefficient from a correlation depends on
            # the flow of the assembly that evaluates it)
            wl.add_spacer_grid(rng, P, nm, modes=('loss', 'REH', 'CDD',
                                                  'CDD'))
    # some assemblies carry no power at all (their set-up must not pick up
    # anything from the assembly treated before them)
    n_zero = 0
    for q in P['positions'][1:]:
        if rng.random() < 0.15:
            q.pop('outlet_temp', None)
            q.pop('delta_temp', None)
            q['flowrate'] = q['nominal_flowrate']
            P['power']['asm'][str(gen.pos_index0(q['ring'], q['pos']))][
                'total'] = 0.0
            n_zero += 1
    feats['unpowered_assemblies'] = n_zero
    if rng.random() < 0.3:
        P['setup']['param_update_tol'] = float(wl.choose(rng, [1e-3, 0.01,
                                                                0.05]))
    if rng.random() < 0.4:
        # low-flow approximation: per-assembly decision, one nearly
        # stagnant assembly among normal ones (any place in the order)
        P['setup']['conv_approx'] = True
        P['setup']['conv_approx_dz_cutoff'] = float(
            wl.choose(rng, [0.002, 0.005, 0.01]))
        slow = P['positions'][int(rng.integers(len(P['positions'])))]
        slow.pop('outlet_temp', None)
        slow.pop('delta_temp', None)
        slow['flowrate'] = slow['nominal_flowrate'] * float(
            wl.loguniform(rng, 0.005, 0.05))
        for sp in P['power']['asm'].values():
            sp['comps'] = [1, 2, 3]
        feats['conv_approx'] = True
    feats['tdep'] = tdep
    feats['units'] = None
    if rng.random() < 0.35:
        # written in user units, neighbouring positions of one type that
        # share a boundary condition on ONE Assignment line (their powers
        # still differ)
        P['merge_lines'] = True
        prev = None
        for q in P['positions']:
            if prev is not None and q['ring'] == prev['ring'] and \
                    q['pos'] == prev['pos'] + 1 and \
                    q['type'] == prev['type'] and rng.random() < 0.8:
                for k in ('flowrate', 'outlet_temp', 'delta_temp'):
                    q.pop(k, None)
                    if k in prev:
                        q[k] = prev[k]
                q['nominal_flowrate'] = prev['nominal_flowrate']
            prev = q
        feats['units'] = {'length': wl.choose(rng, ['m', 'cm', 'in']),
                          'temp': wl.choose(rng, ['K', 'K', 'C', 'F']),
                          'mass': wl.choose(rng, ['lb', 'lb', 'kg']),
                          'time': wl.choose(rng, ['s', 's', 'min', 'hr'])}
        feats['merged_positions'] = sum(
            1 for a, b in zip(P['positions'][:-1], P['positions'][1:])
            if a['ring'] == b['ring'] and b['pos'] == a['pos'] + 1
            and a['type'] == b['type'] and all(
                a.get(k) == b.get(k) for k in ('flowrate', 'outlet_temp',
                                               'delta_temp')))
    return P, feats


def in_units(P, feats):
    if not feats.get('units'):
        return P
    from vmon.oracle import c17_units as U
    return U.convert_problem(P, U.Units(**feats['units']))


def standalone_problem(P, k0):
    """The same assembly alone at the core centre, same types (so the same
    merged axial boundaries), same power coefficients."""
    Q = copy.deepcopy(P)
    a = [q for q in P['positions']
         if gen.pos_index0(q['ring'], q['pos']) == k0][0]
    Q['positions'] = [dict(a, ring=1, pos=1)]
    spec = dict(P['power']['asm'][str(k0)])
    spec['seed_k0'] = spec.get('seed_k0', k0)
    Q['power'] = dict(P['power'])
    Q['power']['asm'] = {'0': spec}
    return Q


def record_fields(asm):
    reg = asm.active_region
    out = [reg.temp['coolant_int'].ravel(), reg.temp['duct_mw'].ravel(),
           reg.temp['duct_surf'].ravel()]
    if 'coolant_byp' in reg.temp:
        out.append(reg.temp['coolant_byp'].ravel())
    if hasattr(reg, 'pin_temps'):
        out.append(reg.pin_temps[:, 3:].ravel())
    out.append(np.array([asm.pressure_drop, asm._peak['cool'][0]]))
    return np.concatenate(out).copy()


def run_gapcore(case):
    """With the inter-assembly gap switched on an assembly still sees only
    the gap cells it touches: heating all OTHER gap cells (twin model) before
    a step leaves that step of the assembly unchanged (constant properties:
    with temperature-dependent coolant the gap properties are evaluated at
    the gap-average temperature, which is a legitimate global coupling)."""
    res = Result(case)
    rng = np.random.default_rng(case['seed'])
    gap = wl.choose(rng, ['flow', 'no_flow', 'no_flow', 'duct_average'])
    P, feats = wl.core_problem(rng, n_ring=2,
                               n_types=int(wl.choose(rng, [1, 2, 2, 3])),
                               tdep=False, gap=gap, empty_frac=0.25,
                               max_rings=4, length=0.3, lf_frac=0.15,
                               regions_frac=0.2, dd_frac=0.3,
                               vel_range=(0.3, 4.0))
    key = {'gap': gap}

    def start(d, n0):
        inp, r = drive.build(P, d, max_steps=MAX_STEPS)
        with drive.quiet():
            r._data_setup()
            r._data_open()
            r.axial_step0()
            for i in range(1, n0 + 1):
                r.axial_step(r.z[i], r.dz[i - 1], i)
        return r

    try:
        n0 = int(rng.integers(0, 6))
        with drive.scratch() as d1:
            r1 = start(d1, n0)
            if len(r1.z) < n0 + 3:
                res.status('rejected', 'mesh too short')
                return res
            n_asm = len(r1.assemblies)
            picks = [int(x) for x in rng.permutation(n_asm)[:3]]
            base = {}
            before = {k: r1.assemblies[k].active_region.name for k in picks}
            with drive.quiet():
                r1.axial_step(r1.z[n0 + 1], r1.dz[n0], n0 + 1)
            for k in picks:
                base[k] = record_fields(r1.assemblies[k])
            # a step that ends with a change of axial region hands the NEW
            # gap temperatures (already influenced by the neighbours' walls
            # of this step) to the new region: legitimate coupling, not
            # asserted
            changed = {k: r1.assemblies[k].active_region.name != before[k]
                       for k in picks}
            names = [a.name for a in r1.assemblies]
        for k in picks:
            if changed[k]:
                res.count('N3_skipped_step_ends_with_region_change')
                continue
            with drive.scratch() as d2:
                r2 = start(d2, n0)
                adj = np.asarray(r2.core._asm_sc_adj[k])
                touched = set(int(x) - 1 for x in adj[adj > 0])
                others = [j for j in range(int(r2.core.n_sc))
                          if j not in touched]
                if not others:
                    res.count('N3_no_foreign_gap_cells')
                    continue
                r2.core.coolant_gap_temp[others] += 75.0
                with drive.quiet():
                    r2.axial_step(r2.z[n0 + 1], r2.dz[n0], n0 + 1)
                got = record_fields(r2.assemblies[k])
            same = got.shape == base[k].shape and bool(
                np.array_equal(got, base[k]))
            worst = float(np.max(np.abs(got - base[k]))) if \
                got.shape == base[k].shape else float('nan')
            res.check('N3_foreign_gap_cells_do_not_reach_assembly', same,
                      'heating the gap cells assembly %d does NOT touch by '
                      '75 K changes its next step (max %.3e K)' % (k, worst),
                      dict(key, shares_type=bool(names.count(names[k]) > 1)),
                      {'asm': k, 'worst': worst, 'n_foreign': len(others)})
        res.tag('gap=' + gap)
        res.tag('n_asm=%d' % n_asm)
        if n_asm >= 3:
            res.nontrivial('gapcore/%s/%s' % (gap, case['seed'][-1]))
        res.sample({'case': case, 'features': feats})
    except drive.Rejected as e:
        res.status('rejected', str(e))
        res.tag('rejected:' + e.stage)
    except SystemExit:
        res.status('rejected', 'error exit during the first steps')
    return res


def steer_cutoff(P, feats, res):
    """Workload steering for the low-flow approximation: a first set-up
    WITHOUT the approximation tells which assemblies are limited by their
    wall cells; the cut-off is then placed just above the requirement of the
    first such assembly that is not the last one in the order, so that the
    approximation is switched on for that assembly and (if the requirements
    allow) for none of those set up after it."""
    Q = copy.deepcopy(P)
    Q['setup']['conv_approx'] = False
    Q['setup'].pop('conv_approx_dz_cutoff', None)
    got = {}

    class _Enough(Exception):
        pass

    def grab(args, kwargs):
        r = args[0]
        got['dz'] = [float(x) for x in r.min_dz['dz']]
        got['wall'] = [(not a.has_rodded) or str(s)[0] in '2367'
                       for a, s in zip(r.assemblies, r.min_dz['sc'])]
        raise _Enough()

    with drive.scratch() as d, Hooks() as hk:
        hk.wrap(dassh.reactor.Reactor, '_setup_zpts', pre=grab)
        try:
            drive.build(in_units(Q, feats), d)
        except _Enough:
            pass
    if 'dz' not in got:
        res.count('steer_requirements_not_observed')
        return
    dz, wall = got['dz'], got['wall']
    cand = [i for i in range(len(dz) - 1) if wall[i]]
    if not cand:
        res.count('steer_no_wall_limited_assembly_before_the_last')
        return
    # prefer an assembly followed by at least one with a larger requirement
    good = [i for i in cand if any(dz[j] > dz[i] * 1.02
                                   for j in range(i + 1, len(dz)))]
    i = (good or cand)[0]
    P['setup']['conv_approx_dz_cutoff'] = dz[i] * 1.01
    feats['steered_cutoff'] = True
    res.count('steer_cutoff_placed_above_assembly_%s'
              % ('first' if i == 0 else 'later'))


def run_case(case):
    if case.get('kind') == 'gapcore':
        return run_gapcore(case)
    res = Result(case)
    P, feats = build_problem(case)
    key = {'tdep': feats['tdep']}
    try:
        if feats.get('conv_approx') and case['seed'][-1] % 4 != 3:
            steer_cutoff(P, feats, res)
        trace = {}
        state = {'step': 0, 'r': None, 'pts': set()}

        def pre(args, kwargs):
            a = args[0]
            r = state['r']
            if r is None or state['step'] not in state['pts']:
                return None
            others = [b for b in r.assemblies if b is not a]
            return (a, [(b, snapshot(b)) for b in others[:4]])

        def post(args, kwargs, r_, tok):
            a = args[0]
            trace.setdefault(a.id, []).append(record_fields(a))
            if tok is None:
                return
            for b, s0 in tok[1]:
                s1 = snapshot(b)
                bad = diff(s0, s1)
                cats = sorted(set(category(p) for p in bad))
                res.check('N1_other_assembly_state_untouched', not bad,
                          'advancing assembly %d changed state of assembly '
                          '%d: %s' % (a.id, b.id, ', '.join(bad[:4])),
                          dict(key, same_type=bool(a.name == b.name),
                               categories=cats),
                          {'paths': bad})

        with drive.scratch() as d, Hooks() as hk:
            inp, r = drive.build(in_units(P, feats), d, max_steps=MAX_STEPS)
            state['r'] = r
            n = len(r.z) - 1
            state['pts'] = set([1, max(1, n // 2), n])
            hk.wrap(Assembly, 'calculate', pre=pre, post=post)

            def before(i):
                state['step'] = i
            def own_ids(when):
                # the pin records an assembly holds (and writes to the pin
                # dump) are labelled with its own id
                for a_ in r.assemblies:
                    if a_.has_rodded and hasattr(a_.rodded, 'pin_temps'):
                        lab = np.unique(a_.rodded.pin_temps[:, 0])
                        res.check('N4_pin_records_carry_own_id',
                                  bool(len(lab) == 1 and lab[0] == a_.id),
                                  'pin records of assembly %d are labelled '
                                  '%r (%s)' % (a_.id, lab.tolist(), when),
                                  dict(key, when=when))
            own_ids('after construction')
            drive.sweep(r, before_step=before)
            own_ids('after the sweep')
            hk.detach()
            req = float(r.req_dz)
            ids = [a.id for a in r.assemblies]
            own_req = {a.id: (float(r.min_dz['dz'][i]),
                              [bool(g._conv_approx) for g in a.region])
                       for i, a in enumerate(r.assemblies)}
            names = {a.id: a.name for a in r.assemblies}
            rise = max(a.avg_coolant_temp for a in r.assemblies) - P['inlet']
            zcore = list(r.z)
        # ---- stand-alone reruns ----------------------------------------------
        rng = np.random.default_rng(case['seed'] + [1])
        # the low-flow approximation is decided assembly by assembly: there
        # every assembly is re-run alone (the decision for one must not
        # depend on the assemblies set up before it)
        pick = list(rng.permutation(ids))[:6 if feats.get('conv_approx')
                                          else 3]
        zero_ids = [gen.pos_index0(q['ring'], q['pos'])
                    for q in P['positions']
                    if P['power']['asm'][str(gen.pos_index0(
                        q['ring'], q['pos']))]['total'] == 0.0]
        for z_ in zero_ids[:2]:
            if z_ in ids and z_ not in pick:
                pick = pick + [z_]
        for k0 in pick:
            Q = standalone_problem(P, int(k0))
            Q['setup'] = dict(Q['setup'])
            Q['setup']['axial_mesh_size'] = req
            # the power-mesh bounds of every assembly are axial planes of
            # the core run: request the same planes for the stand-alone run
            zs = set(P['power']['zb'][1:-1])
            for sp in P['power']['asm'].values():
                zs.update(sp.get('zb', [])[1:-1])
            if zs:
                Q['setup']['axial_plane'] = sorted(
                    set(Q['setup'].get('axial_plane', [])) | zs)
            t2 = []

            def post2(args, kwargs, r_, tok):
                t2.append(record_fields(args[0]))

            with drive.scratch() as d, Hooks() as hk:
                inp2, r2 = drive.build(in_units(Q, feats), d,
                                       max_steps=MAX_STEPS)
                # the step an assembly asks for and the wall treatment it
                # is computed with are decided from its own description
                alone = (float(r2.min_dz['dz'][0]),
                         [bool(g._conv_approx)
                          for g in r2.assemblies[0].region])
                incore = own_req[int(k0)]
                res.check('S2_own_requirement_and_wall_treatment_same_alone',
                          incore[1] == alone[1] and abs(
                              incore[0] - alone[0]) <= 1e-12 * alone[0],
                          'assembly %d in company asks for dz=%.6e with wall '
                          'approximation %r, alone for dz=%.6e with %r'
                          % (k0, incore[0], incore[1], alone[0], alone[1]),
                          dict(key, flags_differ=bool(incore[1] != alone[1])),
                          {'asm': int(k0), 'incore': incore, 'alone': alone})
                same = (len(r2.z) == len(zcore) and
                        np.allclose(r2.z, zcore, rtol=0, atol=1e-12))
                if not same:
                    res.count('S0_planes_differ_not_comparable')
                    continue
                hk.wrap(Assembly, 'calculate', post=post2)
                drive.sweep(r2)
            t1 = trace[int(k0)]
            ok_len = len(t1) == len(t2)
            worst = 0.0
            if ok_len:
                for x, y in zip(t1, t2):
                    if x.shape != y.shape:
                        ok_len = False
                        break
                    sc = np.maximum(np.abs(x), 1.0)
                    worst = max(worst, float(np.max(np.abs(x - y) / sc)))
            n_same = sum(1 for i in ids if names[i] == names[int(k0)])
            res.stat('S1_max_rel_diff', worst)
            res.check('S1_standalone_same_fields', ok_len and worst <= 1e-11,
                      'assembly %d (type shared by %d assemblies) differs '
                      'from its stand-alone run on the same planes: max '
                      'relative difference %.3e' % (k0, n_same, worst),
                      dict(key, shares_type=bool(n_same > 1)),
                      {'asm': int(k0), 'worst': worst})
        res.tag('n_asm=%d' % len(ids))
        res.tag('units=%s' % ('user+merged_lines' if feats.get('units')
                              else 'SI'))
        if feats.get('units'):
            res.tag('positions_sharing_a_line=%d'
                    % feats.get('merged_positions', 0))
        res.tag('tdep=%s' % feats['tdep'])
        res.tag('unpowered_assemblies=%d' % feats.get('unpowered_assemblies',
                                                      0))
        shared = len(ids) > len(set(names.values()))
        res.tag('clones_share_type=%s' % shared)
        if shared and rise > 5.0:
            res.nontrivial(repr((feats['types'], len(ids), feats['tdep'],
                                 case['seed'][-1])))
        res.sample({'case': case, 'features': feats})
    except drive.Rejected as e:
        res.status('rejected', str(e))
        res.tag('rejected:' + e.stage)
    return res


def classify(v, case):
    return None
