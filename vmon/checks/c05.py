"""C05 - axial mesh is finite, monotone, exact on boundaries, within limit.

Runtime monitors on the real mesh builders of dassh.reactor.Reactor:

  _setup_axial_region_bnds   merged boundaries as published
  _setup_overall_axial_mesh_req   step actually chosen / request / limits
  _setup_zpts                planes and steps as returned
  _check_dz                  progress invariant at every call (a non-positive
                             step or a plane that does not advance is a
                             deterministic witness of non-termination: the
                             hook raises NoProgress, no timeout involved)
  assembly.calculate_min_dz, core.calculate_min_dz   every stability
                             requirement as returned (not only the ones the
                             Reactor chose to store)

Workloads: (a) generated input files (single assemblies and small cores) whose
region / power-mesh / requested-plane boundaries are pushed 1e-13 .. 1e-6 m
apart, rendered in m, cm, mm, in, ft; (b) the same real methods driven on a
Reactor shell (object.__new__) with injected step requirements from 1e-8 m to
0.2 m on short cores; (c) a fixed grid over the named stress sub-space.
"""
import os
import math
import copy
import numpy as np
from vmon import gen, drive, workloads as wl, env
from vmon.harness import Result
from vmon.probe import Hooks

dassh = env.import_dassh()
from dassh.reactor import Reactor              # noqa: E402
from dassh.logged_class import LoggedClass     # noqa: E402
import dassh.assembly as d_assembly            # noqa: E402
import dassh.core as d_core                    # noqa: E402

PROPERTY = 'C05'
LEVEL = 'exploration'
TECHNIQUE = ('runtime monitoring: progress invariant at wrapper hooks on '
             'Reactor._check_dz, post-conditions on the planes/steps returned '
             'by the real _setup_zpts against independently derived '
             'boundaries and the stability requirements captured at '
             'calculate_min_dz; metamorphic pairs for requested step sizes')
LEVEL_TEXT = ('Every mesh built from generated inputs (real input files in '
              'five length units, Reactor shells with injected requirements, '
              'a fixed grid of near-coincident boundary configurations) is '
              'checked plane by plane; held on the executions observed, not '
              'proved.')
LEVEL_NOTE = ('Trusts numpy float64 arithmetic and the exact metric '
              'definitions of cm/mm/in/ft; the stability requirements '
              'themselves are taken as returned by calculate_min_dz (their '
              'correctness is C04).')
DESIGN_REF = 'DESIGN.md section 3, C05'
RULE = ('(a) random single assemblies / 7-position cores with 0-4 unrodded '
        'regions, 1-5 power cells, 0-6 requested planes; one boundary of one '
        'source (region cut, power-mesh bound incl. its top, requested '
        'plane, other assembly type, other assembly power mesh) is moved to '
        'within d of a boundary of another source, d in {1e-13 .. 1e-6} m, '
        'both signs; length unit in {m, cm, mm, in, ft}; every built reactor '
        'is re-meshed by its own real methods for requests below / equal / '
        'above the limit (and inside the 1e-6 floor band, not asserted), '
        '35 % also through the input file; plus inputs with a vanishing gap '
        'flow, axial_mesh_size = 0 and 1e-13; (b) shells: smallest step '
        'requirement log-uniform 1e-8..0.2 m (20 % within 0.4-4 um), core '
        'length chosen so that <= 2e4 (quick) / 2e5 (thorough) steps result, '
        '0-8 boundary clusters spread over power meshes, region lists (not '
        'necessarily tiling) and planes, requests none / below / equal / '
        'above / floor band / sub-micrometre / zero / below plane rounding; '
        '(c) grid: every d x sign x ordered source pair x request kind. A '
        'case is non-trivial when a mesh of >= 10 steps with >= 1 interior '
        'boundary was checked; distinct by (kind, unit, stress, d, #bounds)')
RULE += (' Later rounds added kinds timepoints (one Reactor per time point from one parsed input, power files with different meshes) and arcuser (binary-flux power plus a user power file).')
DECIDING = ['M0_progress_every_call', 'M1_starts_at_zero',
            'M2_ends_at_core_length', 'M3_strictly_increasing',
            'M4_boundary_is_plane', 'M5_step_within_limit',
            'M6_request_honoured', 'M6b_request_ignored']
CASE_TIMEOUT = {'quick': 150, 'thorough': 900}
BUDGET = {'quick': 600, 'thorough': 3000}
EXHAUSTIVE = {'quick': False, 'thorough': False}
ASSUMPTIONS = ['numpy float64 arithmetic',
               '1 in = 0.0254 m, 1 ft = 0.3048 m exactly',
               'stability requirements as returned by calculate_min_dz '
               '(checked under C04)']

LEN = {'m': 1.0, 'cm': 0.01, 'mm': 0.001, 'in': 0.0254, 'ft': 0.3048}
DELTAS = [1e-13, 4e-13, 6e-13, 1e-12, 1.4e-12, 3e-12, 1e-11, 1e-10, 1e-9,
          1e-8, 1e-7, 1e-6]
# planes are published rounded to 1e-12 m (documented in reactor.py)
PLANE_TOL = 5.1e-13
ABSURD_CALLS = 6000000
CALL_BUDGET = 1600000      # steps followed per mesh before giving up


class TooLong(Exception):
    """More steps than this check is willing to follow (no verdict)."""


class NoProgress(Exception):
    def __init__(self, why, info):
        Exception.__init__(self, why)
        self.why = why
        self.info = info


# ----------------------------------------------------------------------
# hooks


class MeshMonitor(object):
    """Observes one or more mesh constructions of real Reactor methods."""

    def __init__(self, hk):
        self.hk = hk
        self.reset()
        hk.wrap(Reactor, '_setup_axial_region_bnds', post=self._bnds_post)
        hk.wrap(Reactor, '_setup_overall_axial_mesh_req',
                post=self._req_post)
        hk.wrap(Reactor, '_setup_zpts', pre=self._zpts_pre,
                post=self._zpts_post)
        hk.wrap(Reactor, '_check_dz', post=self._check_post)
        hk.wrap(d_assembly, 'calculate_min_dz', post=self._asm_lim_post)
        hk.wrap(d_core, 'calculate_min_dz', post=self._core_lim_post)

    def reset(self):
        self.bnds = None
        self.core_length = None
        self.req_dz = None
        self.request = None
        self.stored_lims = None
        self.asm_lims = {}
        self.core_lim = None
        self.z = None
        self.dz = None
        self.calls = 0
        self.cross = 0
        self.last_z = None
        self.max_calls = ABSURD_CALLS
        self.n_bnds_hook = 0
        self.n_req_hook = 0
        self.n_zpts_hook = 0

    # -- boundary merge ---------------------------------------------------
    def _bnds_post(self, args, kw, result, tok):
        r = args[0]
        self.n_bnds_hook += 1
        self.bnds = np.array(r.axial_bnds, dtype=float, copy=True)
        self.core_length = float(r.core_length)

    # -- step choice --------------------------------------------------------
    def _req_post(self, args, kw, result, tok):
        r = args[0]
        self.n_req_hook += 1
        self.req_dz = r.req_dz
        self.request = r._options['axial_mesh_size']
        self.stored_lims = [float(x) for x in r.min_dz['dz']]

    def _asm_lim_post(self, args, kw, result, tok):
        asm = args[0]
        # a second call for the same assembly (low-flow convection
        # approximation switched on) supersedes the first
        self.asm_lims[getattr(asm, 'id', id(asm))] = float(result[0])

    def _core_lim_post(self, args, kw, result, tok):
        if result[0] is not None:
            self.core_lim = float(result[0])

    # -- march ----------------------------------------------------------------
    def _zpts_pre(self, args, kw):
        r = args[0]
        self.calls = 0
        self.cross = 0
        self.last_z = None
        self.z = None
        self.dz = None
        self._b = np.asarray(r.axial_bnds, dtype=float)
        try:
            q = float(r.req_dz)
            if q > 0:
                self.max_calls = min(ABSURD_CALLS, int(
                    float(r.core_length) / max(q - 1e-12, 0.5 * q))
                    + len(self._b) + 16)
            else:
                self.max_calls = 64
        except Exception:
            self.max_calls = 64
        return None

    def _zpts_post(self, args, kw, result, tok):
        self.n_zpts_hook += 1
        self.z = np.array(result[0], dtype=float, copy=True)
        self.dz = np.array(result[1], dtype=float, copy=True)

    def _check_post(self, args, kw, step, tok):
        r, z = args[0], args[1]
        self.calls += 1
        if not (step > 0.0) or step == float('inf'):
            raise NoProgress('non_positive_step', self._info(r, z, step))
        lz = self.last_z
        if lz is not None and not (z > lz):
            raise NoProgress('plane_not_advancing', self._info(r, z, step))
        self.last_z = z
        b = self._b
        j = int(np.searchsorted(b, z + PLANE_TOL, side='right'))
        if j < len(b) and (z + step) - b[j] > PLANE_TOL:
            self.cross += 1
        if self.calls > self.max_calls:
            raise NoProgress('more_calls_than_steps_possible',
                             self._info(r, z, step))
        if self.calls > CALL_BUDGET:
            raise TooLong('%d calls of _check_dz, z = %r of %r'
                          % (self.calls, z, float(r.core_length)))

    def _info(self, r, z, step):
        try:
            lims = [float(x) for x in r.min_dz['dz']]
        except Exception:
            lims = []
        return {'z': float(z), 'step': float(step),
                'req_dz': float(r.req_dz),
                'request': r._options.get('axial_mesh_size'),
                'min_dz': lims, 'calls': self.calls,
                'core_length': float(r.core_length)}


def mechanism(info, why):
    """Name the mechanism of a non-progress witness from the observed state."""
    req = info['req_dz']
    q = info['request']
    lims = [x for x in info['min_dz'] if x == x]
    m = min(lims) if lims else float('nan')
    if req != req:
        return {'mech': 'req_dz_nan'}
    if req < 0:
        return {'mech': 'req_dz_negative'}
    if req == 0.0:
        if q is not None and q == 0.0:
            return {'mech': 'req_dz_floors_to_zero',
                    'via': 'axial_mesh_size_zero'}
        if 0.0 <= m < 1e-6:
            return {'mech': 'req_dz_floors_to_zero',
                    'via': 'requirement_below_1e-6'}
        return {'mech': 'req_dz_zero_other'}
    if float(np.around(req, 12)) == 0.0 or req < 1e-12:
        return {'mech': 'step_lost_in_plane_rounding'}
    return {'mech': why}


# ----------------------------------------------------------------------
# oracle on the published mesh


def floor6(x):
    return math.floor(x * 1e6) / 1e6


def oracle(res, key, mon, expected, L_in, request_kind, q_expect=None,
           z_default=None, first=True):
    """expected: list of (source, value in m) derived from the input;
    L_in: core length of the input (m); request_kind in
    none|below|equal|above|band ; q_expect the request (m)."""
    z, dz = mon.z, mon.dz
    b = mon.bnds
    lims = list(mon.asm_lims.values())
    if mon.core_lim is not None:
        lims.append(mon.core_lim)
    lims += list(mon.stored_lims or [])
    lim = min(lims)
    res.count('M0_progress_every_call', mon.calls)
    res.check('M0b_step_never_crosses_boundary', mon.cross == 0,
              '%d step(s) returned by _check_dz reach beyond the next '
              'boundary' % mon.cross, dict(key, mech='step_crosses_boundary'))
    res.check('M9_finite', bool(np.all(np.isfinite(z)) and
                                np.all(np.isfinite(dz)) and
                                len(z) == len(dz) + 1 and len(z) >= 2),
              'planes/steps not finite or inconsistent in length',
              dict(key, mech='degenerate_mesh'),
              {'len_z': len(z), 'len_dz': len(dz)})
    if len(z) < 2 or len(z) != len(dz) + 1:
        return lim
    res.check('M1_starts_at_zero', z[0] == 0.0, 'first plane %r != 0'
              % z[0], key)
    res.check('M2_ends_at_core_length', z[-1] == mon.core_length,
              'last plane %r != Reactor.core_length %r'
              % (z[-1], mon.core_length), dict(key, mech='end_not_exact'),
              {'z_end': z[-1], 'core_length': mon.core_length})
    top = max([v for _, v in expected] + [L_in])
    if first:      # (re-meshing the same reactor cannot change the end)
        res.check('M2b_end_is_input_core_length',
                  abs(z[-1] - L_in) <= PLANE_TOL,
                  'mesh ends at %r, the input core length is %r'
                  % (float(z[-1]), L_in),
                  dict(key, mech=('core_length_from_max_boundary'
                                  if abs(z[-1] - top) <= PLANE_TOL
                                  and top - L_in > PLANE_TOL
                                  else 'end_not_core_length')),
                  {'z_end': float(z[-1]), 'L_in': L_in,
                   'beyond_m': float(z[-1] - L_in)})
    d = np.diff(z)
    res.check('M3_strictly_increasing',
              bool(np.all(d > 0.0) and np.all(dz > 0.0)),
              'planes not strictly increasing / non-positive step', key,
              {'min_diff': float(np.min(d)), 'min_dz': float(np.min(dz))})
    res.stat('min_plane_spacing_m', float(np.min(d)))
    res.close('M3b_steps_match_planes', float(np.max(np.abs(d - dz))), 1.0,
              1.01e-12, 'dz differs from the spacing of the planes', key)
    # boundaries (independent list) are planes
    for src, v in expected:
        if v < -PLANE_TOL or v > z[-1] + PLANE_TOL:
            res.count('boundary_outside_mesh')
            continue
        i = int(np.searchsorted(z, v))
        near = min(abs(z[k] - v) for k in (i - 1, i) if 0 <= k < len(z))
        res.check('M4_boundary_is_plane', near <= PLANE_TOL,
                  '%s boundary %r is not a plane (nearest %.3e away)'
                  % (src, v, near),
                  dict(key, mech='boundary_not_a_plane', src=src),
                  {'boundary': v, 'dist': near})
        res.stat('boundary_to_plane_m', near)
    inside = b[(b >= 0.0) & (b <= mon.core_length)]
    res.check('M4b_merged_bounds_exact_members', bool(np.all(np.isin(
        inside, z))), 'a member of Reactor.axial_bnds is not (bitwise) a '
        'plane', dict(key, mech='merged_bound_not_exact'),
        {'missing': [float(x) for x in inside[~np.isin(inside, z)]][:5]})
    # limit
    res.check('M5_step_within_limit',
              bool(np.max(dz) <= lim and np.max(d) <= lim + 1e-12),
              'largest step %r exceeds the smallest stability requirement '
              '%r' % (float(np.max(dz)), lim),
              dict(key, mech='step_above_limit', request=request_kind),
              {'max_dz': float(np.max(dz)), 'limit': lim,
               'stored': mon.stored_lims})
    res.stat('max_dz_over_limit', float(np.max(dz)) / lim if lim > 0
             else float('nan'))
    if request_kind in ('none', 'above'):
        res.check('M5b_default_step_within_1cm',
                  bool(np.max(dz) <= 0.01),
                  'default step %r > 0.01 m' % float(np.max(dz)),
                  dict(key, mech='cap_1cm'))
    nb = len(b)
    res.check('M8_step_count_bounded',
              len(dz) <= math.ceil(float(z[-1]) / max(
                  float(mon.req_dz) - 1e-12, 0.5 * float(mon.req_dz))) + nb,
              '%d steps for length %r, step %r, %d boundaries'
              % (len(dz), float(z[-1]), float(mon.req_dz), nb), key)
    # requests
    if request_kind in ('below', 'equal'):
        q = q_expect
        used = float(mon.req_dz)
        ok = abs(used - q) <= 1e-12 * q
        on_b = np.isin(z[1:], b)
        full = np.abs(dz - used) <= 0.0
        bad = ~full & ~((dz < used) & on_b)
        res.check('M6_request_honoured', bool(ok and not np.any(bad)),
                  'request %r (<= limit %r) not honoured: step used %r, %d '
                  'steps neither equal to it nor clipped at a boundary'
                  % (q, lim, used, int(np.sum(bad))),
                  dict(key, mech='request_not_honoured',
                       request=request_kind),
                  {'request': q, 'used': used, 'limit': lim})
    elif request_kind == 'above':
        same = (z_default is not None and len(z_default) == len(z)
                and bool(np.all(z_default == z)))
        res.check('M6b_request_ignored', same,
                  'request %r above the limit %r changed the mesh'
                  % (q_expect, lim),
                  dict(key, mech='request_above_limit_not_ignored'),
                  {'request': q_expect, 'limit': lim,
                   'used': float(mon.req_dz)})
    elif request_kind == 'band':
        res.count('request_in_floor_band_not_asserted')
    return lim


def no_progress(res, key, e, stage):
    k = dict(key)
    k.update(mechanism(e.info, e.why))
    res.check('M0_progress_every_call', False,
              'mesh construction does not advance (%s): step %r at z = %r, '
              'req_dz %r, request %r, min requirement %r'
              % (k['mech'], e.info['step'], e.info['z'], e.info['req_dz'],
                 e.info['request'],
                 min(e.info['min_dz']) if e.info['min_dz'] else None),
              k, dict(e.info, stage=stage))
    res.tag('no_progress:' + k['mech'])


# ----------------------------------------------------------------------
# (a) real inputs


def to_units(P, unit):
    """Same problem with every length given in `unit` (power CSV stays m)."""
    f = LEN[unit]
    if unit == 'm':
        return P
    Q = copy.deepcopy(P)
    Q['units'] = dict(Q.get('units') or {}, length=unit)
    Q['length'] = P['length'] / f
    Q['asm_pitch'] = P['asm_pitch'] / f
    for t in Q['types'].values():
        for k in ('pin_pitch', 'pin_diameter', 'clad_thickness',
                  'wire_pitch', 'wire_diameter'):
            if t.get(k) is not None:
                t[k] = t[k] / f
        t['duct_ftf'] = [x / f for x in t['duct_ftf']]
        for reg in t.get('AxialRegion', {}).values():
            for k in ('z_lo', 'z_hi', 'hydraulic_diameter'):
                if reg.get(k) is not None:
                    reg[k] = reg[k] / f
        for sec in ('FuelModel', 'PinModel'):
            if sec in t and t[sec].get('gap_thickness') is not None:
                t[sec]['gap_thickness'] = t[sec]['gap_thickness'] / f
        if 'SpacerGrid' in t and t['SpacerGrid'].get('axial_positions'):
            t['SpacerGrid']['axial_positions'] = [
                x / f for x in t['SpacerGrid']['axial_positions']]
    s = Q['setup']
    if s.get('axial_plane') is not None:
        s['axial_plane'] = [x / f for x in s['axial_plane']]
    for k in ('axial_mesh_size', 'conv_approx_dz_cutoff'):
        if s.get(k) is not None:
            s[k] = s[k] / f
    return Q


def expected_boundaries(Pu):
    """(source, value in m) for every boundary the input names, converted
    with the exact metric factor (independent of dassh.utils)."""
    f = LEN[(Pu.get('units') or {}).get('length', 'm')]
    L = Pu['length'] * f
    out = [('core', 0.0), ('core', L)]
    for t in Pu['types'].values():
        for reg in t.get('AxialRegion', {}).values():
            out.append(('region', reg['z_lo'] * f))
            out.append(('region', reg['z_hi'] * f))
    pw = Pu.get('power', {})
    for spec in pw.get('asm', {}).values():
        for v in spec.get('zb', pw['zb']):
            out.append(('power', float(v)))
    for v in (Pu['setup'].get('axial_plane') or []):
        out.append(('plane', v * f))
    return out, L


def _regions(rng, t, lower, upper, L):
    """Unrodded regions from explicit cut lists (exactly abutting)."""
    regs = {}
    lo = [0.0] + list(lower)
    hi = list(upper) + [L]
    for i in range(len(lower)):
        regs['lo%d' % i] = wl._ur(rng, lo[i], lo[i + 1], ('simple', '6node'))
    for i in range(len(upper)):
        regs['up%d' % i] = wl._ur(rng, hi[i], hi[i + 1], ('simple', '6node'))
    if regs:
        t['AxialRegion'] = regs
    else:
        t.pop('AxialRegion', None)


def _refresh_power_spec(rng, P):
    for k0, spec in P['power']['asm'].items():
        zb = spec.get('zb', P['power']['zb'])
        nc = len(zb) - 1
        spec['axial'] = [float(x) for x in rng.uniform(0.2, 1.5, nc)]
        spec.pop('zero_cells', None)


def stress_single(rng, P, feats):
    """Push boundaries of different sources to within d of each other."""
    L = P['length']
    t = P['types']['a']
    d = float(wl.choose(rng, DELTAS))
    sg = 1.0 if rng.random() < 0.5 else -1.0
    mode = wl.choose(rng, ['power~region', 'plane~power', 'plane~region',
                           'power_top', 'thin_power_cell', 'thin_region',
                           'region~power', 'none'])
    lf = bool(t.get('use_low_fidelity_model'))
    # regions: own cut lists (3 decimals like a user would write them)
    n_lo = int(rng.integers(0, 3))
    n_up = int(rng.integers(0, 3))
    if mode in ('power~region', 'plane~region', 'thin_region',
                'region~power') and n_lo + n_up == 0:
        n_lo = 1
    if lf:
        n_lo = n_up = 0
    cuts = [float(x) for x in np.unique(np.round(
        rng.uniform(0.08, 0.92, n_lo + n_up) * L, 3))]
    zb = [float(x) for x in P['power']['zb']]
    if mode == 'region~power' and len(zb) > 2 and cuts:
        # move a region cut next to an interior power bound
        a = zb[int(rng.integers(1, len(zb) - 1))]
        cuts[int(rng.integers(len(cuts)))] = a + sg * d
        cuts = sorted(set(cuts))
    # keep distinct regions at least 1 % of the core apart
    kept = []
    for c in cuts:
        if not kept or c - kept[-1] > 0.01 * L:
            kept.append(c)
    cuts = kept
    n_lo = min(n_lo, len(cuts))
    lower = cuts[:n_lo]
    upper = cuts[n_lo:]
    if mode == 'thin_region' and cuts and d >= 1e-9:
        if lower:
            lower = lower + [lower[-1] + d]
        else:
            upper = [upper[0] - d] + upper
    if not lf:
        _regions(rng, t, lower, upper, L)
    rb = lower + upper
    if mode == 'power~region' and rb:
        a = rb[int(rng.integers(len(rb)))]
        zb = sorted(set(zb + [a + sg * d]))
    elif mode == 'thin_power_cell' and d >= 1e-9:
        a = zb[int(rng.integers(1, len(zb)))] if len(zb) > 2 else 0.5 * L
        if 0 < a - d:
            zb = sorted(set(zb + [a - d]))
    elif mode == 'power_top':
        dd = min(d, 4e-7)
        zb[-1] = L + sg * dd
    zb = [v for v in zb if v >= 0.0]
    P['power']['zb'] = zb
    _refresh_power_spec(rng, P)
    # requested planes
    planes = []
    anchors = {'plane~power': zb[1:-1] or [0.5 * L],
               'plane~region': rb or [0.5 * L]}.get(mode, [])
    for a in anchors:
        planes.append(a + sg * d)
        if rng.random() < 0.3:
            planes.append(a - sg * d)
    for _ in range(int(rng.integers(0, 4))):
        planes.append(float(np.round(rng.uniform(0, L), int(
            rng.integers(2, 14)))))
    if rng.random() < 0.15:
        planes.append(0.0)
    if rng.random() < 0.15:
        planes.append(L)
    if planes and rng.random() < 0.2:
        planes.append(planes[0])
    planes = [float(min(max(p, 0.0), L)) for p in planes]
    if planes:
        P['setup']['axial_plane'] = planes
    feats.update({'stress': mode, 'd': d, 'sign': sg,
                  'n_regions': len(rb), 'n_planes': len(planes),
                  'n_pcells': len(zb) - 1})
    return P


def stress_core(rng, P, feats):
    L = P['length']
    d = float(wl.choose(rng, DELTAS))
    sg = 1.0 if rng.random() < 0.5 else -1.0
    names = sorted(P['types'])
    mode = wl.choose(rng, ['type~type', 'asmpower~asmpower', 'plane~region',
                           'none'])
    base_cuts = None
    for nm in names:
        t = P['types'][nm]
        if t.get('use_low_fidelity_model'):
            t.pop('AxialRegion', None)
            continue
        if base_cuts is None:
            n_lo = int(rng.integers(0, 3))
            n_up = int(rng.integers(0, 2))
            if mode in ('type~type', 'plane~region') and n_lo + n_up == 0:
                n_lo = 1
            cuts = np.unique(np.round(rng.uniform(0.1, 0.9, n_lo + n_up)
                                      * L, 3))
            if len(cuts) < n_lo + n_up:
                n_lo, n_up = len(cuts), 0
            base_cuts = ([float(x) for x in cuts[:n_lo]],
                         [float(x) for x in cuts[n_lo:n_lo + n_up]])
            _regions(rng, t, base_cuts[0], base_cuts[1], L)
        elif mode == 'type~type':
            _regions(rng, t, [c + sg * d for c in base_cuts[0]],
                     [c - sg * d for c in base_cuts[1]], L)
        elif rng.random() < 0.5:
            _regions(rng, t, base_cuts[0], base_cuts[1], L)
        else:
            t.pop('AxialRegion', None)
    zb = [float(x) for x in P['power']['zb']]
    if mode == 'asmpower~asmpower':
        if len(zb) == 2:
            zb = [0.0, float(np.round(rng.uniform(0.2, 0.8) * L, 3)), L]
            P['power']['zb'] = zb
        for k0, spec in P['power']['asm'].items():
            if rng.random() < 0.5:
                spec['zb'] = [zb[0]] + [v + sg * d for v in zb[1:-1]] \
                    + [zb[-1]]
    _refresh_power_spec(rng, P)
    planes = []
    rb = (base_cuts[0] + base_cuts[1]) if base_cuts else []
    if mode == 'plane~region':
        for a in rb or [0.5 * L]:
            planes.append(min(max(a + sg * d, 0.0), L))
    for _ in range(int(rng.integers(0, 3))):
        planes.append(float(np.round(rng.uniform(0, L), 6)))
    if planes:
        P['setup']['axial_plane'] = planes
    feats.update({'stress': mode, 'd': d, 'sign': sg, 'n_regions': len(rb),
                  'n_planes': len(planes), 'n_pcells': len(zb) - 1})
    return P


def build_real_problem(case):
    rng = np.random.default_rng(case['seed'])
    if case['kind'] == 'single':
        P, feats = wl.single_assembly(
            rng, max_rings=4, regions=False,
            vel=wl.loguniform(rng, 0.03, 8.0),
            length=float(wl.choose(rng, [0.3, 0.5, 1.0, 2.0, 3.7])))
        if P['gap_model'] == 'flow':
            P['bypass_fraction'] = wl.loguniform(rng, 0.01, 0.1)
        stress_single(rng, P, feats)
    else:
        P, feats = wl.core_problem(rng, n_ring=2, regions_frac=0.0,
                                   gap=wl.choose(rng, ['flow', 'none',
                                                       'no_flow',
                                                       'duct_average']),
                                   max_rings=3, empty_frac=0.2,
                                   vel_range=(0.03, 6.0), shared_flow=0.5,
                                   tdep=(rng.random() < 0.5),
                                   coolant_pool=True)
        stress_core(rng, P, feats)
    unit = wl.choose(rng, ['m', 'm', 'cm', 'in', 'ft', 'mm'])
    feats['unit'] = unit
    if case.get('f4'):
        feats['f4'] = case['f4']
    if case.get('f4') == 'tiny_bypass':
        P['gap_model'] = 'flow'
        P['bypass_fraction'] = float(wl.choose(rng, [1e-7, 1e-8, 1e-9]))
    elif case.get('f4') == 'zero_request':
        P['setup']['axial_mesh_size'] = 0.0
    elif case.get('f4') == 'request_1e-13':
        P['setup']['axial_mesh_size'] = 1e-13
    return P, feats, unit, rng


def remesh(r, q):
    """Mesh the already built real reactor again for request q with its own
    (real, hooked) methods."""
    r._options['axial_mesh_size'] = q
    env.log_records()
    try:
        with drive.quiet():
            r._setup_overall_axial_mesh_req()
            r._setup_zpts()
    except SystemExit:
        raise drive.Rejected('setup', env.log_records())


def run_real(case, res):
    P, feats, unit, rng = build_real_problem(case)
    Pu = to_units(P, unit)
    expected, L_in = expected_boundaries(Pu)
    key = {'kind': case['kind'], 'unit': unit, 'stress': feats['stress'],
           'd': feats['d']}
    res.tag('unit=' + unit)
    res.tag('stress=' + feats['stress'])
    res.tag('d=%g' % feats['d'])
    res.tag('gap=' + str(feats.get('gap')))
    expect_f4 = case.get('f4')
    with drive.scratch() as wd, Hooks() as hk:
        mon = MeshMonitor(hk)
        try:
            inp, r = drive.build(Pu, wd)
        except NoProgress as e:
            no_progress(res, key, e, 'construction')
            res.sample({'case': case, 'features': feats,
                        'witness': e.info})
            return
        except drive.Rejected as e:
            res.status('rejected', str(e))
            res.tag('rejected:' + e.stage)
            if expect_f4 and mon.n_req_hook:
                # an error exit instead of a hang is what the property asks
                res.check('M7_error_exit_instead_of_hang', True, '')
            return
        res.check('M7_hooks_all_reached',
                  mon.n_bnds_hook == 1 and mon.n_req_hook == 1
                  and mon.n_zpts_hook == 1 and mon.calls == len(mon.dz),
                  'hook counts %r' % ((mon.n_bnds_hook, mon.n_req_hook,
                                       mon.n_zpts_hook, mon.calls),), key)
        res.check('M7_published_state_is_hook_state',
                  bool(np.array_equal(r.z, mon.z)
                       and np.array_equal(r.dz, mon.dz)
                       and np.array_equal(r.axial_bnds, mon.bnds)),
                  'Reactor.z/dz/axial_bnds differ from what the builders '
                  'returned', key)
        n_asm = len(r.assemblies)
        res.check('M7_every_requirement_stored',
                  len(mon.asm_lims) == n_asm and
                  sorted(mon.stored_lims) == sorted(
                      list(mon.asm_lims.values()) +
                      ([mon.core_lim] if mon.core_lim is not None else [])),
                  'Reactor.min_dz does not hold exactly the requirements '
                  'returned by calculate_min_dz',
                  dict(key, mech='requirement_dropped'),
                  {'stored': mon.stored_lims,
                   'asm': list(mon.asm_lims.values()),
                   'core': mon.core_lim})
        # every stored requirement is the one DASSH's own limit function
        # gives for that assembly with the reactor's boundary treatment
        # (adiabatic or coupled outer wall), re-run here on the live model
        with drive.quiet():
            for ai, a in enumerate(r.assemblies):
                own = float(d_assembly.calculate_min_dz(
                    a, r.inlet_temp, a._estimated_T_out,
                    r._is_adiabatic)[0])
                res.close('M5c_stored_requirement_is_own_limit',
                          float(r.min_dz['dz'][ai]) - own, own, 1e-10,
                          'requirement stored for assembly %d (%.6e) is not '
                          'its own limit with the reactor\'s outer-wall '
                          'treatment (%.6e)' % (ai, float(r.min_dz['dz'][ai]),
                                                own),
                          dict(key, mech='requirement_not_own_limit',
                               conv_approx=bool(getattr(
                                   a.active_region, '_conv_approx', False))))
        q_in = Pu['setup'].get('axial_mesh_size')
        kind0 = 'none'
        if q_in is not None:
            q_in = q_in * LEN[unit]
            kind0 = 'below'      # only used by the f4 witnesses (q = 1e-13)
        lim = oracle(res, key, mon, expected, L_in, kind0, q_in)
        z0 = mon.z.copy()
        n0 = len(mon.dz)
        res.stat('n_steps', n0)
        res.stat('limit_m', lim)
        res.tag('limiting:' + ('gap' if (mon.core_lim is not None and
                                         mon.core_lim <= lim) else 'asm'))
        res.tag('default_step:' + ('cap_1cm' if lim > 0.01 else 'limit'))
        interior = [v for _, v in expected
                    if PLANE_TOL < v < L_in - PLANE_TOL]
        # ---- requested step sizes on the real reactor -------------------
        if q_in is None and lim > 2e-6 and n0 <= 250000:
            fl = floor6(lim)
            reqs = [('below', fl * float(rng.uniform(0.3, 0.98))),
                    ('equal', float(mon.req_dz)),
                    ('above', lim * float(rng.uniform(1.001, 3.0))),
                    ('above', lim * 40.0)]
            if fl > 0.01:
                reqs.append(('below', fl * 0.999))   # honoured above 1 cm
            if n0 <= 20000:
                reqs.append(('below', fl * float(rng.uniform(0.04, 0.3))))
            if lim - fl > 1e-9:
                reqs.append(('band', 0.5 * (lim + fl)))
            for kind, q in reqs:
                mon.z = mon.dz = None
                try:
                    remesh(r, q)
                except NoProgress as e:
                    no_progress(res, dict(key, request=kind), e, 'remesh')
                    continue
                except drive.Rejected as e:
                    res.check('M6d_request_does_not_reject', False,
                              'reactor built without a request exits with '
                              'an error for axial_mesh_size=%r: %s' % (q, e),
                              dict(key, mech='request_rejected',
                                   request=kind))
                    continue
                res.tag('request=' + kind)
                oracle(res, dict(key, request=kind), mon, expected, L_in,
                       kind, q, z_default=z0, first=False)
            remesh(r, None)
            res.check('M6c_remesh_reproduces_default',
                      bool(np.array_equal(mon.z, z0)),
                      'meshing twice without a request gives different '
                      'planes', key)
        if len(interior) >= 1 and n0 >= 10:
            res.nontrivial('%s/%s/%s/%g/b%d' % (
                case['kind'], unit, feats['stress'], feats['d'],
                min(len(interior), 6)))
        res.sample({'case': case, 'features': feats, 'n_steps': n0,
                    'limit': lim, 'bounds': [float(x) for x in mon.bnds]})
    # ---- a request through the input file (unit conversion path) -----------
    if q_in is None and lim > 2e-6 and n0 <= 250000 and rng.random() < 0.35:
        kind = wl.choose(rng, ['below', 'above'])
        q = floor6(lim) * float(rng.uniform(0.3, 0.95)) if kind == 'below' \
            else lim * float(rng.uniform(1.05, 5.0))
        Pq = copy.deepcopy(Pu)
        Pq['setup']['axial_mesh_size'] = q / LEN[unit]
        with drive.scratch() as wd, Hooks() as hk:
            mon = MeshMonitor(hk)
            try:
                inp, r = drive.build(Pq, wd)
            except NoProgress as e:
                no_progress(res, dict(key, request=kind), e, 'construction')
                return
            except drive.Rejected as e:
                res.tag('rejected_with_request:' + e.stage)
                res.check('M6d_request_does_not_reject', False,
                          'input accepted without a request is rejected '
                          'with axial_mesh_size=%r: %s' % (q, e),
                          dict(key, mech='request_rejected'))
                return
            res.tag('request_via_input=' + kind)
            oracle(res, dict(key, request=kind, via='input'), mon, expected,
                   L_in, kind, q, z_default=z0, first=False)


# ----------------------------------------------------------------------
# (b) the real methods on a Reactor shell


class _FakeInput(object):
    """What the boundary merge reads from a DASSH_Input (plus the core
    length and the [Setup] requests, in case a repaired version reads
    them from the input)."""

    def __init__(self, regions, cfg):
        self.data = {'Assembly': regions,
                     'Core': {'length': cfg['L']},
                     'Setup': {'axial_plane': (list(cfg['planes'])
                                               if cfg['planes'] else None),
                               'axial_mesh_size': cfg['request']}}


def make_shell(cfg):
    """object.__new__(Reactor) with the state the mesh builders read."""
    r = object.__new__(Reactor)
    LoggedClass.__init__(r, 0, 'dassh.reactor.Reactor')
    r._options = {'axial_mesh_size': cfg['request'],
                  'axial_plane': (list(cfg['planes']) if cfg['planes']
                                  else None)}
    # user power meshes are held in cm (power._from_file multiplies by 100)
    r.power = {'user': [(i + 1, {'zfm': np.array(zb, dtype=float) * 100.0})
                        for i, zb in enumerate(cfg['power'])]}
    regs = {}
    for i, pairs in enumerate(cfg['regions']):
        regs['t%d' % i] = {'AxialRegion': {
            'r%d' % j: {'z_lo': lo, 'z_hi': hi}
            for j, (lo, hi) in enumerate(pairs)}}
    inp = _FakeInput(regs, cfg)
    r.min_dz = {'dz': list(cfg['min_dz']), 'sc': ['x'] * len(cfg['min_dz'])}
    return r, inp


def shell_expected(cfg):
    out = [('core', 0.0), ('core', cfg['L'])]
    for zb in cfg['power']:
        out += [('power', float(v)) for v in zb]
    for pairs in cfg['regions']:
        for lo, hi in pairs:
            out += [('region', float(lo)), ('region', float(hi))]
    out += [('plane', float(v)) for v in cfg['planes']]
    return out


def run_shell_cfg(res, cfg, key):
    expected = shell_expected(cfg)
    L = cfg['L']
    kind = cfg['request_kind']
    with Hooks() as hk:
        mon = MeshMonitor(hk)

        def mesh(q):
            r, inp = make_shell(dict(cfg, request=q))
            env.log_records()
            with drive.quiet():
                r._setup_axial_region_bnds(inp)
                r._setup_overall_axial_mesh_req()
                r._setup_zpts()
            return r
        try:
            z0 = None
            if kind == 'above':
                mesh(None)
                z0 = mon.z.copy()
                mon.reset()
            mesh(cfg['request'])
        except NoProgress as e:
            no_progress(res, key, e, 'shell')
            return False
        except SystemExit:
            res.tag('shell_error_exit')
            res.check('M7_error_exit_instead_of_hang', True, '')
            return False
        kk = kind if kind in ('none', 'below', 'equal', 'above', 'band') \
            else 'below'
        oracle(res, key, mon, expected, L, kk, cfg['request'], z_default=z0)
        res.tag('request=' + kind)
        res.stat('n_steps', len(mon.dz))
        return len(mon.dz) >= 10 and len(mon.bnds) > 2


def random_shell_cfg(rng, nmax):
    n_lim = int(rng.integers(1, 5))
    m = wl.loguniform(rng, 1e-8, 0.2)
    if rng.random() < 0.2:      # just around the micrometre
        m = wl.loguniform(rng, 0.4e-6, 4e-6)
    lims = [m] + [min(1.0, m * wl.loguniform(rng, 1.0, 1e3))
                  for _ in range(n_lim - 1)]
    lims = [lims[i] for i in rng.permutation(n_lim)]
    m = min(lims)
    fl = floor6(m)
    step = min(fl, 0.01)
    rk = wl.choose(rng, ['none', 'none', 'below', 'below', 'equal', 'above',
                         'above', 'band', 'submicron', 'zero',
                         'below_rounding'])
    q = None
    eff = step
    if rk == 'below' and fl > 0:
        q = fl * float(rng.uniform(0.02, 0.999))
        eff = q
    elif rk == 'equal' and fl > 0:
        q = fl
        eff = q
    elif rk == 'above':
        q = m * float(wl.choose(rng, [1.0 + 1e-9, 1.01, 2.0, 50.0]))
    elif rk == 'band' and m - fl > 1e-12 and fl > 0:
        q = fl + (m - fl) * float(rng.uniform(0.1, 0.9))
    elif rk == 'submicron' and fl > 0:
        q = min(wl.loguniform(rng, 2e-9, 1e-6), fl)
        eff = q
        rk = 'below'
    elif rk == 'zero':
        q = 0.0
    elif rk == 'below_rounding':
        q = float(wl.choose(rng, [1e-13, 4e-13, 1e-15]))
    else:
        rk = 'none'
    if eff > 0:
        L = wl.loguniform(rng, 12 * eff, min(4.0, nmax * eff))
    else:
        L = wl.loguniform(rng, 1e-4, nmax * 1e-6)
    if rng.random() < 0.5:
        L = float(np.round(L, int(rng.integers(3, 12))))
        if L <= 0:
            L = 0.001
    # boundary clusters
    power = [[0.0, L]]
    if rng.random() < 0.3:
        power.append([0.0, L])
    regions = [[]]
    if rng.random() < 0.4:
        regions.append([])
    planes = []
    n_cl = int(rng.integers(0, 9))
    anchors = []
    for _ in range(n_cl):
        a = float(rng.uniform(0.02, 0.98) * L)
        if rng.random() < 0.5:
            a = float(np.round(a, int(rng.integers(3, 13))))
        if not (0 < a < L):
            continue
        pts = [a]
        for _ in range(int(rng.integers(0, 3))):
            d = float(wl.choose(rng, DELTAS))
            v = a + (d if rng.random() < 0.5 else -d)
            if 0 < v < L:
                pts.append(v)
        for v in pts:
            src = int(rng.integers(3))
            if src == 0:
                power[int(rng.integers(len(power)))].append(v)
            elif src == 1:
                anchors.append((int(rng.integers(len(regions))), v))
            else:
                planes.append(v)
    power = [sorted(set(zb)) for zb in power]
    for i in range(len(regions)):
        cuts = sorted(set([0.0, L] + [v for j, v in anchors if j == i]))
        regions[i] = [(cuts[k], cuts[k + 1]) for k in range(len(cuts) - 1)]
        # a list need not tile the core (the rodded zone is implicit in a
        # user's input): some cuts then occur only as z_lo or only as z_hi
        if len(regions[i]) > 1:
            keep = [pr for pr in regions[i] if rng.random() < 0.7]
            regions[i] = keep
    if rng.random() < 0.1:
        planes += [0.0, L]
    return {'L': L, 'min_dz': lims, 'request': q, 'request_kind': rk,
            'power': power, 'regions': regions, 'planes': planes}


def run_shell(case, res):
    nmax = case['nmax']
    good = 0
    dset = set()
    for j in range(case['n']):
        rng = np.random.default_rng(case['seed'] + [j])
        cfg = random_shell_cfg(rng, nmax)
        m = min(cfg['min_dz'])
        band = ('<1e-6' if m < 1e-6 else '<1e-4' if m < 1e-4 else
                '<1e-2' if m < 1e-2 else '>=1e-2')
        res.tag('requirement' + band)
        key = {'kind': 'shell', 'request': cfg['request_kind'],
               'requirement': band}
        if run_shell_cfg(res, cfg, key):
            good += 1
            dset.add((cfg['request_kind'], band))
    if good:
        res.nontrivial('shell/%s/%s' % (case['name'], sorted(dset)))
    res.sample({'case': case, 'last_cfg': cfg})


# ----------------------------------------------------------------------
# (c) fixed grid over the named stress sub-space (shell)

SRC = ['power', 'region', 'plane']
GRID_REQ = ['none', 'below', 'equal', 'above', 'submicron']


def grid_cfg(d, sg, s1, s2, rk, anchor, lim):
    L = 0.05
    fl = floor6(lim)
    q = {'none': None, 'below': fl * 0.37, 'equal': fl,
         'above': lim * 1.7, 'submicron': 7e-7}[rk]
    if rk == 'submicron':
        L = 0.003
        anchor = anchor * 0.06
    power = [[0.0, L]]
    regions = []
    planes = []
    # first of the pair: only as an upper bound (z_hi); second: only as a
    # lower bound (z_lo) of a region of another assembly type
    for s, v, pair in ((s1, anchor, (0.0, anchor)),
                       (s2, anchor + sg * d, (anchor + sg * d, L))):
        if s == 'power':
            power[0].append(v)
        elif s == 'region':
            regions.append([pair])
        else:
            planes.append(v)
    if s1 == s2 == 'power':
        power.append([0.0, anchor + sg * d, L])
        power[0] = [0.0, anchor, L]
    return {'L': L, 'min_dz': [lim, 0.3], 'request': q,
            'request_kind': 'below' if rk == 'submicron' else rk,
            'power': [sorted(set(zb)) for zb in power], 'regions': regions,
            'planes': planes}


def run_grid(case, res):
    d = case['d']
    good = 0
    for sg in (1.0, -1.0):
        for s1 in SRC:
            for s2 in SRC:
                for rk in GRID_REQ:
                    for anchor, lim in case['points']:
                        cfg = grid_cfg(d, sg, s1, s2, rk, anchor, lim)
                        key = {'kind': 'grid', 'd': d, 'pair': s1 + '~' + s2,
                               'request': rk}
                        res.tag('grid_pair=%s~%s' % (s1, s2))
                        if run_shell_cfg(res, cfg, key):
                            good += 1
    if good:
        res.nontrivial('grid/d=%g' % d)
    res.sample({'case': case})


# ----------------------------------------------------------------------


def cases(tier, seed):
    quick = (tier == 'quick')
    out = []
    for i in range(110 if quick else 900):
        out.append({'name': 'single-%d' % i, 'kind': 'single',
                    'seed': [seed, 1, i]})
    for i in range(12 if quick else 120):
        out.append({'name': 'core-%d' % i, 'kind': 'core',
                    'seed': [seed, 2, i]})
    # F4 witnesses through real inputs
    for i, f4 in enumerate(['tiny_bypass', 'zero_request', 'request_1e-13',
                            'tiny_bypass'] * (1 if quick else 4)):
        out.append({'name': 'f4-%d' % i, 'kind': 'single', 'f4': f4,
                    'seed': [seed, 3, i]})
    for i in range(40 if quick else 400):
        out.append({'name': 'shell-%d' % i, 'kind': 'shell', 'n': 12,
                    'nmax': 20000 if quick else 200000,
                    'seed': [seed, 4, i]})
    for i in range(10 if quick else 150):
        # several time points (power files with different axial meshes),
        # one model per time point built from the same parsed input
        out.append({'name': 'timepoints-%d' % i, 'kind': 'timepoints',
                    'seed': [seed, 6, i]})
    for i in range(3 if quick else 24):
        # power from the binary flux files with a user power file on top
        # of it (the user file has its own axial mesh)
        out.append({'name': 'arcuser-%d' % i, 'kind': 'arcuser',
                    'seed': [seed, 7, i]})
    rng = np.random.default_rng([seed, 5])
    npt = 2 if quick else 8
    for d in DELTAS:
        pts = [(float(rng.uniform(0.004, 0.046)),
                wl.loguniform(rng, 3e-5, 0.03)) for _ in range(npt)]
        # one anchor on the 1e-12 grid, one with all digits
        pts[0] = (float(np.round(pts[0][0], 4)), pts[0][1])
        out.append({'name': 'grid-%g' % d, 'kind': 'grid', 'd': d,
                    'points': pts, 'seed': [seed, 5]})
    return out


def run_timepoints(case, res):
    """One parsed input, two or three time points whose power files have
    different axial meshes, one Reactor per time point (in a random order):
    the planes of every model contain the power-mesh boundaries of ITS time
    point."""
    rng = np.random.default_rng(case['seed'])
    sub = dict(case, kind=('single' if rng.random() < 0.6 else 'core'))
    P, feats, unit, rng = build_real_problem(sub)
    P['setup'].pop('axial_mesh_size', None)
    Pu = to_units(P, unit)
    n_tp = int(rng.integers(2, 4))
    key = {'kind': 'timepoints', 'unit': unit, 'stress': feats['stress'],
           'd': feats['d']}
    res.tag('unit=' + unit)
    with drive.scratch() as wd:
        path = gen.render(Pu, wd)
        variants = [Pu]
        names = ['power.csv']
        for i in range(1, n_tp):
            Qi = copy.deepcopy(Pu)
            L = P['length']
            inner = sorted(set(float(x) for x in np.round(
                rng.uniform(0.05, 0.95, int(rng.integers(1, 5))) * L, 4)))
            Qi['power']['zb'] = [0.0] + inner + [L]
            for sp in Qi['power']['asm'].values():
                sp.pop('zb', None)
                sp['axial'] = [1.0] * (len(Qi['power']['zb']) - 1)
                sp['zero_cells'] = []
                sp['zero_pin_cells'] = []
            nm = 'power_tp%d.csv' % (i + 1)
            gen.write_power_csv(Qi, os.path.join(wd, nm))
            names.append(nm)
            variants.append(Qi)
        txt = open(path).read().replace('user_power = power.csv',
                                        'user_power = ' + ', '.join(names))
        open(path, 'w').write(txt)
        try:
            inp = drive.read_input(path)
        except drive.Rejected as e:
            res.status('rejected', str(e))
            res.tag('rejected:' + e.stage)
            return
        order = [int(x) for x in rng.permutation(n_tp)]
        if rng.random() < 0.5:
            order = list(range(n_tp))        # the order of a serial run
        for t in order:
            expected, L_in = expected_boundaries(variants[t])
            with Hooks() as hk:
                mon = MeshMonitor(hk)
                try:
                    r = drive.build_reactor(
                        inp, timestep=t,
                        path=os.path.join(wd, 'tp%d' % (t + 1)))
                except NoProgress as e:
                    no_progress(res, key, e, 'construction')
                    return
                except drive.Rejected as e:
                    res.status('rejected', str(e))
                    res.tag('rejected:' + e.stage)
                    return
                oracle(res, dict(key, timepoint=t + 1,
                                 built_after=order.index(t)), mon, expected,
                       L_in, 'none')
        res.tag('timepoints=%d' % n_tp)
        res.tag('order=' + ('serial' if order == list(range(n_tp))
                            else 'shuffled'))
        res.nontrivial('timepoints/%s/%d/%s' % (unit, n_tp,
                                                case['seed'][-1]))
        res.sample({'case': case, 'features': feats, 'order': order})


ARC_INPUT = """
[Setup]
    axial_plane = {plane}
[Power]
    user_power = user_power.csv
    [[ARC]]
        fuel_material   = metal
        fuel_alloy      = zr
        coolant_heating = sodium
        pmatrx = arc/PMATRX
        geodst = arc/GEODST
        ndxsrf = arc/NDXSRF
        znatdn = arc/ZNATDN
        labels = arc/LABELS
        nhflux = arc/NHFLUX
        ghflux = arc/GHFLUX
[Core]
    coolant_inlet_temp = 623.15
    coolant_material   = sodium
    length             = 3.75
    gap_model          = none
    assembly_pitch     = 0.12
    bypass_fraction    = 0.0
[Assembly]
    [[fuel]]
        num_rings      = 10
        pin_pitch      = 0.00654
        pin_diameter   = 0.00540
        clad_thickness = 0.00035
        wire_pitch     = 0.2032
        wire_diameter  = 0.0011
        duct_ftf       = 0.10964, 0.11568
        duct_material  = ht9
        [[[AxialRegion]]]
            [[[[lower_refl]]]]
                z_lo       = 0.0
                z_hi       = {zlo}
                vf_coolant = 0.25
            [[[[upper_refl]]]]
                z_lo       = {zhi}
                z_hi       = 3.75
                vf_coolant = 0.25
[Assignment]
    [[ByPosition]]
        fuel = 1, 1, 1, flowrate={flow}
"""


def run_arcuser(case, res):
    """Core power from the binary flux files of the repository's intact
    single-assembly data set, with a user power file for that assembly
    whose axial cells end at heights the flux mesh does not contain."""
    import shutil
    rng = np.random.default_rng(case['seed'])
    ds = os.path.join(env.SRC, 'tests', 'test_data', 'single_asm_refl')
    if not os.path.exists(os.path.join(ds, 'GEODST')):
        res.status('rejected', 'binary data set not present')
        res.tag('arc_dataset_missing')
        return
    L = 3.75
    zlo = float(np.round(rng.uniform(0.9, 1.4), 3))
    zhi = float(np.round(rng.uniform(2.6, 3.1), 3))
    inner = sorted(set(float(np.round(x, 4)) for x in rng.uniform(
        0.2, 3.5, int(rng.integers(1, 4)))))
    zpow = [0.0] + inner + [L]
    plane = float(np.round(rng.uniform(0.3, 3.4), 4))
    key = {'kind': 'arcuser', 'unit': 'm', 'stress': 'arc+user', 'd': 0.0}
    with drive.scratch() as wd:
        shutil.copytree(ds, os.path.join(wd, 'arc'))
        rows = []
        for k in range(len(zpow) - 1):
            for p_ in range(1, 272):
                rows.append('1,1,%r,%r,%d,%r' % (zpow[k], zpow[k + 1], p_,
                                                 100.0 * (1 + k)))
        with open(os.path.join(wd, 'user_power.csv'), 'w') as f:
            f.write('\n'.join(rows) + '\n')
        path = os.path.join(wd, 'input.txt')
        with open(path, 'w') as f:
            f.write(ARC_INPUT.format(plane=plane, zlo=zlo, zhi=zhi,
                                     flow=float(rng.uniform(10.0, 30.0))))
        try:
            inp = drive.read_input(path)
        except drive.Rejected as e:
            res.status('rejected', str(e))
            res.tag('rejected:' + e.stage)
            return
        with Hooks() as hk:
            mon = MeshMonitor(hk)
            try:
                r = drive.build_reactor(inp, path=os.path.join(wd, 'run'))
            except NoProgress as e:
                no_progress(res, key, e, 'construction')
                return
            except drive.Rejected as e:
                res.status('rejected', str(e))
                res.tag('rejected:' + e.stage)
                return
            expected = [('core', 0.0), ('core', L), ('region', zlo),
                        ('region', zhi), ('plane', plane)]
            expected += [('power', v) for v in zpow]
            # the flux mesh the binary files carry is a power mesh too
            for a in r.assemblies:
                expected += [('power', float(v) * 1e-2)
                             for v in np.asarray(a.power.z_finemesh)]
            oracle(res, key, mon, expected, L, 'none')
        res.tag('arc_plus_user_power')
        res.nontrivial('arcuser/%s' % case['seed'][-1])
        res.sample({'case': case, 'zpow': zpow, 'plane': plane})


def run_case(case):
    res = Result(case)
    try:
        if case['kind'] == 'arcuser':
            run_arcuser(case, res)
        elif case['kind'] == 'timepoints':
            run_timepoints(case, res)
        elif case['kind'] in ('single', 'core'):
            run_real(case, res)
        elif case['kind'] == 'shell':
            run_shell(case, res)
        else:
            run_grid(case, res)
    except TooLong as e:
        # finite but longer than this check follows: no verdict for the case
        res.status('rejected', 'mesh too long to follow: %s' % e)
        res.tag('skipped_too_many_steps')
    return res


def classify(v, case):
    k = v.get('key', {})
    if v['monitor'] == 'M0_progress_every_call' and \
            k.get('mech') == 'req_dz_floors_to_zero':
        return 'F4'
    if v['monitor'] == 'M0_progress_every_call' and \
            k.get('mech') == 'step_lost_in_plane_rounding':
        return 'F4b'
    if v['monitor'] == 'M2b_end_is_input_core_length' and \
            k.get('mech') == 'core_length_from_max_boundary':
        return 'F51'
    return None
