"""C01 - every assembly coolant energy balance closes at every axial step."""
import numpy as np
from vmon import gen, drive, workloads as wl
from vmon.harness import Result
from vmon.probe import Hooks
from vmon.stepmon import (StepMonitor, wall_widths, sc_flows, byp_flows,
                          duct_heating)

PROPERTY = 'C01'
LEVEL = 'exploration'
TECHNIQUE = ('runtime monitoring: per-step conservation identities evaluated '
             'at wrapper hooks on Assembly.calculate with quantities captured '
             'as used; zero-power probes of the real update methods; '
             'step-refinement order for T-dependent coolant')
LEVEL_TEXT = ('Every Assembly.calculate call of generated single- and '
              'multi-assembly sweeps is checked against independently '
              'recomputed heat input (power + wall heat) to 1e-9 relative; '
              'held on the executions observed, not proved.')
LEVEL_NOTE = ('Trusts numpy arithmetic and the published geometry attributes '
              'cross-checked under C08; mass flows are rebuilt by the monitor '
              'from areas and flow split; heat capacity is the value in force '
              'when the coolant update ran.')
DESIGN_REF = 'DESIGN.md section 3, C01'
RULE = ('random pin-bundle problems (2-8 rings, 1-3 ducts, flowing/stagnant '
        'bypass, all same-family correlation triples, bundle velocity '
        '0.004-8 m/s, random pin/duct/coolant power shapes incl. zero cells '
        'and single hot pin, adiabatic and all gap models, conv-approx on/off,'
        ' param_update_tol, simple/6node axial regions, whole-assembly '
        'low-fidelity, constant and T-dependent coolant) plus small cores; '
        'a case is non-trivial when >= 10 steps were checked and the coolant '
        'temperature rose by > 1 K; distinct by (rings, ducts, bypass, corr, '
        'gap, options)')
RULE += (' Later rounds added: pins unpowered over a stretch with coolant/duct heating continuing, inputs in inches with half-inch bounds, top regions one step thick, two boundaries inside one step, low-fidelity assemblies with further axial regions, cores with the low-flow approximation.')
DECIDING = ['I1_interior_balance', 'I0_probe_exchange_sums_to_zero']
CASE_TIMEOUT = {'quick': 150, 'thorough': 900}
BUDGET = {'quick': 600, 'thorough': 3000}
ASSUMPTIONS = ['numpy float64 arithmetic',
               'geometry attributes published by RoddedRegion (checked '
               'independently under C08)']
TOL = 1e-9
# absolute floor: round-off of mdot*cp*T (T ~ 600-1000 K carries ~1e-13 K)
FLOOR = 1e-4

MAX_STEPS = 8000


def cases(tier, seed):
    n_single = 160 if tier == 'quick' else 2400
    n_core = 20 if tier == 'quick' else 240
    out = []
    for i in range(n_single):
        out.append({'name': 'single-%d' % i, 'kind': 'single',
                    'seed': [seed, 1, i],
                    'big': bool(tier == 'thorough' and i % 10 == 0)})
    for i in range(n_core):
        out.append({'name': 'core-%d' % i, 'kind': 'core',
                    'seed': [seed, 2, i],
                    'big': bool(tier == 'thorough' and i % 4 == 0)})
    n_ref = 6 if tier == 'quick' else 120
    for i in range(n_ref):
        out.append({'name': 'refine-%d' % i, 'kind': 'refine',
                    'seed': [seed, 3, i]})
    for n, nm in enumerate(drive.repo_inputs()):
        # the repository's own example inputs (271-pin bundles, tabulated
        # sodium, shield/plenum regions, double ducts, duct heating)
        if tier == 'quick' and n % 3:
            continue
        out.append({'name': 'repo-' + nm[6:-4], 'kind': 'repo', 'input': nm,
                    'seed': [seed, 9, n]})
    if tier == 'thorough':
        # the repository's own test-suite as one more workload
        out.insert(0, {'name': 'repo-tests', 'kind': 'repotests',
                       'seed': [seed, 0, 0]})
    return out


def build_problem(case):
    rng = np.random.default_rng(case['seed'])
    if case['kind'] == 'single':
        P, feats = wl.single_assembly(
            rng, coolant_pool=True, max_rings=(12 if case.get('big') else 8))
        if not feats.get('lf') and rng.random() < 0.12:
            # a top region that gets the last axial step only
            feats['thin_top'] = wl.thin_top_region(rng, P, 'a')
        if rng.random() < 0.15:
            # written in inches, core height and region bounds at half-inch
            # values
            Q = wl.in_inches(P)
            if Q is not None:
                P = Q
                feats['inches'] = True
    elif case['kind'] == 'refine':
        P, feats = wl.single_assembly(rng, tdep=True, gap='none', lf=False,
                                      regions=False, max_rings=5,
                                      conv_approx=False,
                                      n_duct=wl.choose(rng, [1, 1, 2]),
                                      vel=wl.loguniform(rng, 0.3, 6.0),
                                      byp=wl.loguniform(rng, 0.01, 0.25))
        # a stagnant bypass gap makes the solution itself depend on dz to
        # first order (C02, finding F11), which is not the property lag
        # this refinement measures: the gap flows in these cases
    else:
        P, feats = wl.core_problem(rng, n_ring=(3 if case.get('big') else 2),
                                   tdep=(rng.random() < 0.3),
                                   gap=wl.choose(rng, ['flow', 'flow', 'none',
                                                       'no_flow']),
                                   empty_frac=0.2, regions_frac=0.5,
                                   conv_approx=0.3,
                                   vel_range=wl.choose(rng, [(0.05, 6.0),
                                                             (0.02, 2.0)]))
        if rng.random() < 0.25:
            feats['near_bounds'] = wl.near_region_bounds(rng, P)
    return P, feats


# ----------------------------------------------------------------------
# oracles


def _conv_flux_int(reg, rec, k_duct_used):
    """Heat (W/m) from wall 0 into every edge/corner cell, recomputed."""
    n_int = reg.subchannel.n_sc['coolant']['interior']
    T = rec['pre']['coolant_int'][n_int:]
    w = wall_widths(reg)[0]
    typ = np.asarray(reg._duct_idx)          # 0 edge, 1 corner
    h = rec['htc_int'][1:][typ]
    if reg._conv_approx:
        R = 1.0 / h + 0.5 * (reg.duct_ftf[0][1] - reg.duct_ftf[0][0]) / 2.0 \
            / k_duct_used
        return w * (rec['post']['duct_mw'][0]
                    + duct_heating(reg, rec)[0] - T) / R
    return w * h * (rec['post']['duct_surf'][0, 0] - T)


_CLONES = {}


def _own_clone(mat):
    """A private copy of a coolant material for re-evaluating properties
    (the original is kept alive with it, so its id cannot be reused)."""
    ent = _CLONES.get(id(mat))
    if ent is None or ent[0] is not mat:
        with drive.quiet():
            ent = (mat, mat.clone())
        if len(_CLONES) > 64:
            _CLONES.clear()
        _CLONES[id(mat)] = ent
    return ent[1]


def check_rodded(res, rec, key):
    reg = rec['reg']
    dz = rec['dz']
    pw = rec['pow'] or {}
    sub = rec['sub']
    if '_calc_coolant_int_temp' not in sub:
        return
    s_int = sub['_calc_coolant_int_temp'][0]
    cp = s_int['cool_pre']['cp']
    mdot = sc_flows(reg)
    t_own = float(np.sum(mdot * rec['pre']['coolant_int']) / np.sum(mdot))
    res.close('I7_properties_at_own_mean_temperature',
              s_int['cool_pre']['T'] - t_own, t_own, 1e-9,
              'bundle interior advanced with coolant properties at %.3f K, '
              'its own flow-weighted mean temperature is %.3f K'
              % (s_int['cool_pre']['T'], t_own), dict(key, stream='interior'),
              {'z': rec['z1']})
    if key.get('tdep', True):
        m_ = _own_clone(reg.coolant)
        try:
            with drive.quiet():
                m_.update(t_own)
            cp_own = float(m_.heat_capacity)
        except SystemExit:
            cp_own = None
        if cp_own is not None:
            res.close('I7b_heat_capacity_used_is_that_of_own_temperature',
                      float(cp) - cp_own, cp_own, 1e-9,
                      'bundle interior converted heat with cp = %.6f J/kg-K,'
                      ' the coolant at its own mean temperature %.3f K has '
                      '%.6f' % (float(cp), t_own, cp_own),
                      dict(key, stream='interior'),
                      {'z': rec['z1'], 'cp_used': float(cp),
                       'cp_own': cp_own})
    # I1b mass: subchannel flows sum to the interior flow
    res.close('I1b_flows_sum', np.sum(mdot) - reg.int_flow_rate,
              reg.int_flow_rate, 1e-10,
              'subchannel flows do not sum to interior flow', key)
    dT = rec['post']['coolant_int'] - rec['pre']['coolant_int']
    dH = float(np.sum(mdot * cp * dT))
    q_pin = 0.0 if pw.get('pins') is None else float(np.sum(pw['pins']))
    q_cool = 0.0 if pw.get('cool') is None else float(np.sum(pw['cool']))
    k_duct = None
    for c in s_int['calls']:
        if c['kind'] == 'duct':
            k_duct = c['k']
    if reg._conv_approx and k_duct is None:
        k_duct = s_int['duct_k_pre']
    qw = _conv_flux_int(reg, rec, k_duct)
    heat = dz * (q_pin + q_cool + float(np.sum(qw)))
    scale = dz * (abs(q_pin) + abs(q_cool) + float(np.sum(np.abs(qw)))) \
        + abs(dH) + FLOOR * float(np.sum(mdot * cp * rec['pre']['coolant_int']))
    res.close('I1_interior_balance', dH - heat, scale, TOL,
              'interior coolant enthalpy change != pins+coolant+wall heat',
              dict(key, region='rodded', conv_approx=bool(reg._conv_approx)),
              {'z': rec['z1'], 'dH': dH, 'heat': heat, 'asm': rec['asm'].id})
    pieces = {'mdot': mdot, 'cp_used': cp, 'T_used': s_int['cool_pre']['T'],
              'heat': heat, 'T0': rec['pre']['coolant_int'],
              'T1': rec['post']['coolant_int']}
    # bypass gaps
    for i in range(reg.n_bypass):
        Tb0 = rec['pre']['coolant_byp'][i]
        Tb1 = rec['post']['coolant_byp'][i]
        w = wall_widths(reg)
        typ = np.asarray(reg._duct_idx)
        if np.sum(reg.byp_flow_rate) > 0:
            name = '_calc_coolant_byp_temp'
            sb = sub[name][0]
            cools = [c for c in sb['calls'] if c['kind'] == 'coolant']
            mb, area, a_tot = byp_flows(reg, i)
            # properties as used: the update evaluates the coolant at this
            # gap's own mean temperature before it converts heat (if it does
            # not, whatever state the coolant object was left in is used)
            used = cools[i] if i < len(cools) else sb['cool_pre']
            cpb = used['cp']
            tb_own = float(np.sum(area * Tb0) / np.sum(area))
            res.close('I7_properties_at_own_mean_temperature',
                      used['T'] - tb_own, tb_own, 1e-9,
                      'bypass gap %d advanced with coolant properties at '
                      '%.3f K, its own mean temperature is %.3f K (property '
                      'lag is the previous level of the SAME stream)'
                      % (i, used['T'], tb_own),
                      dict(key, stream='bypass'),
                      {'z': rec['z1'], 'T_used': used['T'], 'T_own': tb_own,
                       'updates_seen': len(cools)})
            res.close('I1b_byp_flows_sum', np.sum(mb) - reg.byp_flow_rate[i],
                      reg.byp_flow_rate[i], 1e-10,
                      'bypass cell flows do not sum to bypass flow', key)
            h = rec['htc_byp'][i][typ]
            if reg._conv_approx:
                ducts = [c for c in sb['calls'] if c['kind'] == 'duct']
                k_in = ducts[2 * i]['k']
                k_out = ducts[2 * i + 1]['k']
                t_in = 0.5 * (reg.duct_ftf[i][1] - reg.duct_ftf[i][0])
                t_out = 0.5 * (reg.duct_ftf[i + 1][1]
                               - reg.duct_ftf[i + 1][0])
                dTq = duct_heating(reg, rec)
                q_in = w[i] * (rec['post']['duct_mw'][i] + dTq[i] - Tb0) \
                    / (1 / h + 0.5 * t_in / k_in)
                q_out = w[i + 1] * (rec['post']['duct_mw'][i + 1]
                                    + dTq[i + 1] - Tb0) \
                    / (1 / h + 0.5 * t_out / k_out)
            else:
                q_in = w[i] * h * (rec['post']['duct_surf'][i, 1] - Tb0)
                q_out = w[i + 1] * h * (rec['post']['duct_surf'][i + 1, 0]
                                        - Tb0)
            dHb = float(np.sum(mb * cpb * (Tb1 - Tb0)))
            heat = dz * float(np.sum(q_in + q_out))
            scale = dz * float(np.sum(np.abs(q_in) + np.abs(q_out))) \
                + abs(dHb) + FLOOR * float(np.sum(mb * cpb * Tb0))
            res.close('I2_bypass_balance', dHb - heat, scale, TOL,
                      'bypass coolant enthalpy change != heat from its walls',
                      dict(key, region='bypass', byp=i,
                           conv_approx=bool(reg._conv_approx)),
                      {'z': rec['z1'], 'dH': dHb, 'heat': heat})
        else:
            res.count('stagnant_bypass_steps')
    return pieces


def check_unrodded(res, rec, key):
    reg = rec['reg']
    dz = rec['dz']
    pw = rec['pow'] or {}
    sub = rec['sub'].get('_calc_coolant_temp')
    if not sub:
        return
    s = sub[0]
    six = (reg.model == '6node')
    # single node: properties in force at entry; six node: updated inside
    props = s['cool_post'] if six else s['cool_pre']
    h = s['htc_post'] if six else s['htc_pre']
    cp = props['cp']
    p = pw.get('refl')
    p = 0.0 if p is None else float(np.sum(p))
    T0 = rec['pre']['coolant_int']
    T1 = rec['post']['coolant_int']
    # the heat is converted with coolant properties at the region's own
    # mean temperature of the previous level (for one node: that node)
    t_own = float(np.mean(T0))
    # The six-node model refreshes the properties inside its update; the
    # one-node model uses those in force at entry, which set-up (inlet
    # state), its own previous step or its activation has put at its own
    # temperature. Not asserted at the first step of a sweep that follows
    # Reactor.reset(): reset() restores temperatures only (that is all it
    # says it does), the property state of the previous sweep's outlet is
    # still in force for that one step.
    first = bool(float(rec['z0']) == 0.0)
    if first and not six and key.get('after_reset'):
        res.count('I7_not_asserted_first_step_after_reset')
        return_early = True
    elif first and not six and key.get('workload') == 'repo_tests':
        # unit-test fixtures build a region by hand and call it in whatever
        # state the fixture left the coolant object: the premise (set-up or
        # activation has run) does not hold for that first call
        res.count('I7_not_asserted_first_call_on_test_fixture')
        return_early = True
    else:
        return_early = False
    # (one-node model: with constant properties the evaluation temperature
    # is immaterial and the start-up state is not reported; the six-node
    # model is asserted always - it refreshes inside its own update)
    if (six or key.get('tdep', True)) and not return_early:
        # ... and the property VALUES are those of that temperature (the
        # temperature attribute alone can be set without re-evaluating)
        m_ = _own_clone(reg.coolant)
        try:
            with drive.quiet():
                m_.update(t_own)
            cp_own = float(m_.heat_capacity)
        except SystemExit:
            cp_own = None
        if cp_own is not None:
            res.close('I7b_heat_capacity_used_is_that_of_own_temperature',
                      float(cp) - cp_own, cp_own, 1e-9,
                      '%s region converted heat with cp = %.6f J/kg-K, the '
                      'coolant at its own temperature %.3f K has %.6f'
                      % (reg.model, float(cp), t_own, cp_own),
                      dict(key, stream=('six-node' if six
                                        else 'single-node')),
                      {'z': rec['z1'], 'cp_used': float(cp),
                       'cp_own': cp_own, 'T_attr': props['T']})
        res.close('I7_properties_at_own_mean_temperature',
                  props['T'] - t_own, t_own, 1e-9,
                  '%s region advanced with coolant properties at %.4f K, its '
                  'own mean temperature is %.4f K' % (reg.model, props['T'],
                                                      t_own),
                  dict(key, stream=('six-node' if six else 'single-node'),
                       **({'first_step_of_sweep': True}
                          if (first and not six) else {})),
                  {'z': rec['z1'], 'T_used': props['T'], 'T_own': t_own,
                   'nodes': [float(x) for x in np.ravel(T0)]})
    perim6 = (reg.duct_ftf[1] * 6 / np.sqrt(3.0)) / 6.0
    # wall temperatures as used: single node solves the wall first (post),
    # six node advances the coolant with the previous wall (pre)
    Tw = rec['pre'] if six else rec['post']
    if rec['adiabatic']:
        qw = np.zeros(6)
    elif reg._conv_approx:
        kd = None
        for c in s['calls']:
            if c['kind'] == 'duct':
                kd = c['k']
        kd = kd if kd is not None else s['duct_k_pre']
        R = 0.5 * reg.duct_thickness / kd + 1.0 / h
        qw = perim6 / R * (Tw['duct_mw'][0] - (T0 if six else T0[0]))
    else:
        qw = h * perim6 * (Tw['duct_surf'][0, 0] - (T0 if six else T0[0]))
    if six:
        mdot = reg.flow_rate / 6.0
        dH = float(np.sum(mdot * cp * (T1 - T0)))
        # node-to-node conduction must sum to zero, so it is left out of the
        # expected heat: closure of the identity is the statement.
        heat = dz * (p + float(np.sum(qw)))
        scale = dz * (abs(p) + float(np.sum(np.abs(qw)))) + abs(dH) \
            + FLOOR * reg.flow_rate * cp * float(np.mean(T0))
        res.close('I3_sixnode_balance', dH - heat, scale, TOL,
                  'six-node region enthalpy change != power + wall heat',
                  dict(key, region='6node', mratio=float(reg.mratio)),
                  {'z': rec['z1'], 'dH': dH, 'heat': heat})
    else:
        dH = float(reg.flow_rate * cp * (T1[0] - T0[0]))
        heat = dz * (p + float(np.sum(qw)))
        scale = dz * (abs(p) + float(np.sum(np.abs(qw)))) + abs(dH) \
            + FLOOR * reg.flow_rate * cp * float(T0[0])
        res.close('I3_singlenode_balance', dH - heat, scale, TOL,
                  'single-node region enthalpy change != power + wall heat',
                  dict(key, region='simple'),
                  {'z': rec['z1'], 'dH': dH, 'heat': heat})


def mixed_mean(reg, temp):
    """Flow-weighted mean coolant temperature of a region (independent)."""
    if reg.is_rodded:
        m = sc_flows(reg)
        num = float(np.sum(m * temp['coolant_int']))
        den = float(np.sum(m))
        if reg.n_bypass > 0 and np.sum(reg.byp_flow_rate) > 0:
            for i in range(reg.n_bypass):
                mb, _, _ = byp_flows(reg, i)
                num += float(np.sum(mb * temp['coolant_byp'][i]))
                den += float(np.sum(mb))
        return num / den
    return float(np.mean(temp['coolant_int']))


def check_region_change(res, tok, key):
    old, new = tok['old'], tok['new']
    tm_old = mixed_mean(old, tok['old_temp'])
    tn = tok['new_temp']
    vals = [tn['coolant_int'].ravel()]
    if 'coolant_byp' in tn:
        vals.append(tn['coolant_byp'].ravel())
    vals = np.concatenate(vals)
    res.close('I4_region_change_uniform', np.max(vals) - np.min(vals),
              abs(tm_old), 1e-12,
              'new region does not start from a uniform coolant temperature',
              key)
    tm_new = mixed_mean(new, tn)
    k = dict(key, old=('rodded' if old.is_rodded else old.model),
             new=('rodded' if new.is_rodded else new.model),
             old_nbyp=int(getattr(old, 'n_bypass', 0)),
             old_byp_flowing=bool(getattr(old, 'n_bypass', 0) > 0 and
                                  np.sum(old.byp_flow_rate) > 0))
    res.close('I4_region_change_mixed_mean', tm_new - tm_old, abs(tm_old),
              1e-11, 'mixed-mean coolant temperature not carried over',
              k, {'old': tm_old, 'new': tm_new, 'asm': tok['asm'].id})


def probe_exchange(res, reg, rng, key):
    """Zero power, wall at the temperature of its own cell: conduction,
    mixing and swirl must only move heat (sum of mdot*dT == 0)."""
    if not reg.is_rodded:
        return
    saved = {k: v.copy() for k, v in reg.temp.items()}
    heat = getattr(reg, '_dT_duct_heating', None)
    try:
        if heat is not None:
            # unheated wall for the probe (the low-flow approximation adds
            # the wall-heating term kept from the last wall solve)
            reg._dT_duct_heating = np.zeros_like(heat)
        n = reg.subchannel.n_sc['coolant']['total']
        n_int = reg.subchannel.n_sc['coolant']['interior']
        T = 700.0 + 50.0 * rng.random(n)
        reg.temp['coolant_int'][:] = T
        reg.temp['duct_surf'][0, 0, :] = T[n_int:]
        reg.temp['duct_mw'][0, :] = T[n_int:]
        with drive.quiet():
            dT = reg._calc_coolant_int_temp(0.01, None, None)
        m = sc_flows(reg)
        res.close('I0_probe_exchange_sums_to_zero', float(np.sum(m * dT)),
                  float(np.sum(np.abs(m * dT))) + 1e-300, 1e-9,
                  'inter-subchannel exchange creates or destroys heat', key)
        res.stat('I0_max_dT', float(np.max(np.abs(dT))))
    finally:
        if heat is not None:
            reg._dT_duct_heating = heat
        for k, v in saved.items():
            reg.temp[k][...] = v


def _poly(c, T):
    """Polynomial with coefficients lowest order first."""
    y = 0.0
    for a in c[::-1]:
        y = y * T + a
    return y


def _poly_int(c, T0, T1):
    tot = 0.0
    for o, a in enumerate(c):
        tot = tot + a * (T1 ** (o + 1) - T0 ** (o + 1)) / (o + 1)
    return tot


def run_refine(case, res):
    """I5 (temperature-dependent coolant). Per step, the true interior
    enthalpy change  sum mdot_i int cp dT  minus the heat input splits into
      B  (cp(Tbar_j) - cp_used) * sum mdot dT   evaluation-temperature lag,
      A  sum mdot_i int (cp(T) - cp(T_i,j)) dT  axial (explicit-step) lag,
      R  sum mdot_i (cp(T_i,j) - cp(Tbar_j)) dT_i  radial lumping: one cp for
         the whole cross-section (does not depend on dz).
    (A + B) summed over the sweep must shrink (at least) linearly with dz;
    R is reported separately (finding F17 when it is not negligible)."""
    import dassh.material as mat
    P, feats = build_problem(case)
    cp_c = list(mat.sodium_se2anl['heat_capacity'])
    key = {'nr': feats['nr'], 'n_duct': feats['n_duct'],
           'byp': feats.get('byp')}
    with drive.scratch() as d:
        inp, r0 = drive.build(P, d, max_steps=MAX_STEPS)
        base = float(r0.req_dz)
    out = []
    for f in (1.0, 0.5, 0.25):
        P['setup']['axial_mesh_size'] = base * f
        acc = {'A': 0.0, 'B': 0.0, 'R': 0.0, 'E': 0.0, 'n': 0}

        def on_step(rec):
            if not rec['reg'].is_rodded:
                return
            pc = check_rodded(res, rec, key)
            if pc is None:
                return
            m, T0, T1 = pc['mdot'], pc['T0'], pc['T1']
            Tbar = float(np.sum(m * T0) / np.sum(m))
            dT = T1 - T0
            true = float(np.sum(m * _poly_int(cp_c, T0, T1)))
            acc['E'] += true - pc['heat']
            acc['B'] += (_poly(cp_c, Tbar) - pc['cp_used']) * float(
                np.sum(m * dT))
            acc['R'] += float(np.sum(m * (_poly(cp_c, T0)
                                          - _poly(cp_c, Tbar)) * dT))
            acc['A'] += float(np.sum(m * (_poly_int(cp_c, T0, T1)
                                          - _poly(cp_c, T0) * dT)))
            acc['n'] += 1

        with drive.scratch() as d, Hooks() as hk:
            inp, r = drive.build(P, d, max_steps=MAX_STEPS)
            StepMonitor(hk, on_step)
            drive.sweep(r)
            a = r.assemblies[0]
            Q = float(sum(a._power_delivered.values()))
        acc['Q'] = Q
        acc['dz'] = float(np.max(r.dz))
        out.append(acc)
    res.tag('refine_cases')
    Q = out[0]['Q']
    if Q <= 0.0:
        res.count('I5_not_informative')
        return feats
    # decomposition must be exact (it is algebra on recorded numbers)
    for o in out:
        res.close('I5_decomposition_exact',
                  o['E'] - (o['A'] + o['B'] + o['R']), Q, 1e-9,
                  'enthalpy residual decomposition does not add up', key)
    lag = [abs(o['A'] + o['B']) / Q for o in out]
    rad = [o['R'] / Q for o in out]
    res.stat('I5_lag_rel_coarse', lag[0])
    res.stat('I5_radial_lumping_rel', abs(rad[-1]))
    floor = 1e-9
    if lag[0] < floor:
        res.count('I5_not_informative')
    else:
        o1 = np.log2(lag[0] / max(lag[1], 1e-300))
        o2 = np.log2(lag[1] / max(lag[2], 1e-300))
        res.stat('I5_order', min(o1, o2))
        res.check('I5_tdep_lag_first_order',
                  (min(o1, o2) >= 0.7) or lag[2] < floor,
                  'property-lag part of the T-dependent enthalpy residual '
                  'does not shrink linearly with dz: %r for dz %r'
                  % (lag, [o['dz'] for o in out]),
                  dict(key, B_over_lag=abs(out[-1]['B'])
                       / max(abs(out[-1]['A'] + out[-1]['B']), 1e-300)),
                  {'lag': lag, 'radial': rad,
                   'B': [o['B'] / Q for o in out],
                   'A': [o['A'] / Q for o in out]})
    res.check('I5_radial_lumping_negligible', abs(rad[-1]) < 1e-6,
              'with T-dependent coolant a dz-independent residual remains '
              '(one heat capacity for the whole cross-section): %r' % rad,
              dict(key, mech='radial_lumping'), {'radial': rad})
    res.nontrivial('refine/%s/%s/%s' % (feats['nr'], feats['n_duct'],
                                        feats['corr']))
    return feats


def step_monitors(res, key, state=None):
    """The per-step and region-change monitors of this check as callbacks
    for a StepMonitor (used on generated problems, on the repository's
    example inputs and on the repository's own test-suite as a workload)."""
    state = state if state is not None else {'steps': 0}

    def on_step(rec):
        state['steps'] += 1
        reg = rec['reg']
        # the region that takes the step is the one this height belongs to,
        # and the power handed to it is of its own kind (pins/coolant/duct
        # for a pin bundle, homogenised otherwise)
        zm = 0.5 * (rec['z0'] + rec['z1'])
        pw = rec['pow'] or {}
        kind_ok = True
        if any(v is not None for v in pw.values()):
            if reg.is_rodded:
                kind_ok = pw.get('refl') is None
            else:
                kind_ok = all(pw.get(c) is None
                              for c in ('pins', 'cool', 'duct'))
        res.check('I6_step_taken_by_region_of_this_height',
                  float(reg.z[0]) - 1e-9 <= zm <= float(reg.z[1]) + 1e-9
                  and kind_ok,
                  'step %.6f-%.6f m taken by region "%s" spanning %.6f-%.6f m'
                  ' (power kind matches region: %s)'
                  % (rec['z0'], rec['z1'], reg.name, float(reg.z[0]),
                     float(reg.z[1]), kind_ok),
                  dict(key, n_regions=len(rec['asm'].region)),
                  {'asm': rec['asm'].id})
        if reg.is_rodded:
            check_rodded(res, rec, key)
        else:
            check_unrodded(res, rec, dict(key, after_reset=True)
                           if state.get('after_reset') else key)

    def on_rc(tok):
        check_region_change(res, tok, key)

    return on_step, on_rc


def run_case(case):
    res = Result(case)
    if case['kind'] == 'repotests':
        got, tail = drive.run_repo_tests(['c01'])
        if 'c01' not in got:
            res.status('error', 'test-suite run left no monitor output: '
                       + tail)
            return res
        res.d.update({k: got['c01'][k] for k in ('viol', 'counts', 'stats')})
        res.tag('repo_tests_workload')
        res.sample({'case': case, 'pytest': tail})
        if sum(res.d['counts'].values()) > 1000:
            res.nontrivial('repo-tests')
        return res
    if case['kind'] == 'refine':
        try:
            feats = run_refine(case, res)
            res.sample({'case': case, 'features': feats})
        except drive.Rejected as e:
            res.status('rejected', str(e))
        return res
    if case['kind'] == 'repo':
        P, feats = None, {'repo_input': case['input']}
        key = {'repo_input': case['input']}
    else:
        P, feats = build_problem(case)
        key = {k: feats.get(k) for k in ('nr', 'n_duct', 'gap', 'tdep')}
    rng = np.random.default_rng(case['seed'] + [99])
    state = {'steps': 0}
    on_step, on_rc = step_monitors(res, key, state)

    try:
        with drive.scratch() as d, Hooks() as hk:
            if P is None:
                inp, r = drive.build_repo_input(case['input'], d,
                                                max_steps=MAX_STEPS)
                res.tag('repo_input')
            else:
                inp, r = drive.build(P, d, max_steps=MAX_STEPS)
            if len(r.z) > 6000:
                res.status('rejected', 'too many steps (%d)' % len(r.z))
                res.tag('skipped_too_many_steps')
                return res
            StepMonitor(hk, on_step, on_rc)
            T_in = float(r.inlet_temp)
            probed = [0]

            def after(i):
                if i in (1, len(r.z) // 2):
                    for a in r.assemblies[:3]:
                        probe_exchange(res, a.active_region, rng, key)
                        probed[0] += 1
            drive.sweep(r, on_step=after)
            if all(len(a.region) == 1 for a in r.assemblies) and \
                    rng.random() < 0.5:
                # a second sweep on the same model after Reactor.reset()
                # (restores the temperatures; single-region assemblies only,
                # reset() does not re-activate the first region): every step
                # of every sweep must balance, also the first one, which
                # starts from whatever the first sweep left behind
                with drive.quiet():
                    r.reset()
                state['after_reset'] = True
                drive.sweep(r)
                res.tag('second_sweep_after_reset')
            rise = max(a.avg_coolant_temp for a in r.assemblies) - T_in
            res.stat('coolant_rise_K', rise)
            for k in ('gap', 'tdep', 'conv_approx', 'lf'):
                if k in feats:
                    res.tag('%s=%s' % (k, feats[k]))
            for a in r.assemblies:
                for reg in a.region:
                    res.tag('region:' + ('rodded' if reg.is_rodded
                                         else reg.model))
                    if reg.is_rodded:
                        res.tag('n_duct=%d' % reg.n_duct)
                        if reg.n_bypass:
                            res.tag('bypass:' + ('flowing' if np.sum(
                                reg.byp_flow_rate) > 0 else 'stagnant'))
                        res.tag('conv_approx_active=%s' % reg._conv_approx)
            if state['steps'] >= 10 and rise > 1.0:
                res.nontrivial(repr(sorted(feats.items(), key=str)))
            res.sample({'case': case, 'features': feats,
                        'steps': state['steps']})
    except drive.Rejected as e:
        res.status('rejected', str(e))
        res.tag('rejected:' + e.stage)
    return res


def classify(v, case):
    k = v.get('key', {})
    if v['monitor'] == 'I5_radial_lumping_negligible':
        return 'F17'
    return None
