"""Check runner: case fan-out, three-valued verdicts, evidence, replays.

A check module (vmon/checks/cNN.py) provides

    PROPERTY   'C01'
    RULE       text: how cases are generated and what makes one non-trivial
    cases(tier, seed)   -> list of JSON-able dicts (each has a 'name')
    run_case(case)      -> result dict built with ``Result``
    classify(viol, case)-> id of a known finding this witness matches, or None
    DECIDING   list of counter names; a run in which any of them is zero is
               INCONCLUSIVE (monitor never reached), never "held"

Exit status: 0 held on everything observed, 1 violation (line
``VIOLATION property=<id> replay=<path>``), 2 inconclusive.
"""
import os
import sys
import json
import time
import signal
import hashlib
import traceback
import concurrent.futures as cf
import multiprocessing as mp

HERE = os.path.dirname(os.path.dirname(os.path.abspath(__file__)))
# VERIF_OUT_DIR: tooling runs against scratch trees (selftest, seedtest,
# mutation sweep) write their evidence/replays elsewhere, so that
# /verif/evidence always describes /repo
_OUT = os.environ.get('VERIF_OUT_DIR') or HERE
EVIDENCE_DIR = os.path.join(_OUT, 'evidence')
REPLAY_DIR = os.path.join(_OUT, 'replays')
KNOWN_FILE = os.path.join(HERE, 'known_findings.json')


class CaseTimeout(Exception):
    pass


class Result(object):
    """Accumulator a monitor writes into while a case runs."""

    def __init__(self, case):
        self.d = {'name': case.get('name', '?'), 'status': 'ok', 'viol': [],
                  'counts': {}, 'stats': {}, 'tags': {}, 'nontrivial': None,
                  'sample': None, 'err': None, 'wall': 0.0}

    # -- counters -------------------------------------------------------
    def count(self, name, n=1):
        self.d['counts'][name] = self.d['counts'].get(name, 0) + int(n)

    def stat(self, name, value):
        try:
            v = float(value)
        except Exception:
            return
        if v != v:
            return
        s = self.d['stats'].get(name)
        if s is None:
            self.d['stats'][name] = [v, v]
        else:
            if v < s[0]:
                s[0] = v
            if v > s[1]:
                s[1] = v

    def tag(self, name, n=1):
        self.d['tags'][name] = self.d['tags'].get(name, 0) + int(n)

    def nontrivial(self, key):
        """Mark the case non-trivial; key identifies it for distinctness."""
        self.d['nontrivial'] = str(key)

    def sample(self, obj):
        self.d['sample'] = obj

    # -- outcomes -------------------------------------------------------
    def violation(self, monitor, msg, key=None, data=None):
        if len(self.d['viol']) < 25:
            self.d['viol'].append({'monitor': monitor, 'msg': msg,
                                   'key': key or {}, 'data': data or {}})
        self.count('violations_raw')

    def check(self, monitor, ok, msg, key=None, data=None):
        """Count one evaluation of `monitor`; record a violation if not ok."""
        self.count(monitor)
        if not ok:
            self.violation(monitor, msg, key, data)
        return ok

    def close(self, monitor, resid, scale, tol, msg, key=None, data=None):
        """|resid| <= tol*scale, counted and with the residual recorded."""
        scale = abs(float(scale))
        r = abs(float(resid))
        rel = r / scale if scale > 0 else (0.0 if r == 0 else float('inf'))
        self.stat(monitor + '_rel', rel)
        ok = (rel <= tol) and (rel == rel)
        d = dict(data or {})
        d.update({'resid': float(resid), 'scale': scale, 'rel': rel,
                  'tol': tol})
        return self.check(monitor, ok, msg + ' (rel %.3e > %.1e)' % (rel, tol),
                          key, d)

    def status(self, s, err=None):
        self.d['status'] = s
        if err:
            self.d['err'] = err

    def out(self):
        return self.d


# ----------------------------------------------------------------------


def _alarm(signum, frame):
    raise CaseTimeout()


def _run_one(args):
    modname, case, timeout = args
    import importlib
    mod = importlib.import_module(modname)
    t0 = time.time()
    signal.signal(signal.SIGALRM, _alarm)
    signal.setitimer(signal.ITIMER_REAL, timeout)
    try:
        try:
            out = mod.run_case(case)
            if hasattr(out, 'out'):
                out = out.out()
        finally:
            signal.setitimer(signal.ITIMER_REAL, 0)
    except CaseTimeout:
        out = Result(case).out()
        out['status'] = 'timeout'
        out['err'] = 'case exceeded %.0fs watchdog' % timeout
    except BaseException as e:  # incl. SystemExit escaping a monitor
        out = Result(case).out()
        tb = traceback.extract_tb(e.__traceback__)
        src = os.path.join(os.path.abspath(os.environ.get(
            'VERIF_DASSH_SRC', '/repo')), 'dassh') + os.sep
        inner = tb[-1] if tb else None
        if isinstance(e, Exception) and inner is not None and \
                os.path.abspath(inner.filename).startswith(src):
            # An exception raised by DASSH's own code (innermost frame in
            # the package) while a generated, valid case was being run: the
            # property is stated for every input and there is no result for
            # this one. Reported as a violation with the traceback as the
            # witness; on the unchanged tree this never happens (it would
            # have been a harness error before, equally fatal).
            where = '%s:%s' % (os.path.basename(inner.filename), inner.name)
            out['viol'].append({
                'monitor': 'X_no_unhandled_exception_in_dassh',
                'msg': 'DASSH raised %s: %s at %s while the case was run'
                       % (type(e).__name__, str(e)[:200], where),
                'key': {'exc': type(e).__name__, 'where': where},
                'data': {'traceback': traceback.format_exc()[-1500:]}})
            out['counts']['X_no_unhandled_exception_in_dassh'] = 1
            out['counts']['violations_raw'] = 1
        else:
            out['status'] = 'error'
            out['err'] = '%s: %s\n%s' % (type(e).__name__, e,
                                         traceback.format_exc()[-1500:])
    out['wall'] = time.time() - t0
    out['name'] = case.get('name', '?')
    return out


def load_known():
    with open(KNOWN_FILE) as f:
        return json.load(f)


def _jsonable(o):
    import numpy as np
    if isinstance(o, dict):
        return {str(k): _jsonable(v) for k, v in o.items()}
    if isinstance(o, (list, tuple)):
        return [_jsonable(v) for v in o]
    if isinstance(o, np.ndarray):
        return _jsonable(o.tolist())
    if isinstance(o, (np.integer,)):
        return int(o)
    if isinstance(o, (np.floating,)):
        return float(o)
    if isinstance(o, (np.bool_,)):
        return bool(o)
    if isinstance(o, float) and (o != o or o in (float('inf'),
                                                  float('-inf'))):
        return repr(o)
    if isinstance(o, (str, int, float, bool)) or o is None:
        return o
    return repr(o)


def run_check(mod, tier, seed, replay=None, jobs=None):
    pid = mod.PROPERTY
    t0 = time.time()
    os.makedirs(EVIDENCE_DIR, exist_ok=True)
    os.makedirs(REPLAY_DIR, exist_ok=True)
    known = load_known()
    active = {f['id']: f for f in known.get('findings', [])
              if f.get('property') == pid and f.get('status') == 'known'}

    if replay:
        with open(replay) as f:
            rp = json.load(f)
        case_list = [rp['case']]
    else:
        case_list = mod.cases(tier, seed)
    for i, c in enumerate(case_list):
        c.setdefault('name', '%s-%d' % (pid, i))

    timeout = getattr(mod, 'CASE_TIMEOUT', {}).get(tier, 120)
    budget = getattr(mod, 'BUDGET', {}).get(tier, 900 if tier == 'quick'
                                            else 3600)
    jobs = jobs or int(os.environ.get('VERIF_JOBS', '0')) or \
        min(16, os.cpu_count() or 4)
    results = []
    not_run = 0
    if replay or jobs == 1 or len(case_list) == 1:
        for c in case_list:
            results.append(_run_one((mod.__name__, c, timeout)))
    else:
        ctx = mp.get_context('fork')
        broken = False
        with cf.ProcessPoolExecutor(max_workers=jobs, mp_context=ctx) as ex:
            futs = {ex.submit(_run_one, (mod.__name__, c, timeout)): c
                    for c in case_list}
            try:
                for fu in cf.as_completed(futs, timeout=budget):
                    try:
                        results.append(fu.result())
                    except Exception as e:  # worker died
                        broken = True
                        r = Result(futs[fu]).out()
                        r['status'] = 'error'
                        r['err'] = 'worker failure: %r' % (e,)
                        results.append(r)
            except cf.TimeoutError:
                for fu in futs:
                    if not fu.done():
                        fu.cancel()
                        not_run += 1
                # kill stragglers so the executor can shut down
                for p in list(getattr(ex, '_processes', {}).values()):
                    try:
                        p.terminate()
                    except Exception:
                        pass
        if broken:
            pass

    # ---- aggregate ----------------------------------------------------
    counts, stats, tags, statuses = {}, {}, {}, {}
    nontrivial = set()
    samples = []
    viols = []       # (case, viol)
    errors = []
    by_name = {c['name']: c for c in case_list}
    for r in results:
        statuses[r['status']] = statuses.get(r['status'], 0) + 1
        for k, v in r['counts'].items():
            counts[k] = counts.get(k, 0) + v
        for k, v in r['tags'].items():
            tags[k] = tags.get(k, 0) + v
        for k, v in r['stats'].items():
            s = stats.get(k)
            if s is None:
                stats[k] = list(v)
            else:
                s[0] = min(s[0], v[0])
                s[1] = max(s[1], v[1])
        if r.get('nontrivial') and r['status'] == 'ok':
            nontrivial.add(r['nontrivial'])
        if r.get('sample') is not None and len(samples) < 4:
            samples.append(r['sample'])
        for v in r['viol']:
            viols.append((by_name.get(r['name'], {'name': r['name']}), v))
        if r['status'] in ('error', 'timeout'):
            errors.append((r['name'], r['status'], r['err']))

    # ---- classify violations -------------------------------------------
    known_seen = {}
    new_viol = []
    for case, v in viols:
        fid = None
        try:
            fid = mod.classify(v, case)
        except Exception:
            fid = None
        if fid is not None and fid in active:
            known_seen[fid] = known_seen.get(fid, 0) + 1
        else:
            new_viol.append((case, v, fid))

    lines = []
    replay_paths = []
    seen_keys = set()
    for case, v, fid in new_viol:
        key = (v['monitor'], json.dumps(_jsonable(v.get('key')),
                                        sort_keys=True))
        if key in seen_keys and len(replay_paths) >= 1:
            continue
        seen_keys.add(key)
        if len(replay_paths) >= 10:
            break
        h = hashlib.sha1(json.dumps(_jsonable([case, v['monitor'],
                                               v.get('key')]),
                                    sort_keys=True).encode()).hexdigest()[:10]
        path = os.path.join(REPLAY_DIR, '%s_%s.json' % (pid, h))
        if not replay:
            with open(path, 'w') as f:
                json.dump(_jsonable({'property': pid, 'tier': tier,
                                     'seed': seed, 'case': case,
                                     'violation': v,
                                     'matched_finding': fid}), f, indent=1)
        else:
            path = replay
        replay_paths.append(path)
        lines.append('VIOLATION property=%s replay=%s' % (pid, path))
        lines.append('  monitor=%s case=%s: %s' % (v['monitor'],
                                                   case.get('name'),
                                                   v['msg']))

    for fid, f in sorted(active.items()):
        lines.append('KNOWN-FINDING: property=%s %s: %s [observed %d time(s) '
                     'in this run]' % (pid, fid, f['what'],
                                       known_seen.get(fid, 0)))

    # ---- verdict ---------------------------------------------------------
    deciding = list(getattr(mod, 'DECIDING', []))
    missing = [m for m in deciding if counts.get(m, 0) == 0]
    n_ok = statuses.get('ok', 0)
    verdict = 'held'
    reason = ''
    if new_viol:
        verdict = 'violated'
    elif replay:
        verdict = 'held'
    elif missing:
        verdict = 'inconclusive'
        reason = 'deciding monitor(s) never evaluated: %s' % ','.join(missing)
    elif errors:
        verdict = 'inconclusive'
        reason = '%d case(s) ended in harness error/timeout' % len(errors)
    elif not_run:
        frac = not_run / float(len(case_list))
        if frac > 0.5:
            verdict = 'inconclusive'
            reason = '%d of %d cases not run within the budget' % (
                not_run, len(case_list))
    elif n_ok == 0:
        verdict = 'inconclusive'
        reason = 'no case completed'
    elif statuses.get('rejected', 0) > getattr(mod, 'MAX_REJECTED_FRACTION',
                                               0.5) * len(results):
        # the generators produce inputs DASSH accepts (2-25 % are refused,
        # mostly for too many steps or correlation ranges); when most of
        # them are refused the monitors have seen too little to say "held"
        verdict = 'inconclusive'
        reason = ('%d of %d generated cases were refused by DASSH (error '
                  'exit): the workload did not reach the monitors'
                  % (statuses.get('rejected', 0), len(results)))
    if verdict == 'held' and len(nontrivial) < 2 and not replay:
        verdict = 'inconclusive'
        reason = 'fewer than 2 distinct non-trivial cases observed'

    wall = time.time() - t0
    coverage = {
        'evaluations': len(results),
        'distinct_nontrivial': len(nontrivial),
        'rule': getattr(mod, 'RULE', ''),
        'samples': samples if samples else [by_name[n] for n in
                                            list(by_name)[:2]],
        'exhaustive': bool(getattr(mod, 'EXHAUSTIVE', {}).get(tier, False)),
        'monitor_evaluations': counts,
        'residuals_min_max': stats,
        'option_coverage': tags,
        'case_status': statuses,
        'cases_not_run_in_budget': not_run,
        'verdict': verdict,
        'inconclusive_reason': reason,
        'known_findings_observed': known_seen,
        'new_violations': len(new_viol),
        'dassh_src': os.environ.get('VERIF_DASSH_SRC', '/repo'),
    }
    extra = getattr(mod, 'extra_coverage', None)
    if extra:
        try:
            coverage.update(extra(results))
        except Exception as e:  # pragma: no cover
            coverage['extra_coverage_error'] = repr(e)
    ev = {'property_id': pid, 'tier': tier, 'seed': int(seed),
          'level': getattr(mod, 'LEVEL', 'exploration'),
          'coverage': _jsonable(coverage),
          'assumptions': list(getattr(mod, 'ASSUMPTIONS', [])),
          'wall_s': round(wall, 2),
          'violations': len(new_viol)}
    if not replay:
        with open(os.path.join(EVIDENCE_DIR, pid + '.json'), 'w') as f:
            json.dump(ev, f, indent=1, sort_keys=True)

    # ---- report -----------------------------------------------------------
    print('%s tier=%s seed=%s cases=%d ok=%d rejected=%d err=%d '
          'nontrivial=%d wall=%.1fs' % (
              pid, tier, seed, len(results), n_ok,
              statuses.get('rejected', 0), len(errors), len(nontrivial),
              wall))
    for k in sorted(counts):
        print('  monitor %-28s evaluations=%d' % (k, counts[k]))
    for k in sorted(stats):
        print('  residual %-27s min=%.3e max=%.3e' % (k, stats[k][0],
                                                      stats[k][1]))
    if tags:
        print('  coverage ' + ' '.join('%s=%d' % kv for kv in
                                       sorted(tags.items())))
    for n, s, e in errors[:5]:
        e = e or ''
        print('  ERROR case=%s status=%s %s ... %s' % (
            n, s, e.split('\n')[0][:300], e[-500:].replace('\n', ' | ')))
    for ln in lines:
        print(ln)
    if verdict == 'violated':
        print('RESULT %s VIOLATED' % pid)
        return 1
    if verdict == 'inconclusive':
        print('INCONCLUSIVE property=%s reason=%s' % (pid, reason))
        return 2
    print('RESULT %s held on what was observed' % pid)
    return 0


def main(argv=None):
    import argparse
    import importlib
    ap = argparse.ArgumentParser()
    ap.add_argument('prop')
    ap.add_argument('--tier', default=os.environ.get('VERIF_TIER', 'quick'))
    ap.add_argument('--seed', type=int,
                    default=int(os.environ.get('VERIF_SEED', '0') or 0))
    ap.add_argument('--replay', default=None)
    ap.add_argument('--jobs', type=int, default=None)
    a = ap.parse_args(argv)
    if a.tier not in ('quick', 'thorough'):
        a.tier = 'quick'
    from vmon import env
    env.import_dassh()
    mod = importlib.import_module('vmon.checks.' + a.prop.lower())
    rc = run_check(mod, a.tier, a.seed, a.replay, a.jobs)
    sys.stdout.flush()
    return rc


if __name__ == '__main__':
    sys.exit(main())
