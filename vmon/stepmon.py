"""Per-step recorder for Assembly.calculate.

Wraps (from outside, no source edit) the real

    Assembly.calculate, Assembly.update_region,
    AssemblyPower.get_power_sweep,
    RoddedRegion._calc_coolant_int_temp / _calc_coolant_byp_temp(_stagnant)
    RoddedRegion._calc_duct_temp
    SingleNodeHomogeneous._calc_coolant_temp / MultiNodeHomogeneous._calc_coolant_temp
    SingleNodeHomogeneous._calc_duct_temp
    DASSH_Region._update_coolant / _update_duct

and hands one record per calculate() call to a callback. Quantities are
captured *as used*: e.g. the heat capacity in force when the coolant update
ran, the duct conductivity set by the _update_duct call inside the wall solve.
"""
import numpy as np
from vmon import env

dassh = env.import_dassh()
from dassh.assembly import Assembly            # noqa: E402
from dassh.power import AssemblyPower          # noqa: E402
from dassh.region import DASSH_Region          # noqa: E402
from dassh.region_rodded import RoddedRegion   # noqa: E402
from dassh.region_unrodded import (SingleNodeHomogeneous,   # noqa: E402
                                   MultiNodeHomogeneous)


def _copy_temp(reg):
    return {k: np.array(v, dtype=float, copy=True)
            for k, v in reg.temp.items()}


def _cool_props(reg):
    c = reg.coolant
    return {'T': float(c.temperature), 'cp': float(c.heat_capacity),
            'rho': float(c.density), 'k': float(c.thermal_conductivity),
            'mu': float(c.viscosity)}


class StepMonitor(object):
    def __init__(self, hooks, on_step=None, on_region_change=None):
        self.hk = hooks
        self.on_step = on_step
        self.on_region_change = on_region_change
        self.cur = None
        self.ctx = None
        self.last_power = {}
        self._install()

    # ------------------------------------------------------------------
    def _install(self):
        hk = self.hk
        hk.wrap(Assembly, 'calculate', pre=self._calc_pre,
                post=self._calc_post)
        hk.wrap(Assembly, 'update_region', pre=self._ur_pre,
                post=self._ur_post)
        hk.wrap(AssemblyPower, 'get_power_sweep', post=self._power_post)
        hk.wrap(DASSH_Region, '_update_coolant', post=self._upd_cool_post)
        hk.wrap(DASSH_Region, '_update_duct', post=self._upd_duct_post)
        for cls, name in ((RoddedRegion, '_calc_coolant_int_temp'),
                          (RoddedRegion, '_calc_coolant_byp_temp'),
                          (RoddedRegion, '_calc_coolant_byp_temp_stagnant'),
                          (RoddedRegion, '_calc_duct_temp'),
                          (SingleNodeHomogeneous, '_calc_coolant_temp'),
                          (MultiNodeHomogeneous, '_calc_coolant_temp'),
                          (SingleNodeHomogeneous, '_calc_duct_temp')):
            hk.wrap(cls, name, pre=self._mk_pre(name),
                    post=self._mk_post(name),
                    label='%s.%s' % (cls.__name__, name))

    # -- Assembly.calculate --------------------------------------------
    def _calc_pre(self, args, kwargs):
        asm = args[0]
        reg = asm.active_region
        dz = args[1] if len(args) > 1 else kwargs['dz']
        t_gap = args[2] if len(args) > 2 else kwargs['t_gap']
        h_gap = args[3] if len(args) > 3 else kwargs['h_gap']
        rec = {'asm': asm, 'reg': reg, 'dz': float(dz),
               't_gap': np.array(t_gap, dtype=float, copy=True),
               'h_gap': np.array(h_gap, dtype=float, copy=True),
               'adiabatic': bool(kwargs.get('adiabatic', False)),
               'pre': _copy_temp(reg), 'calls': [], 'sub': {},
               'z0': float(asm.z),
               'pd0': dict(asm._power_delivered)}
        if reg.is_rodded:
            rec['htc_int'] = np.array(reg.coolant_int_params['htc'],
                                      copy=True)
            rec['fs'] = np.array(reg.coolant_int_params['fs'], copy=True)
            if reg.n_bypass > 0:
                rec['htc_byp'] = np.array(reg.coolant_byp_params['htc'],
                                          copy=True)
        self.cur = rec
        return rec

    def _calc_post(self, args, kwargs, res, rec):
        rec['post'] = _copy_temp(rec['reg'])
        rec['pow'] = self.last_power.get(id(rec['asm'].power))
        rec['z1'] = float(rec['asm'].z)
        self.cur = None
        if self.on_step:
            self.on_step(rec)

    def _power_post(self, args, kwargs, res, tok):
        self.last_power[id(args[0])] = {
            k: (None if v is None else np.array(v, dtype=float, copy=True))
            for k, v in res.items()}

    # -- region sub-calls -------------------------------------------------
    def _mk_pre(self, name):
        def pre(args, kwargs):
            reg = args[0]
            self.ctx = name
            if self.cur is not None and self.cur['reg'] is reg:
                d = {'cool_pre': _cool_props(reg),
                     'duct_k_pre': float(reg.duct.thermal_conductivity),
                     'n_calls0': len(self.cur['calls'])}
                if hasattr(reg, 'coolant_params'):
                    d['htc_pre'] = reg.coolant_params.get('htc')
                self.cur['sub'].setdefault(name, []).append(d)
                return d
            return None
        return pre

    def _mk_post(self, name):
        def post(args, kwargs, res, d):
            reg = args[0]
            self.ctx = None
            if d is not None:
                d['cool_post'] = _cool_props(reg)
                d['duct_k_post'] = float(reg.duct.thermal_conductivity)
                if hasattr(reg, 'coolant_params'):
                    d['htc_post'] = reg.coolant_params.get('htc')
                    d['mratio'] = reg.mratio
                d['calls'] = self.cur['calls'][d['n_calls0']:] \
                    if self.cur is not None else []
                if res is not None:
                    d['ret'] = np.array(res, dtype=float, copy=True)
        return post

    def _upd_cool_post(self, args, kwargs, res, tok):
        if self.cur is not None and args[0] is self.cur['reg']:
            p = _cool_props(args[0])
            p['kind'] = 'coolant'
            p['ctx'] = self.ctx
            self.cur['calls'].append(p)

    def _upd_duct_post(self, args, kwargs, res, tok):
        if self.cur is not None and args[0] is self.cur['reg']:
            self.cur['calls'].append(
                {'kind': 'duct', 'ctx': self.ctx,
                 'T': float(args[0].duct.temperature),
                 'k': float(args[0].duct.thermal_conductivity)})

    # -- region change ------------------------------------------------------
    def _ur_pre(self, args, kwargs):
        asm = args[0]
        return {'asm': asm, 'old_idx': asm.active_region_idx,
                'old': asm.active_region,
                'old_temp': _copy_temp(asm.active_region)}

    def _ur_post(self, args, kwargs, res, tok):
        asm = tok['asm']
        if asm.active_region_idx != tok['old_idx'] and self.on_region_change:
            tok['new'] = asm.active_region
            tok['new_temp'] = _copy_temp(asm.active_region)
            self.on_region_change(tok)


# ----------------------------------------------------------------------
# independent geometry / flow bookkeeping used by several oracles


def wall_widths(reg):
    """Heat-transfer width (m) of every duct cell of every duct wall,
    derived from the input dimensions only. Both faces of a wall use the
    same width (the wall is a slab): edge cells one pin pitch, corner cells
    one sixth of what is left of the outer-surface perimeter of that wall."""
    nr = reg.n_ring
    P = reg.pin_pitch
    typ = np.asarray(reg._duct_idx)       # 0 edge, 1 corner (published)
    out = []
    for d in range(reg.n_duct):
        f_o = float(reg.duct_ftf[d][1])
        wc = (2 * np.sqrt(3.0) * f_o - 6 * (nr - 1) * P) / 6.0
        out.append(np.where(typ == 0, P, wc))
    return out


def duct_heating(reg, rec):
    """Mid-wall temperature rise due to wall heating (q L^2 / 8k, q the
    power density) of every duct cell in this step (n_duct x n_cell), from
    the power handed to the step and the wall conductivities the wall solve
    evaluated."""
    nd = reg.subchannel.n_sc['duct']['total']
    out = np.zeros((reg.n_duct, nd))
    pw = (rec.get('pow') or {}).get('duct')
    if pw is None:
        return out
    ks = [c['k'] for c in rec['sub']['_calc_duct_temp'][0]['calls']
          if c['kind'] == 'duct']
    w = wall_widths(reg)
    for d in range(reg.n_duct):
        L = 0.5 * float(reg.duct_ftf[d][1] - reg.duct_ftf[d][0])
        out[d] = pw[d * nd:(d + 1) * nd] * L / (8.0 * ks[d] * w[d])
    return out


def sc_flows(reg):
    """Subchannel mass flows rebuilt from published geometry and split."""
    st = reg.subchannel.type[:reg.subchannel.n_sc['coolant']['total']]
    a = np.asarray(reg.params['area'])[st]
    fs = np.asarray(reg.coolant_int_params['fs'])[st]
    return reg.int_flow_rate * fs * a / reg.bundle_params['area']


def byp_flows(reg, i):
    """Bypass-gap cell mass flows of gap i from the annulus geometry."""
    nr = reg.n_ring
    P = reg.pin_pitch
    typ = np.asarray(reg._duct_idx)
    f1 = float(reg.duct_ftf[i][1])      # outer FTF of inner wall
    f2 = float(reg.duct_ftf[i + 1][0])  # inner FTF of outer wall
    g = 0.5 * (f2 - f1)
    s3 = np.sqrt(3.0)
    wc_in = (2 * s3 * f1 - 6 * (nr - 1) * P) / 6.0
    wc_out = (2 * s3 * f2 - 6 * (nr - 1) * P) / 6.0
    area = np.where(typ == 0, P * g, g * 0.5 * (wc_in + wc_out))
    a_tot = s3 / 2 * (f2 ** 2 - f1 ** 2)
    return reg.byp_flow_rate[i] * area / a_tot, area, a_tot
