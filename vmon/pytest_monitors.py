"""pytest plugin: the repository's own test-suite as a workload.

Loaded with ``-p vmon.pytest_monitors`` in a scratch copy of the repository;
installs the step monitors of the checks named in VMON_MONITORS (comma
separated: c01, c11) for the whole session and writes what they observed to
VMON_MONITORS_OUT (one JSON Result per check). Tests are free to call the
solver in any way they like; the monitors only assert per-call identities
with quantities captured as used."""
import os
import json


_STATE = {}


def pytest_configure(config):
    names = [n for n in os.environ.get('VMON_MONITORS', '').split(',') if n]
    if not names:
        return
    from vmon.harness import Result
    from vmon.probe import Hooks
    from vmon.stepmon import StepMonitor
    hk = Hooks()
    hk.__enter__()
    results = {}
    cbs, rcs = [], []
    for n in names:
        res = Result({'name': 'repo_tests'})
        results[n] = res
        key = {'workload': 'repo_tests'}
        if n == 'c01':
            from vmon.checks import c01
            a, b = c01.step_monitors(res, key)
            cbs.append((res, a))
            rcs.append((res, b))
        elif n == 'c11':
            from vmon.checks import c11
            cbs.append((res, c11.step_contract(res, key)))
        elif n == 'c10':
            import numpy as np
            from vmon.checks import c10
            dassh_, mf = c10._mf()
            orig_apply = mf.map_across_gap
            rng = np.random.default_rng(10)

            def post_map(args, kwargs, result, tok, res=res):
                try:
                    M, N = result
                    # unit tests feed toy arrays that are not two tilings of
                    # a hexagon's perimeter: the contract's precondition
                    c = c10.mesh_cells(args[0], args[1])
                    if not (np.all(np.diff(c['xr']) > 0)
                            and np.all(np.diff(c['xg']) > 0)
                            and c['xg'][-1] < c['P'] and c['n_d'] >= 6
                            and c['n_g'] >= 6 and np.all(c['w_d'] > 0)
                            and np.all(c['w_g'] > 0)):
                        res.count('skipped_precondition_not_a_hex_tiling')
                        return
                    c10.check_maps(res, args[0], args[1], M, N, rng,
                                   orig_apply,
                                   {'region': 'n_d=6' if len(args[0]) == 8
                                    else 'rodded'}, 'repo_tests')
                    res.count('H0_hooked_map_asm2gap_calls')
                except Exception as e:
                    res.count('monitor_exception:' + type(e).__name__)
            hk.wrap(mf, '_map_asm2gap', post=post_map)

    def guarded(res, fn, rec):
        try:
            fn(rec)
        except Exception as e:       # a monitor must not break the test
            res.count('monitor_exception:' + type(e).__name__)

    def on_step(rec):
        for res, fn in cbs:
            guarded(res, fn, rec)

    def on_rc(tok):
        for res, fn in rcs:
            guarded(res, fn, tok)

    StepMonitor(hk, on_step, on_rc)
    _STATE.update(hk=hk, results=results)


def pytest_unconfigure(config):
    if not _STATE:
        return
    try:
        _STATE['hk'].__exit__(None, None, None)
    except Exception:
        pass
    out = os.environ.get('VMON_MONITORS_OUT')
    if out:
        with open(out, 'w') as f:
            json.dump({n: r.out() for n, r in _STATE['results'].items()}, f,
                      default=str)
