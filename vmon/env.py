"""Locate the DASSH source tree under test and make it importable.

The checks always import ``dassh`` from ``$VERIF_DASSH_SRC`` (default
``/repo``), i.e. from the current working tree: there is no build step
other than import, so "rebuilding" is re-importing in a fresh process.
"""
import os
import sys
import logging

SRC = os.path.abspath(os.environ.get('VERIF_DASSH_SRC', '/repo'))
GUARD = 'DASSH_VERIF'

sys.dont_write_bytecode = True
os.environ.setdefault('PYTHONDONTWRITEBYTECODE', '1')
os.environ[GUARD] = '1'
# one BLAS thread per worker process: the harness parallelises by case
for _v in ('OMP_NUM_THREADS', 'OPENBLAS_NUM_THREADS', 'MKL_NUM_THREADS'):
    os.environ.setdefault(_v, '1')
os.environ.setdefault('MPLBACKEND', 'Agg')
if SRC in sys.path:
    sys.path.remove(SRC)
sys.path.insert(0, SRC)


class _Capture(logging.Handler):
    """Collect DASSH log records (errors are what C18 needs to see)."""

    def __init__(self):
        logging.Handler.__init__(self, level=logging.WARNING)
        self.records = []

    def emit(self, record):
        if len(self.records) < 200:
            try:
                self.records.append((record.levelname, record.getMessage()))
            except Exception:  # pragma: no cover
                self.records.append((record.levelname, str(record.msg)))


CAPTURE = _Capture()


def import_dassh():
    import numpy  # noqa: F401
    import warnings
    warnings.filterwarnings('ignore')
    import dassh
    here = os.path.abspath(os.path.dirname(dassh.__file__))
    if not here.startswith(SRC):
        raise RuntimeError('dassh imported from %s, expected under %s'
                           % (here, SRC))
    lg = logging.getLogger('dassh')
    lg.propagate = False
    lg.setLevel(logging.WARNING)
    if CAPTURE not in lg.handlers:
        lg.addHandler(CAPTURE)
    import numpy as np
    np.seterr(all='ignore')
    return dassh


def log_records(clear=True):
    r = list(CAPTURE.records)
    if clear:
        CAPTURE.records.clear()
    return r
